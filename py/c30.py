#!/usr/bin/env python3
"""C30 - Python DB-API parameter binding is faithful (DESIGN.md section 5 C30, engine E7).

usage: c30.py <quick|thorough>      exhaustive check (exit 0 held / 1 violation / 2 machinery)
       c30.py replay <path>         re-execute one recorded call sequence, print both observations

What is enumerated (no sampling anywhere):
  * 14 SQL templates with 0..3 '?' over  t(n BIGINT, s VARCHAR(50), x DOUBLE, b BOOLEAN)
    (INSERT, SELECT with WHERE, '?' in the select list, UPDATE, DELETE, '?' inside a string
    literal, '?' adjacent to quotes); every '?' slot has a kind (int/str/float/bool/any) and takes
    every value of that kind from
        {0, 1, -1, 2**31, 2**63-1, 0.5, -0.0, 1e308, nan, inf,
         "", "a", "it's", "?", "a'; DROP TABLE t; --", True, False, None};
  * ALL call sequences on ONE cursor of one connection:
        quick    : length <= 2 over all 14 templates and a reduced value set
        thorough : length <= 2 over all 14 templates and the full slot domains, and length 3 over
                   all 14 templates with a middle value set.
Oracle: a second, fresh connection; the reference binder below replaces every placeholder that is
outside a string literal by a correctly quoted SQL literal and executes the literal statement with
NO parameters on a fresh cursor. After every call both sides must be in the same class (ok/error),
return the same fetch result / rowcount (Python ==, NaN equal to NaN, as bags) and hold the same
table bag. A sequence is executed from scratch (two fresh connections) for every enumerated
history; only its last call is judged (its prefixes are histories of their own), and a history
whose prefix already failed or is undefined is not extended.
Undefined cases (never violations, counted as skipped_undefined): a value that has no SQL literal
in vibesql (nan, inf: checked by evaluating the literal on a scratch connection), and calls where
the literal statement is rejected although the parameterised one is accepted while a negative
number is involved (vibesql rejects negative literals in INSERT VALUES).
"""
import glob
import hashlib
import itertools
import json
import math
import os
import re
import shutil
import subprocess
import sys
import time

ROOT = "/verif"
PROP = "C30"
BUILD_DIR = ROOT + "/.build/py"
MOD_DIR = BUILD_DIR + "/mod"
CRATE = "/repo/crates/vibesql-python-bindings"

# ------------------------------------------------------------------------------------------------
# build + import
# ------------------------------------------------------------------------------------------------


def machinery(msg):
    sys.stderr.write("MACHINERY-ERROR property=%s %s\n" % (PROP, msg))
    sys.stderr.flush()
    sys.exit(2)


def cdylib_name():
    """lib<name>.so from the [lib] section of the crate's Cargo.toml"""
    try:
        text = open(CRATE + "/Cargo.toml").read()
        m = re.search(r"\[lib\](.*?)(\n\[|\Z)", text, re.S)
        if m:
            n = re.search(r'^\s*name\s*=\s*"([^"]+)"', m.group(1), re.M)
            if n:
                return n.group(1)
    except OSError:
        pass
    return None


def build_extension():
    os.makedirs(BUILD_DIR, exist_ok=True)
    env = dict(os.environ)
    env.update({
        "CARGO_TARGET_DIR": BUILD_DIR,
        "RUSTC_WRAPPER": "",
        "PYO3_PYTHON": shutil.which("python3") or sys.executable,
        "CARGO_NET_OFFLINE": "true",
    })
    # fixed flags whether started by /verif/verif (which exports RUSTFLAGS) or directly: a different
    # RUSTFLAGS value would rebuild the whole dependency tree (minutes)
    env["RUSTFLAGS"] = os.environ.get("VERIF_RUSTFLAGS", "-Awarnings")
    log = ROOT + "/.build/build-c30.log"
    t0 = time.time()
    try:
        with open(log, "w") as f:
            # cwd=/verif: /repo/.cargo/config.toml (rustc-wrapper = sccache, not installed) must not apply
            rc = subprocess.call(
                ["cargo", "build", "--release", "--offline", "--manifest-path", CRATE + "/Cargo.toml"],
                cwd=ROOT, env=env, stdout=f, stderr=subprocess.STDOUT)
    except OSError as e:
        machinery("cannot run cargo: %s" % e)
    if rc != 0:
        try:
            tail = "".join(open(log).readlines()[-25:])
        except OSError:
            tail = ""
        sys.stderr.write(tail)
        machinery("extension build failed (see %s)" % log)
    name = cdylib_name()
    cands = [BUILD_DIR + "/release/lib%s.so" % name] if name else []
    cands += sorted(glob.glob(BUILD_DIR + "/release/lib*.so"))
    so = next((c for c in cands if os.path.exists(c)), None)
    if so is None:
        machinery("no cdylib produced under %s/release" % BUILD_DIR)
    modname = name or os.path.basename(so)[3:-3]
    os.makedirs(MOD_DIR, exist_ok=True)
    dst = "%s/%s.so" % (MOD_DIR, modname)
    tmp = "%s.%d.tmp" % (dst, os.getpid())
    shutil.copy2(so, tmp)
    os.replace(tmp, dst)
    return modname, time.time() - t0


_mod = None


def load_module(modname):
    global _mod
    if _mod is None:
        if MOD_DIR not in sys.path:
            sys.path.insert(0, MOD_DIR)
        _mod = __import__(modname)
    return _mod


# ------------------------------------------------------------------------------------------------
# the space
# ------------------------------------------------------------------------------------------------

NAN = float("nan")
INF = float("inf")

FULL = {
    "int": [1, 0, -1, 2 ** 31, 2 ** 63 - 1, None],
    "str": ["a", "", "it's", "?", "a'; DROP TABLE t; --", "a b", "a  b", "a\tb", "A", " a", None],
    "float": [0.5, -0.0, 1e308, NAN, INF, None],
    "bool": [True, False, None],
}
FULL["any"] = [1, 0, -1, 2 ** 31, 2 ** 63 - 1, 0.5, -0.0, 1e308, NAN, INF,
               "a", "", "it's", "?", "a'; DROP TABLE t; --", "a b", "a  b", "A", True, False, None]

# reduced value set (quick tier)
REDUCED = {
    "int": [1, 0, 2 ** 31],
    # "a b" / "a  b" / "A": values that collide under whitespace or case normalisation of the text
    "str": ["a", "it's", "?", "a b", "a  b", "A"],
    "float": [0.5, None],
    "bool": [True, None],
    "any": [1, 0.5, "it's", "a'; DROP TABLE t; --", "a b", "a  b", True, None],
}
# middle value set: the length-3 layer of the thorough tier
MIDDLE = {
    "int": [1, 0, -1],
    "str": ["a", "it's", "?", "a b", "a  b"],
    "float": [0.5, 1e308, None],
    "bool": [True, False, None],
    "any": [1, -1, 0.5, "it's", "a'; DROP TABLE t; --", "a b", "a  b", True, None],
}

SCHEMA = ["CREATE TABLE t (n BIGINT, s VARCHAR(50), x DOUBLE, b BOOLEAN)"]
INIT = [
    "INSERT INTO t (n, s, x, b) VALUES (1, 'a', 0.5, TRUE)",
    "INSERT INTO t (n, s, x, b) VALUES (0, 'it''s', NULL, FALSE)",
    "INSERT INTO t (n, s, x, b) VALUES (2147483648, '?', 1e308, NULL)",
    "INSERT INTO t (n, s, x, b) VALUES (3, 'a b', NULL, NULL)",
]
STATE_QUERY = "SELECT n, s, x, b FROM t"

# (id, sql, slot kinds)
TEMPLATES = [
    ("ins2", "INSERT INTO t (n, s) VALUES (?, ?)", ["int", "str"]),
    ("sel_n", "SELECT n, s FROM t WHERE n = ?", ["int"]),
    ("sel_p", "SELECT ?, n FROM t WHERE n = 1", ["any"]),
    ("upd2", "UPDATE t SET s = ? WHERE n = ?", ["str", "int"]),
    ("del_n", "DELETE FROM t WHERE n = ?", ["int"]),
    ("lit1", "SELECT n, s FROM t WHERE s = '?' AND n = ?", ["int"]),
    ("ins3", "INSERT INTO t (n, x, b) VALUES (?, ?, ?)", ["int", "float", "bool"]),
    ("sel_s", "SELECT n, s FROM t WHERE s = ?", ["str"]),
    ("upd3", "UPDATE t SET x = ?, b = ? WHERE n = ?", ["float", "bool", "int"]),
    ("del2", "DELETE FROM t WHERE s = ? OR n = ?", ["str", "int"]),
    ("lit0", "SELECT n FROM t WHERE s = '?'", []),
    ("lit_i", "INSERT INTO t (n, s) VALUES (?, 'what?')", ["int"]),
    ("adj", "SELECT n, s FROM t WHERE s IN ('a',?,'it''s')", ["str"]),
    ("all0", "SELECT n, s, x, b FROM t", []),
]


def pairs_for(templates, domains):
    """all (template index, params) pairs; templates without '?' are called as execute(sql)
    (params None) and as execute(sql, ())"""
    out = []
    for ti, (_tid, _sql, kinds) in templates:
        if not kinds:
            out.append((ti, None))
            out.append((ti, ()))
        else:
            for tup in itertools.product(*[domains[k] for k in kinds]):
                out.append((ti, tup))
    return out


# ------------------------------------------------------------------------------------------------
# reference binder
# ------------------------------------------------------------------------------------------------

def literal(v):
    """SQL literal denoting the Python value, or None if SQL has none"""
    if v is None:
        return "NULL"
    if isinstance(v, bool):
        return "TRUE" if v else "FALSE"
    if isinstance(v, int):
        return str(v)
    if isinstance(v, float):
        if math.isnan(v) or math.isinf(v):
            return None
        return repr(v)
    if isinstance(v, str):
        return "'" + v.replace("'", "''") + "'"
    return None


def placeholders(sql):
    """offsets of the '?' characters that are outside string literals ('' is an escaped quote)"""
    pos = []
    in_str = False
    i = 0
    while i < len(sql):
        c = sql[i]
        if in_str:
            if c == "'":
                if i + 1 < len(sql) and sql[i + 1] == "'":
                    i += 1
                else:
                    in_str = False
        else:
            if c == "'":
                in_str = True
            elif c == "?":
                pos.append(i)
        i += 1
    return pos


def bind_reference(sql, params):
    """-> (literal statement, None) | (None, 'count') | (None, 'noliteral')"""
    pos = placeholders(sql)
    n = 0 if params is None else len(params)
    if len(pos) != n:
        return None, "count"
    out = []
    last = 0
    for p, v in zip(pos, params or ()):
        lit = literal(v)
        if lit is None:
            return None, "noliteral"
        out.append(sql[last:p])
        out.append(lit)
        last = p + 1
    out.append(sql[last:])
    return "".join(out), None


def same_value_exact(a, b):
    """type-aware identity used only to validate that a literal denotes its value"""
    if type(a) is not type(b):
        return False
    if isinstance(a, float):
        return math.copysign(1.0, a) == math.copysign(1.0, b) and a == b
    return a == b


_expressible = {}


def expressible(mod, v):
    """does the engine (no binding involved) evaluate the literal of v to v?"""
    key = (type(v).__name__, repr(v))
    if key not in _expressible:
        lit = literal(v)
        ok = False
        if lit is not None:
            try:
                c = mod.connect()
                cur = c.cursor()
                cur.execute("CREATE TABLE one (z INT)")
                cur.execute("INSERT INTO one (z) VALUES (1)")
                cur = c.cursor()
                cur.execute("SELECT %s FROM one" % lit)
                rows = cur.fetchall()
                ok = len(rows) == 1 and len(rows[0]) == 1 and same_value_exact(rows[0][0], v)
            except BaseException as e:  # noqa
                if isinstance(e, (KeyboardInterrupt, SystemExit)):
                    raise
                ok = False
        _expressible[key] = ok
    return _expressible[key]


# ------------------------------------------------------------------------------------------------
# observation, comparison
# ------------------------------------------------------------------------------------------------

def canon(v):
    """key under which Python == holds (1 == 1.0 == True, -0.0 == 0.0) and NaN equals NaN"""
    if v is None:
        return (0, "")
    if isinstance(v, (bool, int)):
        return (1, repr(int(v)))
    if isinstance(v, float):
        if math.isnan(v):
            return (1, "nan")
        if math.isinf(v):
            return (1, "inf" if v > 0 else "-inf")
        if v == int(v):
            return (1, repr(int(v)))
        return (1, repr(v))
    if isinstance(v, str):
        return (2, v)
    return (3, repr(v))


def bag(rows):
    return sorted(tuple(canon(v) for v in r) for r in rows)


def is_fatal(e):
    return isinstance(e, (KeyboardInterrupt, SystemExit, MemoryError))


def observe_call(cur, sql, params, with_params):
    """-> dict(cls=ok|error|panic, kind=rows|count, rows=[...]|None, count=int|None, err=str)"""
    try:
        if with_params and params is not None:
            cur.execute(sql, params)
        else:
            cur.execute(sql)
    except BaseException as e:  # pyo3 PanicException derives from BaseException
        if is_fatal(e):
            raise
        cls = "panic" if type(e).__name__ == "PanicException" else "error"
        return {"cls": cls, "err": "%s: %s" % (type(e).__name__, str(e)[:200])}
    try:
        rows = cur.fetchall()
        return {"cls": "ok", "kind": "rows", "rows": [tuple(r) for r in rows]}
    except BaseException as e:
        if is_fatal(e):
            raise
        if type(e).__name__ == "PanicException":
            return {"cls": "panic", "err": "fetchall: %s" % str(e)[:200]}
        try:
            return {"cls": "ok", "kind": "count", "count": cur.rowcount}
        except BaseException as e2:
            if is_fatal(e2):
                raise
            return {"cls": "panic", "err": "rowcount: %s" % str(e2)[:200]}


def observe_state(conn):
    try:
        cur = conn.cursor()
        cur.execute(STATE_QUERY)
        return {"cls": "ok", "rows": [tuple(r) for r in cur.fetchall()]}
    except BaseException as e:
        if is_fatal(e):
            raise
        return {"cls": "error", "err": "%s: %s" % (type(e).__name__, str(e)[:200])}


def show(o):
    if o is None:
        return "-"
    if o["cls"] != "ok":
        return "%s(%s)" % (o["cls"], o.get("err", ""))
    if o.get("kind") == "count":
        return "rowcount=%r" % (o["count"],)
    return "rows=%r" % (o["rows"],)


def differ(a, b):
    """None if the two call observations agree, else a short reason"""
    if a["cls"] == "panic":
        return "the parameterised call panicked"
    if a["cls"] != b["cls"]:
        return "outcome class differs"
    if a["cls"] != "ok":
        return None
    if a["kind"] != b["kind"]:
        return "result kind differs"
    if a["kind"] == "rows":
        if bag(a["rows"]) != bag(b["rows"]):
            return "fetch result differs"
    elif a["count"] != b["count"]:
        return "rowcount differs"
    return None


def state_differ(a, b):
    if a["cls"] != b["cls"]:
        return "table t readable on one side only"
    if a["cls"] == "ok" and bag(a["rows"]) != bag(b["rows"]):
        return "table contents differ"
    return None


def fresh_pair(mod):
    conns = []
    for _ in range(2):
        c = mod.connect()
        cur = c.cursor()
        for s in SCHEMA + INIT:
            cur.execute(s)
        conns.append(c)
    return conns


def has_negative(params):
    for v in params or ():
        if isinstance(v, (int, float)) and not isinstance(v, bool):
            if math.copysign(1.0, v) < 0:
                return True
    return False


def run_sequence(mod, seq, judge_all=False):
    """Execute a call sequence [(sql, params)] from scratch on both sides.
    Returns (status, step, reason, trace): status in ok | violation | undefined.
    Only the last call is judged unless judge_all (replay)."""
    a, b = fresh_pair(mod)
    cur = a.cursor()  # ONE cursor for the whole sequence on the side under test
    trace = []
    for i, (sql, params) in enumerate(seq):
        last = i == len(seq) - 1
        ref_sql, why = bind_reference(sql, params)
        if ref_sql is not None and not all(expressible(mod, v) for v in (params or ())):
            ref_sql, why = None, "literal does not evaluate to the value"
        if ref_sql is None:
            trace.append({"sql": sql, "params": params, "undefined": why})
            return "undefined", i, "no literal form (%s)" % why, trace
        oa = observe_call(cur, sql, params, True)
        ob = observe_call(b.cursor(), ref_sql, None, False)  # fresh cursor, no parameters
        step = {"sql": sql, "params": params, "literal_sql": ref_sql, "bound": oa, "reference": ob}
        trace.append(step)
        if not (last or judge_all):
            continue
        if oa["cls"] == "ok" and ob["cls"] == "error" and has_negative(params):
            step["undefined"] = "literal statement rejected, negative number involved"
            return "undefined", i, step["undefined"], trace
        d = differ(oa, ob)
        sa, sb = observe_state(a), observe_state(b)
        step["state_bound"], step["state_reference"] = sa, sb
        if d is None:
            d = state_differ(sa, sb)
        if d is not None:
            return "violation", i, d, trace
    return "ok", len(seq) - 1, None, trace


# ------------------------------------------------------------------------------------------------
# signatures (features of the failing INPUT only)
# ------------------------------------------------------------------------------------------------

def value_class(v):
    if v is None:
        return "none"
    if isinstance(v, bool):
        return "bool"
    if isinstance(v, int):
        if v < 0:
            return "int_negative"
        return "int_big" if v >= 2 ** 31 else "int_small"
    if isinstance(v, float):
        if math.isnan(v) or math.isinf(v):
            return "float_special"
        if math.copysign(1.0, v) < 0:
            return "float_negative"
        return "float_huge" if abs(v) >= 1e300 else "float"
    if "?" in v:
        return "str_qmark"
    if ";" in v:
        return "str_sql"
    if "'" in v:
        return "str_quote"
    return "str_empty" if v == "" else "str_plain"


def signature(tseq, step):
    """tseq: [(template index, params)], step: index of the failing call"""
    ti, params = tseq[step]
    tid, sql, kinds = TEMPLATES[ti]
    earlier = [(t, p) for (t, p) in tseq[:step] if TEMPLATES[t][1] == sql]
    if not earlier:
        est = "no"
    elif any(repr(p) != repr(params) for (_t, p) in earlier):
        est = "with_different_params"
    else:
        est = "with_same_params"
    classes = sorted(set(value_class(v) for v in (params or ())))
    in_lit = "?" in sql and len(placeholders(sql)) != sql.count("?")
    bool_to_boolean = any(k == "bool" and isinstance(v, bool) for k, v in zip(kinds, params or ()))
    return {
        "template": tid,
        "statement_kind": sql.split()[0],
        "call_position": str(step + 1),
        "earlier_call_same_text": est,
        "qmark_inside_string_literal": "yes" if in_lit else "no",
        "params_passed": "none" if params is None else "tuple",
        "param_classes": "+".join(classes) if classes else "-",
        "bool_param_for_boolean_column": "yes" if bool_to_boolean else "no",
    }


def sig_key(sig):
    return ";".join("%s=%s" % (k, sig[k]) for k in sorted(sig))


# ------------------------------------------------------------------------------------------------
# JSON encoding of parameter values (nan/inf are not JSON)
# ------------------------------------------------------------------------------------------------

def enc(v):
    if v is None:
        return ["none"]
    if isinstance(v, bool):
        return ["bool", v]
    if isinstance(v, int):
        return ["int", str(v)]
    if isinstance(v, float):
        return ["float", repr(v)]
    return ["str", v]


def dec(x):
    t = x[0]
    if t == "none":
        return None
    if t == "bool":
        return bool(x[1])
    if t == "int":
        return int(x[1])
    if t == "float":
        return float(x[1])
    return x[1]


def enc_params(p):
    return None if p is None else [enc(v) for v in p]


def dec_params(p):
    return None if p is None else tuple(dec(v) for v in p)


def case_json(seq):
    return {"schema": SCHEMA, "init": INIT, "state_query": STATE_QUERY,
            "calls": [{"sql": s, "params": enc_params(p), "params_repr": repr(p)} for s, p in seq]}


def describe(trace, step, reason):
    st = trace[step]
    return ("call %d %r with %r: %s; bound: %s; reference `%s`: %s; t (bound side) = %s; t (reference) = %s" % (
        step + 1, st["sql"], st["params"], reason, show(st.get("bound")), st.get("literal_sql"),
        show(st.get("reference")), show_state(st.get("state_bound")), show_state(st.get("state_reference"))))


def show_state(o):
    if o is None:
        return "-"
    return repr(o["rows"]) if o["cls"] == "ok" else "%s(%s)" % (o["cls"], o.get("err", ""))


# ------------------------------------------------------------------------------------------------
# exploration (one worker = all histories that start with one given first call)
# ------------------------------------------------------------------------------------------------

_W = {}


def worker_init(modname, layers):
    _W["mod"] = load_module(modname)
    _W["layers"] = layers


def to_calls(tseq):
    return [(TEMPLATES[t][1], p) for (t, p) in tseq]


def explore_from(args):
    """args: (layer index, first pair index). Depth-first over all histories of the layer that
    start with that pair; a history is extended only if it held."""
    li, first = args
    mod = _W["mod"]
    pairs, maxlen = _W["layers"][li]
    res = {"states": 0, "transitions": 0, "skipped_undefined": 0, "pruned_after_failure": 0,
           "violations": [], "failing": 0, "machinery": [], "by_len": {}, "outcomes": {}}

    def visit(tseq):
        calls = to_calls(tseq)
        status, step, reason, trace = run_sequence(mod, calls)
        res["states"] += 1
        res["transitions"] += len(tseq)
        res["by_len"][len(tseq)] = res["by_len"].get(len(tseq), 0) + 1
        if status == "undefined":
            res["skipped_undefined"] += 1
            return False
        last = trace[-1]
        oc = "%s/%s" % (last["bound"]["cls"], last["reference"]["cls"])
        res["outcomes"][oc] = res["outcomes"].get(oc, 0) + 1
        if status == "violation":
            res["failing"] += 1
            # R3: re-execute twice from scratch before reporting
            again = [run_sequence(mod, calls)[:3] for _ in range(2)]
            if any(x != (status, step, reason) for x in again):
                res["machinery"].append("re-execution of a violating history diverged: %r" % (calls,))
                return False
            sig = signature(tseq, step)
            k = sig_key(sig)
            if not any(v["key"] == k for v in res["violations"]):
                res["violations"].append({"key": k, "sig": sig, "what": describe(trace, step, reason),
                                          "case": case_json(calls), "order": [len(tseq)] + [list(map(str, x)) for x in tseq]})
            return False
        return True

    def rec(tseq):
        if not visit(tseq):
            if len(tseq) < maxlen:
                res["pruned_after_failure"] += 1
            return
        if len(tseq) < maxlen:
            for p in pairs:
                rec(tseq + [p])

    try:
        rec([pairs[first]])
    except BaseException as e:
        if isinstance(e, (KeyboardInterrupt, SystemExit)):
            raise
        res["machinery"].append("worker failed on first call %r: %s: %s" % (pairs[first], type(e).__name__, e))
    return res


# ------------------------------------------------------------------------------------------------
# findings, evidence
# ------------------------------------------------------------------------------------------------

def load_findings():
    """same rule as vcore::report::load_findings: open findings of this property with a non-empty signature"""
    out = []
    try:
        text = open(ROOT + "/known_findings.jsonl").read()
    except OSError:
        return out
    for line in text.splitlines():
        line = line.strip()
        if not line or line.startswith("#"):
            continue
        try:
            v = json.loads(line)
        except ValueError:
            continue
        if not isinstance(v, dict) or v.get("property") != PROP or v.get("status") != "open":
            continue
        sig = {}
        if isinstance(v.get("signature"), dict):
            for k, val in v["signature"].items():
                sig[k] = val if isinstance(val, str) else json.dumps(val)
        if not sig:
            continue
        out.append({"key": v.get("key") if isinstance(v.get("key"), str) else "?",
                    "what": v.get("what") if isinstance(v.get("what"), str) else "", "sig": sig})
    return out


def trunc(s, n):
    return s if len(s) <= n else s[:n] + "…"


def write_replay(v):
    d = "%s/replays/%s" % (ROOT, PROP)
    os.makedirs(d, exist_ok=True)
    h = hashlib.sha256(v["key"].encode()).hexdigest()[:16]
    path = "%s/%s.json" % (d, h)
    with open(path, "w") as f:
        json.dump({"property": PROP, "signature": v["sig"], "what": v["what"], "case": v["case"]}, f, indent=1)
        f.write("\n")
    return path


def main_check(tier):
    t_start = time.time()
    modname, build_s = build_extension()
    t0 = time.time()

    quick = tier != "thorough"
    indexed = list(enumerate(TEMPLATES))
    if quick:
        layers = [(pairs_for(indexed, REDUCED), 2)]
        bounds = ("all call sequences of length <= 2 over all %d templates (a superset of DESIGN's six) with the reduced value set"
                  % len(TEMPLATES))
    else:
        layers = [(pairs_for(indexed, FULL), 2), (pairs_for(indexed, MIDDLE), 3)]
        bounds = ("all call sequences of length <= 2 over all %d templates with the full slot domains, and all of length <= 3 "
                  "over all templates with the middle value set (int {1,0,-1}, str {a, it's, ?}, float {0.5,1e308,None}, bool {True,False,None})" % len(TEMPLATES))

    import multiprocessing as mp
    ctx = mp.get_context("fork")  # the parent never imports the extension
    jobs = [(li, i) for li, (pairs, _m) in enumerate(layers) for i in range(len(pairs))]
    nproc = int(os.environ.get("VERIF_THREADS", "0")) or os.cpu_count() or 4
    try:
        with ctx.Pool(min(nproc, len(jobs)), initializer=worker_init, initargs=(modname, layers)) as pool:
            results = pool.map(explore_from, jobs, chunksize=1)
    except Exception as e:  # noqa
        machinery("worker pool failed: %s: %s" % (type(e).__name__, e))

    tot = {"states": 0, "transitions": 0, "skipped_undefined": 0, "pruned_after_failure": 0, "failing": 0}
    by_len, outcomes, mach, viols = {}, {}, [], {}
    for r in results:
        for k in tot:
            tot[k] += r[k]
        for k, v in r["by_len"].items():
            by_len[str(k)] = by_len.get(str(k), 0) + v
        for k, v in r["outcomes"].items():
            outcomes[k] = outcomes.get(k, 0) + v
        mach += r["machinery"]
        for v in r["violations"]:
            if v["key"] not in viols or v["order"] < viols[v["key"]]["order"]:
                viols[v["key"]] = v  # simplest witness per signature
    if tot["states"] == 0:
        mach.append("nothing was executed")

    findings = load_findings()
    known_hit, unknown = {}, []
    for k in sorted(viols, key=lambda k: viols[k]["order"]):
        v = viols[k]
        m = next((f for f in findings if all(v["sig"].get(sk) == want for sk, want in f["sig"].items())), None)
        if m is not None:
            known_hit.setdefault(m["key"], m["what"])
        else:
            unknown.append((v, write_replay(v)))

    for k in sorted(known_hit):
        print("KNOWN-FINDING: property=%s %s [%s]" % (PROP, known_hit[k], k))
    for v, path in unknown:
        print("VIOLATION property=%s replay=%s" % (PROP, path))
        print("  signature: %s" % v["key"])
        print("  what: %s" % trunc(v["what"], 700))
    for m in mach[:10]:
        sys.stderr.write("MACHINERY-ERROR property=%s %s\n" % (PROP, m))

    samples = []
    for li, (pairs, maxlen) in enumerate(layers):
        for idx in ([0, len(pairs) // 2], [len(pairs) // 3, 1, len(pairs) - 1])[: 2 if maxlen >= 2 else 1]:
            idx = idx[:maxlen]
            samples.append([{"sql": TEMPLATES[pairs[i][0]][1], "params": repr(pairs[i][1])} for i in idx])
    wall = time.time() - t0
    ev = {
        "property_id": PROP,
        "tier": "thorough" if tier == "thorough" else "quick",
        "seed": int(os.environ.get("VERIF_SEED", "0") or 0),
        "level": "model_checking",
        "coverage": {
            "states": tot["states"],
            "transitions": tot["transitions"],
            "traces_validated_against_impl": tot["transitions"],
            "samples": samples,
            "exhaustive": not mach,
            "bounds": bounds,
            "layers": [{"pairs": len(p), "max_len": m} for p, m in layers],
            "histories_by_length": by_len,
            "skipped_undefined": tot["skipped_undefined"],
            "histories_not_extended_after_failure_or_undefined": tot["pruned_after_failure"],
            "last_call_outcomes_bound/reference": outcomes,
            "failing_cases_total": tot["failing"],
            "known_findings_hit": sorted(known_hit),
            "new_violation_signatures": [v["key"] for v, _p in unknown],
            "templates": [t[0] for t in TEMPLATES],
            "build_s": round(build_s, 1),
            "rule": "every enumerated history is executed from scratch on the real extension (one cursor) and on a twin connection "
                    "through the reference binder; 'states' counts distinct histories executed, 'transitions' the execute calls made",
        },
        "assumptions": [
            "the plain engine reached through execute(sql) without parameters on a fresh cursor is the reference semantics of a literal statement",
            "a history whose last call failed or is undefined is not extended (the two sides have diverged); its extensions are counted in histories_not_extended_after_failure_or_undefined",
            "nan/inf have no SQL literal in vibesql; negative literals are rejected in INSERT VALUES: such calls are skipped_undefined",
        ],
        "wall_s": round(wall, 2),
        "violations": len(unknown),
    }
    os.makedirs(ROOT + "/evidence", exist_ok=True)
    try:
        with open("%s/evidence/%s.json" % (ROOT, PROP), "w") as f:
            json.dump(ev, f, indent=1)
            f.write("\n")
    except OSError as e:
        machinery("cannot write evidence: %s" % e)
    print("property=%s tier=%s wall_s=%.1f (build %.1fs) histories=%d calls=%d skipped_undefined=%d known_findings_hit=%d new_violations=%d" % (
        PROP, tier, wall, build_s, tot["states"], tot["transitions"], tot["skipped_undefined"], len(known_hit), len(unknown)))
    _ = t_start
    if mach:
        return 2
    return 1 if unknown else 0


def main_replay(path):
    try:
        v = json.load(open(path))
        calls = [(c["sql"], dec_params(c["params"])) for c in v["case"]["calls"]]
    except (OSError, ValueError, KeyError, TypeError) as e:
        sys.stderr.write("bad replay file: %s\n" % e)
        return 2
    modname, _ = build_extension()
    mod = load_module(modname)
    print("property: %s" % v.get("property"))
    print("recorded: %s" % v.get("what"))
    print("setup (both connections): %s" % "; ".join(SCHEMA + INIT))
    status, step, reason, trace = run_sequence(mod, calls, judge_all=True)
    for i, st in enumerate(trace):
        print("call %d: cursor.execute(%r, %r)" % (i + 1, st["sql"], st["params"]))
        if "literal_sql" in st:
            print("   bound     -> %s" % show(st.get("bound")))
            print("   reference -> %s   [%s]" % (show(st.get("reference")), st["literal_sql"]))
        if "state_bound" in st:
            print("   t bound     = %s" % show_state(st["state_bound"]))
            print("   t reference = %s" % show_state(st["state_reference"]))
        if "undefined" in st:
            print("   undefined: %s" % st["undefined"])
    if status == "violation":
        print("verdict: VIOLATED at call %d - %s" % (step + 1, reason))
        return 1
    print("verdict: %s" % ("holds on the current tree" if status == "ok" else "undefined (%s)" % reason))
    return 0


if __name__ == "__main__":
    if len(sys.argv) == 3 and sys.argv[1] == "replay":
        sys.exit(main_replay(sys.argv[2]))
    if len(sys.argv) == 2 and sys.argv[1] == "build":
        build_extension()
        sys.exit(0)
    if len(sys.argv) == 2 and sys.argv[1] in ("quick", "thorough"):
        sys.exit(main_check(sys.argv[1]))
    sys.stderr.write("usage: c30.py <quick|thorough> | c30.py replay <path>\n")
    sys.exit(2)
