//! C18 — native save/load round-trips the database (DESIGN.md §5 C18).
//!
//! Space: (A) every single-column schema over the supported column types × {NULL, NOT NULL} ×
//! {no index, index on the column} × each boundary value alone and all values together;
//! (B) multi-column schemas (PK / UNIQUE / CHECK / FK, two tables, duplicates, NULLs) × index menu
//! (none, single, multi-column, DESC, prefix, UNIQUE, all) × every DML history of length ≤ L.
//! Each resulting database is saved and loaded in the binary, compressed and JSON formats.
//! Oracle: equal observation before save / after load (tables, columns, row bags with floats
//! bit-wise, index definitions, probe battery derived from the database before the save).

use serde_json::json;

use crate::common::*;
use crate::roundtrip::{self, Case, Kind, FULL};
use crate::spaces::{self, ValSrc};
use vcore::report::Report;

pub fn single_cases(fmts: &[Fmt]) -> Vec<Case> {
    let mut out = vec![];
    for ty in spaces::col_types() {
        for not_null in [false, true] {
            for indexed in [false, true] {
                if not_null && !indexed {
                    // NOT NULL is covered together with the index (the two dimensions do not interact
                    // in any writer or reader: nullability is one flag per column)
                    continue;
                }
                let mk = |vals: &[&ValSrc], vclass: &str| -> Case {
                    let steps = spaces::single_steps(&ty, not_null, indexed, vals);
                    let n_ddl = if indexed { 2 } else { 1 };
                    Case {
                        sig: vec![("type".into(), ty.class.into()), ("value".into(), vclass.into())],
                        steps: steps.into_iter().enumerate().map(|(i, s)| (if i < n_ddl { Kind::Must } else { Kind::Value }, s)).collect(),
                        fmts: fmts.to_vec(),
                    }
                };
                // the empty table
                out.push(mk(&[], "no_rows"));
                if !not_null {
                    out.push(mk(&[&ValSrc::Lit(V::Null)], "null"));
                }
                for (vc, v) in &ty.values {
                    if not_null && matches!(v, ValSrc::Upd(_)) {
                        continue; // needs a NULL row first
                    }
                    out.push(mk(&[v], vc));
                }
            }
        }
    }
    out
}

/// All boundary values of a type in one table (values the engine rejects are left out: found by a
/// dry run, so that the case is about the round trip, not about INSERT).
pub fn together_cases(fmts: &[Fmt]) -> Vec<Case> {
    let mut out = vec![];
    for ty in spaces::col_types() {
        for indexed in [false, true] {
            let mut accepted: Vec<&ValSrc> = vec![];
            for (_, v) in &ty.values {
                let steps = spaces::single_steps(&ty, false, false, &[v]);
                let mut db = vibesql_storage::Database::new();
                if steps.iter().all(|s| run_step(&mut db, s).is_ok()) {
                    accepted.push(v);
                }
            }
            let null = ValSrc::Lit(V::Null);
            accepted.push(&null);
            let steps = spaces::single_steps(&ty, false, indexed, &accepted);
            let n_ddl = if indexed { 2 } else { 1 };
            out.push(Case {
                sig: vec![("type".into(), ty.class.into()), ("value".into(), "all_together".into())],
                steps: steps.into_iter().enumerate().map(|(i, s)| (if i < n_ddl { Kind::Must } else { Kind::Value }, s)).collect(),
                fmts: fmts.to_vec(),
            });
        }
    }
    out
}

pub fn multi_cases(fmts: &[Fmt], depth: usize) -> Vec<Case> {
    let mut out = vec![];
    // shortest histories first across all schemas, so that the first witness of a signature is minimal
    for l in 0..=depth {
        for sc in spaces::schemas() {
            for (iname, idx) in &sc.index_menu {
                for h in vcore::util::sequences(sc.dml.len(), l) {
                    let mut steps: Vec<(Kind, Step)> = sc.prelude.iter().map(|s| (Kind::Must, s.clone())).collect();
                    steps.extend(idx.iter().map(|s| (Kind::Must, Step::Sql(s.to_string()))));
                    steps.extend(h.iter().map(|&i| (Kind::Dml, sc.dml[i].clone())));
                    out.push(Case {
                        sig: vec![("schema".into(), sc.name.into()), ("index".into(), iname.to_string())],
                        steps,
                        fmts: fmts.to_vec(),
                    });
                }
            }
        }
    }
    out
}

pub fn run(tier: &str) -> i32 {
    let mut rep = Report::new("C18", tier, "exploration");
    let quick = rep.quick();
    let depth = if quick { 1 } else { 3 };
    vibesql_types::verif::reset();
    let a = single_cases(&NATIVE);
    let t = together_cases(&NATIVE);
    let b = multi_cases(&NATIVE, depth);
    let (na, nt, nb) = (a.len(), t.len(), b.len());
    let mut rts = 0;
    rts += roundtrip::drive(&mut rep, &a, FULL, "single_column", false);
    rts += roundtrip::drive(&mut rep, &t, FULL, "single_column_all_values", false);
    rts += roundtrip::drive(&mut rep, &b, FULL, "multi_column_histories", true);
    let (reach, _) = vcore::report::reach_json(&["index_scan"]);
    let states: u64 = ["single_column", "single_column_all_values", "multi_column_histories"]
        .iter()
        .map(|g| rep.coverage.get(&format!("{}.distinct_states", g)).and_then(|v| v.as_u64()).unwrap_or(0))
        .sum();
    let mut samples = vec![];
    for g in ["single_column", "multi_column_histories"] {
        if let Some(s) = rep.coverage.get(&format!("{}.samples", g)).and_then(|v| v.as_array()) {
            samples.extend(s.iter().take(2).cloned());
        }
    }
    if samples.is_empty() {
        samples.push(json!({"note": "no case round-tripped identically in every format"}));
    }
    rep.set("evaluations", json!(rts));
    rep.set("distinct_nontrivial", json!(states));
    rep.set("samples", json!(samples));
    rep.set("exhaustive", json!(true));
    rep.set(
        "rule",
        json!("every case of the enumerated space is built on the real engine, saved and loaded in each native format; the observation (tables, columns, row bags bit-exact, index definitions, probe battery) must be equal"),
    );
    rep.set(
        "bounds",
        json!({
            "single_column_cases": na, "all_values_cases": nt, "multi_column_cases": nb,
            "column_types": spaces::col_types().iter().map(|t| t.sql).collect::<Vec<_>>(),
            "history_depth": depth, "formats": NATIVE.iter().map(|f| f.name()).collect::<Vec<_>>(),
            "schemas": spaces::schemas().iter().map(|s| json!({"name": s.name, "index_menu": s.index_menu.iter().map(|x| x.0).collect::<Vec<_>>(), "dml_alphabet": s.dml.len()})).collect::<Vec<_>>(),
        }),
    );
    rep.set("reach", reach);
    println!("C18 {}: {} single-column + {} all-values + {} history cases, {} round trips, {} distinct database states", tier, na, nt, nb, rts, states);
    for g in ["single_column", "single_column_all_values", "multi_column_histories"] {
        println!("  {}: {}", g, rep.coverage.get(&format!("{}.counters", g)).cloned().unwrap_or_default());
    }
    cleanup();
    rep.finish()
}

pub fn replay(case: &serde_json::Value) -> i32 {
    roundtrip::replay(case, FULL)
}

/// Development aid: execute the statements, round-trip through the formats, print what differs.
pub fn probe(fmt: &str, sql: &[String]) -> i32 {
    let steps: Vec<(Kind, Step)> = sql.iter().map(|s| (Kind::Dml, Step::Sql(s.clone()))).collect();
    let fmts: Vec<Fmt> = if fmt == "all" { ALL_FMT.to_vec() } else { Fmt::from_name(fmt).into_iter().collect() };
    for f in fmts {
        println!("==== {}", f.name());
        roundtrip::replay(&json!({"steps": steps, "format": f.name()}), FULL);
    }
    0
}
