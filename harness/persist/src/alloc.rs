//! Counting global allocator (C20): records the largest single allocation request since the last
//! reset. Installed in the whole binary; the cost is two relaxed atomic operations per allocation.

use std::alloc::{GlobalAlloc, Layout, System};
use std::sync::atomic::{AtomicUsize, Ordering};

pub struct Counting;

static MAX_REQ: AtomicUsize = AtomicUsize::new(0);

#[inline]
fn note(n: usize) {
    if n > MAX_REQ.load(Ordering::Relaxed) {
        MAX_REQ.fetch_max(n, Ordering::Relaxed);
    }
}

unsafe impl GlobalAlloc for Counting {
    unsafe fn alloc(&self, l: Layout) -> *mut u8 {
        note(l.size());
        System.alloc(l)
    }
    unsafe fn alloc_zeroed(&self, l: Layout) -> *mut u8 {
        note(l.size());
        System.alloc_zeroed(l)
    }
    unsafe fn dealloc(&self, p: *mut u8, l: Layout) {
        System.dealloc(p, l)
    }
    unsafe fn realloc(&self, p: *mut u8, l: Layout, new_size: usize) -> *mut u8 {
        note(new_size);
        System.realloc(p, l, new_size)
    }
}

pub fn reset() {
    MAX_REQ.store(0, Ordering::Relaxed);
}

pub fn max_request() -> usize {
    MAX_REQ.load(Ordering::Relaxed)
}
