//! C19 — SQL dump save/load round-trips table contents (DESIGN.md §5 C19).
//!
//! Space: (A) the single-column space of C18 (every supported type × NULL/NOT NULL × boundary
//! values, alone and together), (B) the multi-column schemas × index menu × DML histories ≤ L,
//! (C) ALL strings of length ≤ n over Σ = {a ' " \ ; - newline space} as a VARCHAR value.
//! Each database is written with `save_sql_dump` and read back with `load_sql_dump`.
//! Oracle (what the property states): same tables, same columns (name, type, nullability), same
//! row bags (floats bit-wise). Index definitions and query results are C18's business.

use serde_json::json;

use crate::common::*;
use crate::roundtrip::{self, Case, Kind, CONTENTS};
use crate::spaces;
use vcore::report::Report;

pub const SIGMA: [char; 8] = ['a', '\'', '"', '\\', ';', '-', '\n', ' '];

/// All strings over SIGMA of length exactly `len`.
pub fn strings_of_len(len: usize) -> Vec<String> {
    vcore::util::sequences(SIGMA.len(), len).into_iter().map(|ix| ix.into_iter().map(|i| SIGMA[i]).collect()).collect()
}

fn sym_name(c: char) -> &'static str {
    match c {
        'a' => "a",
        '\'' => "quote",
        '"' => "dquote",
        '\\' => "backslash",
        ';' => "semicolon",
        '-' => "dash",
        '\n' => "newline",
        ' ' => "space",
        _ => "?",
    }
}

/// Signature of a string value, from the input only: which symbols it contains, and the
/// positional features the dump reader is sensitive to.
pub fn string_sig(s: &str) -> Vec<(String, String)> {
    let mut syms: Vec<&str> = SIGMA.iter().filter(|c| **c != 'a' && s.contains(**c)).map(|c| sym_name(*c)).collect();
    syms.dedup();
    let mut pos: Vec<&str> = vec![];
    if s.lines().any(|l| l.trim().starts_with("--")) {
        pos.push("line_starts_with_dashes");
    }
    if s.lines().any(|l| l.trim().is_empty()) && s.contains('\n') {
        pos.push("blank_line");
    }
    if s.ends_with('\\') {
        pos.push("ends_with_backslash");
    }
    if s.contains("\\'") {
        pos.push("backslash_before_quote");
    }
    if s.starts_with(' ') || s.ends_with(' ') || s.starts_with('\n') || s.ends_with('\n') {
        pos.push("outer_whitespace");
    }
    vec![("symbols".into(), if syms.is_empty() { "none".into() } else { syms.join("+") }), ("position".into(), if pos.is_empty() { "none".into() } else { pos.join("+") })]
}

pub fn string_cases(maxlen: usize) -> Vec<Case> {
    let mut out = vec![];
    for l in 0..=maxlen {
        for s in strings_of_len(l) {
            out.push(Case {
                sig: string_sig(&s),
                steps: vec![
                    (Kind::Must, Step::Sql("CREATE TABLE t (id INT, s VARCHAR)".into())),
                    (Kind::Must, Step::Ins("t".into(), vec![vec![V::Int(1), V::Str(s)], vec![V::Int(2), V::s("z")]])),
                ],
                fmts: vec![Fmt::Sql],
            });
        }
    }
    out
}

pub fn run(tier: &str) -> i32 {
    let mut rep = Report::new("C19", tier, "exploration");
    let quick = rep.quick();
    let depth = if quick { 1 } else { 3 };
    let n = if quick { 4 } else { 6 };
    let a = crate::c18::single_cases(&[Fmt::Sql]);
    let t = crate::c18::together_cases(&[Fmt::Sql]);
    let b = crate::c18::multi_cases(&[Fmt::Sql], depth);
    let s = string_cases(n);
    let (na, nt, nb, ns) = (a.len(), t.len(), b.len(), s.len());
    let mut rts = 0;
    rts += roundtrip::drive(&mut rep, &a, CONTENTS, "single_column", false);
    rts += roundtrip::drive(&mut rep, &t, CONTENTS, "single_column_all_values", false);
    rts += roundtrip::drive(&mut rep, &b, CONTENTS, "multi_column_histories", true);
    rts += roundtrip::drive(&mut rep, &s, CONTENTS, "strings", false);
    let groups = ["single_column", "single_column_all_values", "multi_column_histories", "strings"];
    let states: u64 = groups.iter().map(|g| rep.coverage.get(&format!("{}.distinct_states", g)).and_then(|v| v.as_u64()).unwrap_or(0)).sum();
    let mut samples = vec![];
    for g in groups {
        if let Some(x) = rep.coverage.get(&format!("{}.samples", g)).and_then(|v| v.as_array()) {
            samples.extend(x.iter().take(2).cloned());
        }
    }
    if samples.is_empty() {
        samples.push(json!({"note": "no case round-tripped identically"}));
    }
    rep.set("evaluations", json!(rts));
    rep.set("distinct_nontrivial", json!(states));
    rep.set("samples", json!(samples));
    rep.set("exhaustive", json!(true));
    rep.set(
        "rule",
        json!("every database of the enumerated space is written with save_sql_dump and read with load_sql_dump; tables, columns (name, type, nullability) and row bags (floats bit-wise) must be equal"),
    );
    rep.set(
        "bounds",
        json!({
            "single_column_cases": na, "all_values_cases": nt, "multi_column_cases": nb, "string_cases": ns,
            "string_alphabet": SIGMA.iter().map(|c| sym_name(*c)).collect::<Vec<_>>(), "string_max_len": n,
            "history_depth": depth,
            "column_types": spaces::col_types().iter().map(|t| t.sql).collect::<Vec<_>>(),
        }),
    );
    println!("C19 {}: {} single-column + {} all-values + {} history + {} string cases, {} round trips, {} distinct database states", tier, na, nt, nb, ns, rts, states);
    for g in groups {
        println!("  {}: {}", g, rep.coverage.get(&format!("{}.counters", g)).cloned().unwrap_or_default());
    }
    cleanup();
    rep.finish()
}

pub fn replay(case: &serde_json::Value) -> i32 {
    roundtrip::replay(case, CONTENTS)
}
