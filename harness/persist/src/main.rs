//! `persistcheck` — checks C18, C19, C20.
//!   persistcheck check <ID> <quick|thorough>
//!   persistcheck replay <path>

mod alloc;
mod common;
mod iso;
mod c18;
mod roundtrip;
mod spaces;
mod c19;
mod c20;

#[global_allocator]
static GLOBAL: alloc::Counting = alloc::Counting;

fn usage() -> ! {
    eprintln!("usage: persistcheck check <C18|C19|C20> <quick|thorough> | persistcheck replay <path>");
    std::process::exit(2)
}

fn replay(path: &str) -> i32 {
    let text = match std::fs::read_to_string(path) {
        Ok(t) => t,
        Err(e) => {
            eprintln!("cannot read {}: {}", path, e);
            return 2;
        }
    };
    let v: serde_json::Value = match serde_json::from_str(&text) {
        Ok(v) => v,
        Err(e) => {
            eprintln!("bad replay file: {}", e);
            return 2;
        }
    };
    println!("property: {}", v["property"].as_str().unwrap_or("?"));
    println!("signature: {}", v["signature"]);
    println!("recorded: {}", v["what"].as_str().unwrap_or(""));
    println!("-- re-execution");
    match v["property"].as_str() {
        Some("C18") => c18::replay(&v["case"]),
        Some("C19") => c19::replay(&v["case"]),
        Some("C20") => c20::replay(&v["case"]),
        _ => {
            eprintln!("not a replay file of this package");
            2
        }
    }
}

fn main() {
    let args: Vec<String> = std::env::args().collect();
    if args.len() < 2 {
        usage();
    }
    if std::env::var("PARALLEL_THRESHOLD").is_err() {
        std::env::set_var("PARALLEL_THRESHOLD", "max");
    }
    vcore::exec::silence_panics();
    let code = match args[1].as_str() {
        "check" if args.len() >= 4 => match args[2].as_str() {
            "C18" => c18::run(&args[3]),
            "C19" => c19::run(&args[3]),
            "C20" => c20::run(&args[3]),
            other => {
                eprintln!("persistcheck does not implement {}", other);
                2
            }
        },
        "replay" if args.len() >= 3 => replay(&args[2]),
        // child process of C20: persistcheck worker C20 <tier> <from> <to> <fast|mark>
        "worker" if args.len() >= 7 => {
            let (Ok(from), Ok(to)) = (args[4].parse::<u64>(), args[5].parse::<u64>()) else { usage() };
            match c20::C20::new(&args[3]) {
                Ok(sp) => {
                    let rc = iso::worker_main(&sp, from, to, args[6] == "mark");
                    common::cleanup();
                    rc
                }
                Err(e) => {
                    eprintln!("worker: {}", e);
                    2
                }
            }
        }
        // development aid: persistcheck probe <format|all> <sql>…  (round-trips the resulting database)
        "probe" if args.len() >= 4 => c18::probe(&args[2], &args[3..]),
        _ => usage(),
    };
    std::process::exit(code);
}
