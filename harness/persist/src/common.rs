//! Shared machinery of C18 / C19 / C20: formats, save/load with panics caught, a serialisable value
//! representation (so that extreme values can be inserted through `InsertStmt` ASTs and replayed),
//! the observation function of the round-trip oracle and the probe battery.

use std::panic::{catch_unwind, AssertUnwindSafe};
use std::path::{Path, PathBuf};

use serde::{Deserialize, Serialize};
use vibesql_ast as ast;
use vibesql_storage::Database;
use vibesql_types::SqlValue;

use vcore::exec::{self, Out};

// ------------------------------------------------------------------------------------------------
// formats
// ------------------------------------------------------------------------------------------------

#[derive(Clone, Copy, PartialEq, Eq, Debug, PartialOrd, Ord, Hash, Serialize, Deserialize)]
pub enum Fmt {
    Bin,
    Zst,
    Json,
    Sql,
}

pub const NATIVE: [Fmt; 3] = [Fmt::Bin, Fmt::Zst, Fmt::Json];
pub const ALL_FMT: [Fmt; 4] = [Fmt::Bin, Fmt::Zst, Fmt::Json, Fmt::Sql];

impl Fmt {
    pub fn name(self) -> &'static str {
        match self {
            Fmt::Bin => "binary",
            Fmt::Zst => "compressed",
            Fmt::Json => "json",
            Fmt::Sql => "sqldump",
        }
    }
    pub fn ext(self) -> &'static str {
        match self {
            Fmt::Bin => "vbsql",
            Fmt::Zst => "vbsqlz",
            Fmt::Json => "json",
            Fmt::Sql => "sql",
        }
    }
    pub fn from_name(s: &str) -> Option<Fmt> {
        ALL_FMT.iter().copied().find(|f| f.name() == s)
    }
}

/// Per-process scratch directory `/tmp/persist-<pid>` (removed by `cleanup`).
pub fn scratch_dir() -> PathBuf {
    // C20 workers work below the driver's directory, which the driver removes at the end even if a
    // worker was killed or aborted
    let p = match std::env::var("PERSIST_SEED_DIR") {
        Ok(d) if std::env::args().nth(1).as_deref() == Some("worker") => PathBuf::from(d).join(format!("w-{}", std::process::id())),
        _ => PathBuf::from(format!("/tmp/persist-{}", std::process::id())),
    };
    let _ = std::fs::create_dir_all(&p);
    p
}

pub fn cleanup() {
    let _ = std::fs::remove_dir_all(scratch_dir());
}

/// A file name private to the calling thread.
pub fn scratch_file(tag: &str, ext: &str) -> PathBuf {
    let tid = format!("{:?}", std::thread::current().id());
    let tid: String = tid.chars().filter(|c| c.is_ascii_digit()).collect();
    scratch_dir().join(format!("{}-{}.{}", tag, tid, ext))
}

#[derive(Debug, Clone, PartialEq)]
pub enum Fail {
    Err(String),
    Panic(String),
}

impl Fail {
    pub fn class(&self) -> &'static str {
        match self {
            Fail::Err(_) => "err",
            Fail::Panic(_) => "panic",
        }
    }
    pub fn text(&self) -> String {
        match self {
            Fail::Err(m) => format!("error: {}", vcore::util::trunc(m, 300)),
            Fail::Panic(m) => format!("PANIC: {}", vcore::util::trunc(m, 300)),
        }
    }
}

pub fn save(db: &Database, f: Fmt, p: &Path) -> Result<(), Fail> {
    let r = catch_unwind(AssertUnwindSafe(|| match f {
        Fmt::Bin => db.save_binary(p).map_err(|e| e.to_string()),
        Fmt::Zst => db.save_compressed(p).map_err(|e| e.to_string()),
        Fmt::Json => db.save_json(p).map_err(|e| e.to_string()),
        Fmt::Sql => db.save_sql_dump(p).map_err(|e| e.to_string()),
    }));
    match r {
        Ok(Ok(())) => Ok(()),
        Ok(Err(e)) => Err(Fail::Err(e)),
        Err(p) => Err(Fail::Panic(exec::panic_msg(p))),
    }
}

/// Load through the format's own entry point.
pub fn load(f: Fmt, p: &Path) -> Result<Database, Fail> {
    let r = catch_unwind(AssertUnwindSafe(|| match f {
        Fmt::Bin => Database::load_binary(p).map_err(|e| e.to_string()),
        Fmt::Zst => Database::load_compressed(p).map_err(|e| e.to_string()),
        Fmt::Json => Database::load_json(p).map_err(|e| e.to_string()),
        Fmt::Sql => vibesql_executor::load_sql_dump(p).map_err(|e| e.to_string()),
    }));
    match r {
        Ok(Ok(db)) => Ok(db),
        Ok(Err(e)) => Err(Fail::Err(e)),
        Err(p) => Err(Fail::Panic(exec::panic_msg(p))),
    }
}

/// Load through `Database::load` (format detection by extension / magic).
pub fn load_auto(p: &Path) -> Result<Database, Fail> {
    let r = catch_unwind(AssertUnwindSafe(|| Database::load(p).map_err(|e| e.to_string())));
    match r {
        Ok(Ok(db)) => Ok(db),
        Ok(Err(e)) => Err(Fail::Err(e)),
        Err(p) => Err(Fail::Panic(exec::panic_msg(p))),
    }
}

// ------------------------------------------------------------------------------------------------
// values and steps (serialisable: a case is replayable from its JSON)
// ------------------------------------------------------------------------------------------------

/// A literal as the SQL parser would hand it to the INSERT executor. Floats are carried as bit
/// patterns so that NaN, -0.0 and subnormals survive the replay file.
#[derive(Debug, Clone, PartialEq, Serialize, Deserialize)]
pub enum V {
    Null,
    Int(i64),
    /// an integer literal beyond i64 (u64 range)
    UInt(u64),
    /// f64 bit pattern; becomes a `Numeric` literal (what the parser produces for `1.5`)
    F(u64),
    Str(String),
    Bool(bool),
    Date(String),
    Time(String),
    Ts(String),
    Interval(String),
}

impl V {
    pub fn f(x: f64) -> V {
        V::F(x.to_bits())
    }
    pub fn s(x: &str) -> V {
        V::Str(x.to_string())
    }
    /// The literal value handed to the executor; `None` when the text does not denote a value.
    pub fn lit(&self) -> Option<SqlValue> {
        Some(match self {
            V::Null => SqlValue::Null,
            V::Int(i) => SqlValue::Integer(*i),
            V::UInt(u) => SqlValue::Unsigned(*u),
            V::F(b) => SqlValue::Numeric(f64::from_bits(*b)),
            V::Str(s) => SqlValue::Varchar(s.clone()),
            V::Bool(b) => SqlValue::Boolean(*b),
            V::Date(s) => SqlValue::Date(s.parse().ok()?),
            V::Time(s) => SqlValue::Time(s.parse().ok()?),
            V::Ts(s) => SqlValue::Timestamp(s.parse().ok()?),
            V::Interval(s) => SqlValue::Interval(vibesql_types::Interval::new(s.clone())),
        })
    }
    pub fn show(&self) -> String {
        match self {
            V::F(b) => format!("F({:e}/{:#018x})", f64::from_bits(*b), b),
            other => format!("{:?}", other),
        }
    }
}

#[derive(Debug, Clone, PartialEq, Serialize, Deserialize)]
pub enum Step {
    /// SQL text through the real parser
    Sql(String),
    /// `INSERT INTO table VALUES (row), …` built as an AST with literal expressions (the parser
    /// rejects negative literals in VALUES, and NaN/±inf have no literal syntax)
    Ins(String, Vec<Vec<V>>),
}

impl Step {
    pub fn show(&self) -> String {
        match self {
            Step::Sql(s) => s.clone(),
            Step::Ins(t, rows) => format!(
                "INSERT[ast] INTO {} VALUES {}",
                t,
                rows.iter()
                    .map(|r| format!("({})", r.iter().map(|v| v.show()).collect::<Vec<_>>().join(", ")))
                    .collect::<Vec<_>>()
                    .join(", ")
            ),
        }
    }
}

pub fn run_step(db: &mut Database, s: &Step) -> Out {
    match s {
        Step::Sql(q) => exec::exec(db, q),
        Step::Ins(table, rows) => {
            let mut exprs = vec![];
            for r in rows {
                let mut row = vec![];
                for v in r {
                    match v.lit() {
                        Some(l) => row.push(ast::Expression::Literal(l)),
                        None => return Out::Err(exec::ErrClass::Parse, format!("harness: {:?} denotes no value", v)),
                    }
                }
                exprs.push(row);
            }
            let stmt = ast::Statement::Insert(ast::InsertStmt {
                // unquoted identifiers reach the executor upper-cased
                table_name: table.to_uppercase(),
                columns: vec![],
                source: ast::InsertSource::Values(exprs),
                conflict_clause: None,
                on_duplicate_key_update: None,
            });
            exec::exec_stmt(db, &stmt)
        }
    }
}

// ------------------------------------------------------------------------------------------------
// observation
// ------------------------------------------------------------------------------------------------

fn fbits(x: f64) -> String {
    if x.is_nan() {
        return "f:NaN".into();
    }
    if x.is_finite() && x == x.trunc() && x.abs() < 9.007e15 && !(x == 0.0 && x.is_sign_negative()) {
        return format!("n:{}", x as i128);
    }
    format!("f:{:016x}", x.to_bits())
}

/// By-value, float-bit-exact rendering: integer variants by value, f32 widened exactly, NaN = NaN,
/// -0.0 ≠ 0.0, CHAR/VARCHAR by content, temporal values by their fields.
pub fn xv(v: &SqlValue) -> String {
    match v {
        SqlValue::Null => "NULL".into(),
        SqlValue::Integer(i) | SqlValue::Bigint(i) => format!("n:{}", i),
        SqlValue::Smallint(i) => format!("n:{}", i),
        SqlValue::Unsigned(u) => format!("n:{}", u),
        SqlValue::Numeric(f) | SqlValue::Double(f) => fbits(*f),
        SqlValue::Float(f) | SqlValue::Real(f) => fbits(*f as f64),
        SqlValue::Character(s) | SqlValue::Varchar(s) => format!("s:{:?}", s),
        SqlValue::Boolean(b) => format!("b:{}", b),
        SqlValue::Date(d) => format!("date:{}-{}-{}", d.year, d.month, d.day),
        SqlValue::Time(t) => format!("time:{}:{}:{}.{}", t.hour, t.minute, t.second, t.nanosecond),
        SqlValue::Timestamp(t) => format!(
            "ts:{}-{}-{} {}:{}:{}.{}",
            t.date.year, t.date.month, t.date.day, t.time.hour, t.time.minute, t.time.second, t.time.nanosecond
        ),
        SqlValue::Interval(i) => format!("interval:{:?}", i.value),
    }
}

pub fn xrow(r: &[SqlValue]) -> String {
    r.iter().map(xv).collect::<Vec<_>>().join(",")
}

#[derive(Debug, Clone, PartialEq, Default)]
pub struct Obs {
    /// "TABLE key" and "COL key name type nullable" lines
    pub schema: Vec<String>,
    /// per table: sorted bag of rows
    pub rows: Vec<String>,
    /// index definitions
    pub indexes: Vec<String>,
}

pub fn observe(db: &Database) -> Obs {
    let mut o = Obs::default();
    for key in vcore::obs::table_keys(db) {
        let t = &db.tables[&key];
        o.schema.push(format!("TABLE {}", key));
        for c in &t.schema.columns {
            o.schema.push(format!("COL {} {} {:?} nullable={}", key, c.name, c.data_type, c.nullable));
        }
        let mut rs: Vec<String> = t.scan().iter().map(|r| format!("ROW {} ({})", key, xrow(&r.values))).collect();
        rs.sort();
        o.rows.extend(rs);
    }
    let mut idx = db.list_indexes();
    idx.sort();
    for i in idx {
        match db.get_index(&i) {
            Some(m) => {
                let cols: Vec<String> = m
                    .columns
                    .iter()
                    .map(|c| format!("{} {:?} prefix={:?}", c.column_name, c.direction, c.prefix_length))
                    .collect();
                o.indexes.push(format!("INDEX {} ON {} unique={} ({})", i, m.table_name.to_uppercase(), m.unique, cols.join(", ")));
            }
            None => o.indexes.push(format!("INDEX {} <listed but no metadata>", i)),
        }
    }
    o
}

/// First differing line of two sorted line lists.
pub fn diff_lines(a: &[String], b: &[String]) -> Option<String> {
    if a == b {
        return None;
    }
    for i in 0..a.len().max(b.len()) {
        let x = a.get(i).map(|s| s.as_str()).unwrap_or("<nothing>");
        let y = b.get(i).map(|s| s.as_str()).unwrap_or("<nothing>");
        if x != y {
            return Some(format!("before `{}` after `{}`", vcore::util::trunc(x, 240), vcore::util::trunc(y, 240)));
        }
    }
    None
}

// ------------------------------------------------------------------------------------------------
// probe battery: the SQL is derived from the database *before* the save and executed on both sides
// ------------------------------------------------------------------------------------------------

fn ident(name: &str) -> String {
    if !name.is_empty() && name.chars().all(|c| c.is_ascii_uppercase() || c.is_ascii_digit() || c == '_') {
        name.to_string()
    } else {
        format!("\"{}\"", name.replace('"', "\"\""))
    }
}

/// A literal the parser accepts for the value, or None (negative numbers, NaN, … have none that
/// the comparison path accepts uniformly; those values are probed through IS NULL / ORDER BY only).
fn probe_lit(v: &SqlValue) -> Option<String> {
    Some(match v {
        SqlValue::Integer(i) | SqlValue::Bigint(i) if *i >= 0 => i.to_string(),
        SqlValue::Smallint(i) if *i >= 0 => i.to_string(),
        SqlValue::Unsigned(u) => u.to_string(),
        SqlValue::Numeric(f) | SqlValue::Double(f) if f.is_finite() && *f >= 0.0 && f.abs() < 1e15 && (f.abs() > 1e-6 || *f == 0.0) => {
            format!("{:?}", f)
        }
        SqlValue::Float(f) | SqlValue::Real(f) if f.is_finite() && *f >= 0.0 && f.abs() < 1e15 && (f.abs() > 1e-6 || *f == 0.0) => {
            format!("{:?}", f)
        }
        SqlValue::Character(s) | SqlValue::Varchar(s) => vcore::util::sql_str(s),
        SqlValue::Boolean(b) => (if *b { "TRUE" } else { "FALSE" }).to_string(),
        SqlValue::Date(d) => format!("DATE '{}'", d),
        SqlValue::Time(t) => format!("TIME '{}'", t),
        SqlValue::Timestamp(t) => format!("TIMESTAMP '{}'", t),
        _ => return None,
    })
}

#[derive(Debug, Clone)]
pub struct Probe {
    pub sql: String,
    /// parsed once per case (the same statement runs on the original and on every loaded database)
    pub stmt: Option<Box<ast::SelectStmt>>,
    /// Some(i): the result is ordered by output column i (compare that projection as a sequence)
    pub ordered_by: Option<usize>,
    /// the sign of zero is not observable through this probe (GROUP BY / MIN / MAX pick one
    /// representative of the equal values 0.0 and -0.0)
    pub loose_zero: bool,
}

pub fn probes(db: &Database) -> Vec<Probe> {
    let mut out = vec![];
    for key in vcore::obs::table_keys(db) {
        let t = &db.tables[&key];
        let tn = {
            let (s, n) = key.split_once('.').unwrap_or(("public", &key));
            if s == "public" {
                ident(n)
            } else {
                format!("{}.{}", ident(s), ident(n))
            }
        };
        let rows: Vec<Vec<SqlValue>> = t.scan().iter().map(|r| r.values.clone()).collect();
        out.push(Probe { sql: format!("SELECT * FROM {}", tn), ordered_by: None, loose_zero: false, stmt: None });
        out.push(Probe { sql: format!("SELECT COUNT(*) FROM {}", tn), ordered_by: None, loose_zero: false, stmt: None });
        // columns a key or a user index is built on get the full battery (those are the queries an
        // index can drive, before or after the load); for the others the answer is a function of
        // the rows and the column types, which are compared directly
        let mut keyed: Vec<String> = vec![];
        if let Some(pk) = &t.schema.primary_key {
            keyed.extend(pk.iter().cloned());
        }
        for u in &t.schema.unique_constraints {
            keyed.extend(u.iter().cloned());
        }
        for iname in db.list_indexes() {
            if let Some(m) = db.get_index(&iname) {
                let (_, bare) = key.split_once('.').unwrap_or(("", &key));
                if m.table_name.eq_ignore_ascii_case(bare) || m.table_name.eq_ignore_ascii_case(&key) {
                    keyed.extend(m.columns.iter().map(|c| c.column_name.clone()));
                }
            }
        }
        for (ci, c) in t.schema.columns.iter().enumerate() {
            let cn = ident(&c.name);
            let p = |sql: String| Probe { sql, ordered_by: None, loose_zero: false, stmt: None };
            // (interval values of different text can be equal in the order: no sequence comparison)
            let ob = if matches!(c.data_type, vibesql_types::DataType::Interval { .. }) { None } else { Some(ci) };
            out.push(p(format!("SELECT * FROM {} WHERE {} IS NULL", tn, cn)));
            out.push(Probe { sql: format!("SELECT * FROM {} ORDER BY {}", tn, cn), ordered_by: ob, loose_zero: false, stmt: None });
            if !keyed.iter().any(|k| k.eq_ignore_ascii_case(&c.name)) {
                continue;
            }
            let mut lits: Vec<String> = vec![];
            for r in &rows {
                if let Some(l) = r.get(ci).and_then(probe_lit) {
                    if !lits.contains(&l) {
                        lits.push(l);
                    }
                }
            }
            lits.truncate(3);
            for l in &lits {
                for op in ["=", "<", ">="] {
                    out.push(p(format!("SELECT * FROM {} WHERE {} {} {}", tn, cn, op, l)));
                }
            }
            if lits.len() >= 2 {
                out.push(p(format!("SELECT * FROM {} WHERE {} IN ({}, {})", tn, cn, lits[0], lits[1])));
                out.push(p(format!("SELECT * FROM {} WHERE {} BETWEEN {} AND {}", tn, cn, lits[0], lits[1])));
                out.push(p(format!("SELECT * FROM {} WHERE {} BETWEEN {} AND {}", tn, cn, lits[1], lits[0])));
            }
            if matches!(c.data_type, vibesql_types::DataType::Varchar { .. } | vibesql_types::DataType::Character { .. }) {
                for r in rows.iter().take(2) {
                    if let Some(SqlValue::Varchar(s) | SqlValue::Character(s)) = r.get(ci) {
                        let pre: String = s.chars().take(1).collect();
                        if !pre.is_empty() && !pre.contains(['%', '_', '\\']) {
                            out.push(p(format!("SELECT * FROM {} WHERE {} LIKE {}", tn, cn, vcore::util::sql_str(&format!("{}%", pre)))));
                        }
                    }
                }
            }
            out.push(p(format!("SELECT * FROM {} WHERE {} IS NOT NULL", tn, cn)));
            out.push(Probe { sql: format!("SELECT {}, COUNT(*) FROM {} GROUP BY {}", cn, tn, cn), ordered_by: None, loose_zero: true, stmt: None });
            out.push(Probe { sql: format!("SELECT * FROM {} ORDER BY {} DESC", tn, cn), ordered_by: ob, loose_zero: false, stmt: None });
            out.push(Probe { sql: format!("SELECT MIN({}), MAX({}) FROM {}", cn, cn, tn), ordered_by: None, loose_zero: true, stmt: None });
        }
    }
    out.dedup_by(|a, b| a.sql == b.sql);
    for p in out.iter_mut() {
        if let Ok(ast::Statement::Select(sel)) = exec::parse(&p.sql) {
            p.stmt = Some(sel);
        }
    }
    out
}

/// Result of one probe as comparable text: class, bag of rows, and (for ORDER BY probes) the
/// sequence of the ordering column.
pub fn run_probe(db: &Database, p: &Probe) -> String {
    let out = match &p.stmt {
        Some(sel) => exec::select_stmt(db, sel),
        None => exec::select(db, &p.sql),
    };
    match out {
        Out::Rows(rows) => {
            let lz = |s: String| if s == "f:8000000000000000" { "n:0".to_string() } else { s };
            let mut bag: Vec<String> = rows
                .iter()
                .map(|r| if p.loose_zero { r.iter().map(|v| lz(xv(v))).collect::<Vec<_>>().join(",") } else { xrow(r) })
                .collect();
            bag.sort();
            let seq = match p.ordered_by {
                // ties (0.0 / -0.0) may come in either order
                Some(i) => format!(" seq=[{}]", rows.iter().map(|r| r.get(i).map(|v| lz(xv(v))).unwrap_or_default()).collect::<Vec<_>>().join(";")),
                None => String::new(),
            };
            format!("rows[{}]{}", bag.join(" | "), seq)
        }
        Out::Err(..) => "err".into(),
        Out::Panic(_) => "panic".into(),
        other => other.class().to_string(),
    }
}
