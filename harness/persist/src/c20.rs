//! C20 — loading damaged database files fails cleanly (DESIGN.md §5 C20).
//!
//! Space (deviation-bounded enumeration, every case loaded in a worker subprocess):
//!   seeds  = small valid files of every format written by the engine itself;
//!   per seed: every truncation, every single-bit flip, every position × {00,7F,80,FF,+1};
//!   binary seeds (thorough): all two-edit combinations over the header bytes and every 4-/8-byte
//!   field the crate's own decoder reads (located by tracing its reads — no second decoder);
//!   SQL-dump seeds: every single character edit (delete / substitute / insert) over
//!   Σ = {' \ ; - ( a newline é €}; all short byte strings over a 16-symbol alphabet under each file
//!   extension (and none) through `Database::load` / `load_sql_dump`; crafted files (zstd frames
//!   that inflate to ≫ file size, deeply nested expressions / parentheses).
//! Oracle: the load returns Ok or Err — no panic, no process death, no hang (deadline), and the
//! largest single allocation request during the load ≤ 64 × file size + 1 MiB (counting allocator).

use std::io::Read;
use std::path::PathBuf;
use std::time::Duration;

use serde_json::{json, Value};
use vibesql_storage::Database;

use crate::common::*;
use crate::iso::{ChunkOut, Progress, Space};
use crate::roundtrip::{Case, Kind};
use crate::spaces;

pub const ALLOC_FACTOR: usize = 64;
pub const ALLOC_SLACK: usize = 1 << 20;
const SUBST: [u8; 4] = [0x00, 0x7f, 0x80, 0xff];
const SQL_SIGMA: [&str; 9] = ["'", "\\", ";", "-", "(", "a", "\n", "é", "€"];
const SHORT_SIGMA: [u8; 16] = [0x00, 0x01, b'V', b'B', b'S', b'Q', b'L', 0x28, 0xb5, 0x2f, 0xfd, b'{', b'}', b'"', 0xff, b' '];
const EXTS: [&str; 5] = ["vbsql", "vbsqlz", "json", "sql", "dat"];

#[derive(Clone, Copy, Debug, PartialEq, Eq)]
pub enum How {
    /// the format's own loader (load_binary / load_compressed / load_json / load_sql_dump)
    Own(Fmt),
    /// `Database::load` (format detection by extension, then magic)
    Auto,
}

impl How {
    fn name(self) -> String {
        match self {
            How::Own(f) => format!("own:{}", f.name()),
            How::Auto => "auto".into(),
        }
    }
    fn from_name(s: &str) -> Option<How> {
        if s == "auto" {
            return Some(How::Auto);
        }
        s.strip_prefix("own:").and_then(Fmt::from_name).map(How::Own)
    }
}

#[derive(Clone, Debug)]
pub struct Seed {
    pub name: String,
    pub fmt: Fmt,
    pub bytes: Vec<u8>,
    /// char boundaries (SQL seeds)
    pub chars: Vec<usize>,
    /// two-edit positions (binary seeds): header bytes + bytes of 4-/8-byte reads of the decoder
    pub fields: Vec<usize>,
    /// (offset, length) of every read the decoder issued on the valid file
    pub reads: Vec<(usize, usize)>,
    /// end of header / end of catalog section (binary)
    pub sections: (usize, usize),
}

#[derive(Clone, Copy, Debug, PartialEq, Eq)]
pub enum Family {
    Trunc,
    BitFlip,
    Subst,
    TwoEdit,
    CharEdit,
    Short,
    Crafted,
    /// a seed of one format under the extension of every other format, through `Database::load`
    CrossExt,
    /// truncations and bit flips of a *binary* seed, re-compressed: the damage reaches the parser
    /// through the streaming decoder of load_compressed
    Recompress,
}

impl Family {
    fn name(self) -> &'static str {
        match self {
            Family::Trunc => "truncation",
            Family::BitFlip => "bit_flip",
            Family::Subst => "byte_substitution",
            Family::TwoEdit => "two_edits",
            Family::CharEdit => "char_edit",
            Family::Short => "short_string",
            Family::Crafted => "crafted",
            Family::CrossExt => "wrong_extension",
            Family::Recompress => "recompressed_damage",
        }
    }
}

struct Block {
    family: Family,
    seed: usize,
    start: u64,
    count: u64,
}

pub struct C20 {
    pub tier: String,
    pub seeds: Vec<Seed>,
    pub crafted: Vec<(String, String, How, Vec<u8>)>,
    blocks: Vec<Block>,
    total: u64,
    short_len: usize,
}

// ------------------------------------------------------------------------------------------------
// seeds
// ------------------------------------------------------------------------------------------------

fn q(s: &str) -> (Kind, Step) {
    (Kind::Must, Step::Sql(s.to_string()))
}

/// The seed databases: (name, steps).
fn seed_dbs() -> Vec<(&'static str, Vec<(Kind, Step)>)> {
    let sc = spaces::schemas();
    let mut catalog: Vec<(Kind, Step)> = vec![q("CREATE SCHEMA s1"), q("CREATE ROLE r1")];
    catalog.extend(sc[1].prelude.iter().map(|s| (Kind::Must, s.clone())));
    catalog.push(q("CREATE INDEX i1 ON c (pid, w DESC)"));
    catalog.push(q("CREATE UNIQUE INDEX i2 ON p (u)"));
    catalog.push(q("CREATE TABLE lg (n INT, msg VARCHAR(20))"));
    catalog.push(q("CREATE TRIGGER tr AFTER INSERT ON c FOR EACH ROW WHEN (NEW.pid > 0 AND NEW.w IS NOT NULL) BEGIN INSERT INTO lg VALUES (1, 'x'); END"));
    vec![
        (
            "small",
            vec![
                q("CREATE TABLE t (id INT PRIMARY KEY, s VARCHAR(10), d DOUBLE PRECISION)"),
                q("INSERT INTO t VALUES (1, 'ab', 1.5), (2, NULL, 2.25)"),
                q("CREATE INDEX ix ON t (s DESC)"),
            ],
        ),
        ("catalog", catalog),
        (
            "tiny",
            vec![q("CREATE TABLE t (id INT NOT NULL, s VARCHAR(4))"), q("INSERT INTO t VALUES (1, 'é')"), q("CREATE INDEX ix ON t (id)")],
        ),
        (
            "types",
            vec![
                q("CREATE TABLE ty (a SMALLINT, b BIGINT, c REAL, d NUMERIC(10,2), e CHAR(3), f BOOLEAN, g DATE, h TIME, i TIMESTAMP, j VARCHAR)"),
                q("INSERT INTO ty VALUES (1.0, 9223372036854775807, 0.5, 12.34, 'ab', TRUE, DATE '2024-02-29', TIME '23:59:59.5', TIMESTAMP '2024-01-01 12:00:00', 'q''uote')"),
                q("INSERT INTO ty VALUES (NULL, NULL, NULL, NULL, NULL, NULL, NULL, NULL, NULL, NULL)"),
            ],
        ),
        (
            // long statements with multi-byte characters around byte 100 of the INSERT text
            // (the dump loader quotes the first 100 bytes of a failing statement)
            "text",
            vec![
                q("CREATE TABLE tx (id INT, s VARCHAR)"),
                q("INSERT INTO tx VALUES (1, 'aaaaaaaaaaaaaaaaaaaaaaaaaaaaaaaaaaaaaaaaaaaaaaaaaaaaaaaaaaaaaaaaaaaaaaéééééééééééééééééééééééééééé€€€€😀')"),
                q("INSERT INTO tx VALUES (2, 'aaaaaaaaaaaaaaaaaaaaaaaaaaaaaaaaaaaaaaaaaaaaaaaaaaaaaaaaaaaaaaaaaaaaaaaéééééééééééééééééééééééééééé€€€€😀')"),
            ],
        ),
    ]
}

/// A `Read` that records (offset, length) of every read request the decoder issues.
struct Tracing<'a> {
    data: &'a [u8],
    pos: usize,
    log: Vec<(usize, usize)>,
}

impl Read for Tracing<'_> {
    fn read(&mut self, buf: &mut [u8]) -> std::io::Result<usize> {
        let n = buf.len().min(self.data.len() - self.pos);
        buf[..n].copy_from_slice(&self.data[self.pos..self.pos + n]);
        self.log.push((self.pos, buf.len()));
        self.pos += n;
        Ok(n)
    }
}

fn trace_binary(bytes: &[u8]) -> Option<(Vec<(usize, usize)>, (usize, usize))> {
    use vibesql_storage::persistence::binary as b;
    let mut r = Tracing { data: bytes, pos: 0, log: vec![] };
    b::read_header(&mut r).ok()?;
    let h = r.pos;
    let mut db = b::read_catalog(&mut r).ok()?;
    let c = r.pos;
    b::read_data(&mut r, &mut db).ok()?;
    Some((r.log, (h, c)))
}

fn make_seed(name: &str, fmt: Fmt, bytes: Vec<u8>) -> Seed {
    let mut s = Seed { name: name.to_string(), fmt, bytes, chars: vec![], fields: vec![], reads: vec![], sections: (0, 0) };
    if fmt == Fmt::Sql {
        if let Ok(t) = std::str::from_utf8(&s.bytes) {
            s.chars = t.char_indices().map(|(i, _)| i).collect();
        }
    }
    if fmt == Fmt::Bin {
        if let Some((reads, sec)) = trace_binary(&s.bytes) {
            let mut f: Vec<usize> = (0..sec.0.min(s.bytes.len())).collect();
            for &(o, l) in &reads {
                if (l == 4 || l == 8) && o >= sec.0 {
                    f.extend(o..(o + l).min(s.bytes.len()));
                }
            }
            f.sort();
            f.dedup();
            s.fields = f;
            s.reads = reads;
            s.sections = sec;
        }
    }
    s
}

/// Strip the wall-clock lines so that driver and workers agree on the seed bytes even if they
/// were generated independently (they are not: workers read the driver's files).
fn seed_dir() -> PathBuf {
    match std::env::var("PERSIST_SEED_DIR") {
        Ok(d) => PathBuf::from(d),
        Err(_) => {
            let d = PathBuf::from(format!("/tmp/persist-seeds-{}", std::process::id()));
            let _ = std::fs::create_dir_all(&d);
            std::env::set_var("PERSIST_SEED_DIR", &d);
            d
        }
    }
}

fn generate_seeds(dir: &PathBuf) -> Result<(), String> {
    for (name, steps) in seed_dbs() {
        let case = Case { sig: vec![], steps, fmts: vec![] };
        let mut ev = crate::roundtrip::Eval::default();
        let Some(db) = crate::roundtrip::build(&case, &mut ev) else {
            return Err(format!("seed database {}: {:?}", name, ev.machinery));
        };
        for f in ALL_FMT {
            let p = dir.join(format!("{}.{}", name, f.ext()));
            save(&db, f, &p).map_err(|e| format!("seed {} {}: {}", name, f.name(), e.text()))?;
        }
    }
    // crafted files
    for (name, ext, _how, bytes) in craft() {
        std::fs::write(dir.join(format!("crafted-{}.{}", name, ext)), bytes).map_err(|e| e.to_string())?;
    }
    std::fs::write(dir.join("READY"), b"ok").map_err(|e| e.to_string())
}

/// zstd frame of `n` zero bytes made of RLE blocks (RFC 8878: block type 1), no checksum.
fn zstd_rle_zeros(n: usize, prefix_raw: &[u8]) -> Vec<u8> {
    let mut f = vec![0x28, 0xb5, 0x2f, 0xfd];
    // frame header descriptor: FCS flag 0, single-segment 0, no checksum, no dict → 0x00; window descriptor follows
    f.push(0x00);
    // window descriptor: exponent 10 + (x<<3): windowLog = 10 + 17 = 27 → 128 MiB would be refused by
    // default limits; use exponent 10 (windowLog 20 = 1 MiB): 0x50
    f.push(0x50);
    let block = |f: &mut Vec<u8>, last: bool, ty: u32, size: u32| {
        let h = (size << 3) | (ty << 1) | (last as u32);
        f.extend_from_slice(&h.to_le_bytes()[..3]);
    };
    if !prefix_raw.is_empty() {
        block(&mut f, false, 0, prefix_raw.len() as u32);
        f.extend_from_slice(prefix_raw);
    }
    let mut left = n;
    while left > 0 {
        let sz = left.min(128 * 1024);
        left -= sz;
        block(&mut f, left == 0, 1, sz as u32);
        f.push(0);
    }
    f
}

fn craft() -> Vec<(String, String, How, Vec<u8>)> {
    let mut out: Vec<(String, String, How, Vec<u8>)> = vec![];
    // 1. a few KiB of zstd that inflate to 64 MiB of zeros (no VBSQL magic inside)
    out.push(("zstd-zeros-64MiB".into(), "vbsqlz".into(), How::Own(Fmt::Zst), zstd_rle_zeros(64 << 20, &[])));
    // 2. the same behind a valid VBSQL header + empty catalog prefix
    let mut hdr = b"VBSQL\x01\x00".to_vec();
    hdr.extend_from_slice(&[0u8; 9]);
    out.push(("zstd-header-then-zeros-64MiB".into(), "vbsqlz".into(), How::Own(Fmt::Zst), zstd_rle_zeros(64 << 20, &hdr)));
    // 3. SQL dump with deeply nested parentheses in a VALUES item
    for depth in [1_000usize, 100_000] {
        let mut s = String::from("CREATE TABLE t (a INT);\nINSERT INTO t VALUES (");
        s.push_str(&"(".repeat(depth));
        s.push('1');
        s.push_str(&")".repeat(depth));
        s.push_str(");\n");
        out.push((format!("sql-parens-{}", depth), "sql".into(), How::Own(Fmt::Sql), s.into_bytes()));
    }
    // 5. binary file with a table of zero columns and a row count of u64::MAX: every "row" consumes
    //    no bytes (file written by the engine for an empty zero-column table, count patched)
    {
        let mut db = Database::new();
        if db.create_table(vibesql_catalog::TableSchema::new("Z".into(), vec![])).is_ok() {
            let p = scratch_file("craft0", "vbsql");
            if save(&db, Fmt::Bin, &p).is_ok() {
                if let Ok(mut b) = std::fs::read(&p) {
                    let n = b.len();
                    if n > 8 && b[n - 8..].iter().all(|x| *x == 0) {
                        for x in &mut b[n - 8..] {
                            *x = 0xff;
                        }
                        out.push(("binary-zero-columns-rowcount-max".into(), "vbsql".into(), How::Own(Fmt::Bin), b));
                    }
                }
            }
            let _ = std::fs::remove_file(&p);
        }
    }
    // 4. binary file whose trigger WHEN condition nests NOT n levels deep: the wrapper bytes of one
    //    level are learned from the engine's own writer (files with 1 and 2 levels)
    let trig = |n: usize| -> Option<Vec<u8>> {
        let mut db = Database::new();
        vcore::exec::must(&mut db, "CREATE TABLE t (a INT)");
        let mut e = vibesql_ast::Expression::ColumnRef { table: None, column: "A".into() };
        for _ in 0..n {
            e = vibesql_ast::Expression::UnaryOp { op: vibesql_ast::UnaryOperator::Not, expr: Box::new(e) };
        }
        let t = vibesql_catalog::TriggerDefinition::new(
            "TR".into(),
            vibesql_ast::TriggerTiming::After,
            vibesql_ast::TriggerEvent::Insert,
            "T".into(),
            vibesql_ast::TriggerGranularity::Row,
            Some(Box::new(e)),
            vibesql_ast::TriggerAction::RawSql("SELECT 1".into()),
        );
        db.catalog.create_trigger(t).ok()?;
        let p = scratch_file("craft", "vbsql");
        save(&db, Fmt::Bin, &p).ok()?;
        let b = std::fs::read(&p).ok();
        let _ = std::fs::remove_file(&p);
        b
    };
    if let (Some(f1), Some(f2), Some(f3)) = (trig(1), trig(2), trig(3)) {
        let w = f2.len() - f1.len();
        let p = f1.iter().zip(f2.iter()).take_while(|(a, b)| a == b).count();
        if w > 0 && p >= w && f3.len() == f2.len() + w {
            let wrapper = f2[p - w..p].to_vec();
            let build = |n: usize| -> Vec<u8> {
                let mut v = f1[..p].to_vec();
                for _ in 0..n {
                    v.extend_from_slice(&wrapper);
                }
                v.extend_from_slice(&f1[p..]);
                v
            };
            if build(1) == f2 && build(2) == f3 {
                for depth in [1_000usize, 200_000] {
                    out.push((format!("binary-nested-when-{}", depth), "vbsql".into(), How::Own(Fmt::Bin), build(depth - 1)));
                }
            }
        }
    }
    out
}

impl C20 {
    pub fn new(tier: &str) -> Result<C20, String> {
        let dir = seed_dir();
        if !dir.join("READY").exists() {
            generate_seeds(&dir)?;
        }
        let quick = tier != "thorough";
        // (seed name, format, byte-level families?, char-level family?) in the tier
        let plan: Vec<(&str, Fmt, bool, bool)> = if quick {
            vec![
                ("small", Fmt::Bin, true, false),
                ("catalog", Fmt::Bin, true, false),
                ("small", Fmt::Zst, true, false),
                ("tiny", Fmt::Json, true, false),
                ("tiny", Fmt::Sql, true, false),
                ("text", Fmt::Sql, false, true),
            ]
        } else {
            let mut v = vec![];
            for n in ["small", "catalog", "types", "tiny", "text"] {
                for f in ALL_FMT {
                    v.push((n, f, true, f == Fmt::Sql));
                }
            }
            v
        };
        let mut seeds = vec![];
        let mut levels = vec![];
        for (n, f, bytelevel, charlevel) in plan {
            let p = dir.join(format!("{}.{}", n, f.ext()));
            let bytes = std::fs::read(&p).map_err(|e| format!("seed file {:?}: {}", p, e))?;
            seeds.push(make_seed(n, f, bytes));
            levels.push((bytelevel, charlevel));
        }
        let mut crafted = vec![];
        for (name, ext, how, _) in craft_index() {
            let p = dir.join(format!("crafted-{}.{}", name, ext));
            if let Ok(bytes) = std::fs::read(&p) {
                crafted.push((name, ext, how, bytes));
            }
        }
        let mut blocks = vec![];
        let mut at = 0u64;
        let mut push = |family: Family, seed: usize, count: u64, at: &mut u64| {
            if count > 0 {
                blocks.push(Block { family, seed, start: *at, count });
                *at += count;
            }
        };
        for (i, s) in seeds.iter().enumerate() {
            let n = s.bytes.len() as u64;
            if levels[i].0 {
                push(Family::Trunc, i, n, &mut at);
                push(Family::BitFlip, i, n * 8, &mut at);
                push(Family::Subst, i, n * 5, &mut at);
            }
            if levels[i].1 {
                // per char: delete, substitute × Σ, insert-before × Σ
                push(Family::CharEdit, i, s.chars.len() as u64 * (1 + 2 * SQL_SIGMA.len() as u64), &mut at);
            }
        }
        for (i, _) in seeds.iter().enumerate() {
            push(Family::CrossExt, i, EXTS.len() as u64, &mut at);
        }
        for (i, s) in seeds.iter().enumerate() {
            if s.fmt == Fmt::Bin && (s.name == "small" || !quick) {
                let n = s.bytes.len() as u64;
                push(Family::Recompress, i, n + n * 8, &mut at);
            }
        }
        let short_len = if quick { 2 } else { 3 };
        let n_short: u64 = (0..=short_len).map(|l| (SHORT_SIGMA.len() as u64).pow(l as u32)).sum();
        // each string under each extension through Database::load, and under .sql through load_sql_dump
        push(Family::Short, usize::MAX, n_short * (EXTS.len() as u64 + 1), &mut at);
        push(Family::Crafted, usize::MAX, crafted.len() as u64, &mut at);
        // the largest family last (a wall-clock cap, if it ever hits, cuts here and says so)
        if !quick {
            for (i, s) in seeds.iter().enumerate() {
                if s.fmt == Fmt::Bin && (s.name == "small" || s.name == "tiny") {
                    let k = s.fields.len() as u64;
                    push(Family::TwoEdit, i, k * (k.saturating_sub(1)) / 2 * 25, &mut at);
                }
            }
        }
        Ok(C20 { tier: tier.to_string(), seeds, crafted, blocks, total: at, short_len })
    }

    fn block_of(&self, idx: u64) -> &Block {
        let i = self.blocks.partition_point(|b| b.start + b.count <= idx);
        &self.blocks[i]
    }

    /// The case: (bytes, extension, loader, family, seed name, detail, region)
    pub fn case(&self, idx: u64) -> CaseFile {
        let b = self.block_of(idx);
        let k = idx - b.start;
        let mut cf = CaseFile { bytes: vec![], ext: String::new(), how: How::Auto, family: b.family, seed: String::new(), detail: String::new(), region: "-".into() };
        if b.seed != usize::MAX {
            let s = &self.seeds[b.seed];
            cf.seed = s.name.clone();
            cf.ext = s.fmt.ext().to_string();
            cf.how = How::Own(s.fmt);
            cf.bytes = s.bytes.clone();
            let n = s.bytes.len() as u64;
            match b.family {
                Family::Trunc => {
                    cf.bytes.truncate(k as usize);
                    cf.detail = format!("first {} of {} bytes", k, n);
                    cf.region = s.region(k as usize);
                }
                Family::BitFlip => {
                    let (p, bit) = ((k / 8) as usize, (k % 8) as u8);
                    cf.bytes[p] ^= 1 << bit;
                    cf.detail = format!("bit {} of byte {} flipped", bit, p);
                    cf.region = s.region(p);
                }
                Family::Subst => {
                    let (p, v) = ((k / 5) as usize, (k % 5) as usize);
                    let nb = if v < 4 { SUBST[v] } else { cf.bytes[p].wrapping_add(1) };
                    cf.bytes[p] = nb;
                    cf.detail = format!("byte {} set to {:#04x}", p, nb);
                    cf.region = s.region(p);
                }
                Family::TwoEdit => {
                    let (pair, vv) = (k / 25, (k % 25) as usize);
                    // pair index -> (i, j), i < j
                    let m = s.fields.len() as u64;
                    let mut i = 0u64;
                    let mut rest = pair;
                    while rest >= m - 1 - i {
                        rest -= m - 1 - i;
                        i += 1;
                    }
                    let j = i + 1 + rest;
                    let (p1, p2) = (s.fields[i as usize], s.fields[j as usize]);
                    let val = |orig: u8, v: usize| if v < 4 { SUBST[v] } else { orig.wrapping_add(1) };
                    cf.bytes[p1] = val(cf.bytes[p1], vv / 5);
                    cf.bytes[p2] = val(cf.bytes[p2], vv % 5);
                    cf.detail = format!("byte {} set to {:#04x} and byte {} set to {:#04x}", p1, cf.bytes[p1], p2, cf.bytes[p2]);
                    cf.region = format!("{}+{}", s.region(p1), s.region(p2));
                }
                Family::CrossExt => {
                    cf.ext = EXTS[k as usize].to_string();
                    cf.how = How::Auto;
                    cf.detail = format!("valid {} file under the extension .{}", s.fmt.name(), cf.ext);
                    cf.region = format!("as_{}", cf.ext);
                }
                Family::Recompress => {
                    if k < n {
                        cf.bytes.truncate(k as usize);
                        cf.detail = format!("first {} of {} payload bytes, re-compressed", k, n);
                        cf.region = s.region(k as usize);
                    } else {
                        let (p, bit) = (((k - n) / 8) as usize, ((k - n) % 8) as u8);
                        cf.bytes[p] ^= 1 << bit;
                        cf.detail = format!("bit {} of payload byte {} flipped, re-compressed", bit, p);
                        cf.region = s.region(p);
                    }
                    cf.bytes = zstd::encode_all(&cf.bytes[..], 3).unwrap_or_default();
                    cf.ext = "vbsqlz".into();
                    cf.how = How::Own(Fmt::Zst);
                }
                Family::CharEdit => {
                    let per = 1 + 2 * SQL_SIGMA.len() as u64;
                    let (ci, e) = ((k / per) as usize, (k % per) as usize);
                    let start = s.chars[ci];
                    let end = s.chars.get(ci + 1).copied().unwrap_or(s.bytes.len());
                    let mut v = s.bytes[..start].to_vec();
                    if e == 0 {
                        cf.detail = format!("char at byte {} deleted", start);
                    } else if e <= SQL_SIGMA.len() {
                        v.extend_from_slice(SQL_SIGMA[e - 1].as_bytes());
                        cf.detail = format!("char at byte {} replaced by {:?}", start, SQL_SIGMA[e - 1]);
                    } else {
                        v.extend_from_slice(SQL_SIGMA[e - 1 - SQL_SIGMA.len()].as_bytes());
                        v.extend_from_slice(&s.bytes[start..end]);
                        cf.detail = format!("{:?} inserted at byte {}", SQL_SIGMA[e - 1 - SQL_SIGMA.len()], start);
                    }
                    v.extend_from_slice(&s.bytes[end..]);
                    cf.bytes = v;
                    cf.region = s.region(start);
                }
                _ => {}
            }
            return cf;
        }
        match b.family {
            Family::Short => {
                let n_short: u64 = (0..=self.short_len).map(|l| (SHORT_SIGMA.len() as u64).pow(l as u32)).sum();
                let (e, mut si) = ((k / n_short) as usize, k % n_short);
                let mut len = 0usize;
                loop {
                    let c = (SHORT_SIGMA.len() as u64).pow(len as u32);
                    if si < c {
                        break;
                    }
                    si -= c;
                    len += 1;
                }
                let mut bytes = vec![];
                for _ in 0..len {
                    bytes.push(SHORT_SIGMA[(si % 16) as usize]);
                    si /= 16;
                }
                cf.bytes = bytes;
                if e < EXTS.len() {
                    cf.ext = EXTS[e].to_string();
                    cf.how = How::Auto;
                } else {
                    cf.ext = "sql".into();
                    cf.how = How::Own(Fmt::Sql);
                }
                cf.seed = "-".into();
                cf.detail = format!("{} bytes under .{}", len, cf.ext);
                cf.region = format!("len{}", len);
            }
            Family::Crafted => {
                let (name, ext, how, bytes) = &self.crafted[k as usize];
                cf.bytes = bytes.clone();
                cf.ext = ext.clone();
                cf.how = *how;
                cf.seed = name.clone();
                cf.detail = format!("crafted file {} ({} bytes)", name, bytes.len());
                cf.region = name.clone();
            }
            _ => {}
        }
        cf
    }
}

fn craft_index() -> Vec<(String, String, How, ())> {
    vec![
        ("zstd-zeros-64MiB".into(), "vbsqlz".into(), How::Own(Fmt::Zst), ()),
        ("zstd-header-then-zeros-64MiB".into(), "vbsqlz".into(), How::Own(Fmt::Zst), ()),
        ("sql-parens-1000".into(), "sql".into(), How::Own(Fmt::Sql), ()),
        ("sql-parens-100000".into(), "sql".into(), How::Own(Fmt::Sql), ()),
        ("binary-nested-when-1000".into(), "vbsql".into(), How::Own(Fmt::Bin), ()),
        ("binary-nested-when-200000".into(), "vbsql".into(), How::Own(Fmt::Bin), ()),
        ("binary-zero-columns-rowcount-max".into(), "vbsql".into(), How::Own(Fmt::Bin), ()),
    ]
}

impl Seed {
    /// Which part of the file an offset lies in (binary: by the decoder's own sections and read sizes).
    fn region(&self, p: usize) -> String {
        match self.fmt {
            Fmt::Bin => {
                let sec = if p < self.sections.0 {
                    "header"
                } else if p < self.sections.1 {
                    "catalog"
                } else {
                    "data"
                };
                let kind = match self.reads.iter().find(|(o, l)| p >= *o && p < o + l) {
                    Some((_, 4)) => "u32",
                    Some((_, 8)) => "u64",
                    Some((_, 1)) => "byte",
                    Some((_, 2)) => "i16",
                    Some(_) => "bytes",
                    None => "?",
                };
                format!("{}.{}", sec, kind)
            }
            Fmt::Zst => (if p < 16 { "frame_head" } else { "frame_body" }).to_string(),
            _ => "text".to_string(),
        }
    }
}

pub struct CaseFile {
    pub bytes: Vec<u8>,
    pub ext: String,
    pub how: How,
    pub family: Family,
    pub seed: String,
    pub detail: String,
    pub region: String,
}

impl CaseFile {
    fn sig(&self) -> Vec<(String, String)> {
        vec![
            ("loader".into(), self.how.name()),
            ("ext".into(), self.ext.clone()),
            ("family".into(), self.family.name().into()),
            ("seed".into(), self.seed.clone()),
            ("region".into(), self.region.clone()),
        ]
    }
    fn json(&self) -> Value {
        json!({
            "kind": "file", "ext": self.ext, "loader": self.how.name(), "family": self.family.name(), "seed": self.seed,
            "edit": self.detail, "hex": hex(&self.bytes),
        })
    }
}

fn hex(b: &[u8]) -> String {
    // long crafted files are regenerated by name at replay time, not stored
    if b.len() > 16384 {
        return String::new();
    }
    b.iter().map(|x| format!("{:02x}", x)).collect()
}

fn unhex(s: &str) -> Vec<u8> {
    (0..s.len() / 2).filter_map(|i| u8::from_str_radix(&s[2 * i..2 * i + 2], 16).ok()).collect()
}

#[derive(Debug, Clone, PartialEq)]
pub enum Fate {
    Ok,
    Err,
    Panic(String),
}

/// Load `bytes` as a file with extension `ext`; returns the fate and the largest single allocation
/// request made during the load.
pub fn load_bytes(bytes: &[u8], ext: &str, how: How) -> (Fate, usize) {
    let path = scratch_dir().join(format!("case.{}", ext));
    if std::fs::write(&path, bytes).is_err() {
        return (Fate::Panic("harness: cannot write the case file".into()), 0);
    }
    crate::alloc::reset();
    let r = match how {
        How::Own(f) => load(f, &path).map(|_| ()),
        How::Auto => load_auto(&path).map(|_| ()),
    };
    let m = crate::alloc::max_request();
    (
        match r {
            Ok(()) => Fate::Ok,
            Err(Fail::Err(_)) => Fate::Err,
            Err(Fail::Panic(m)) => Fate::Panic(m),
        },
        m,
    )
}

impl Space for C20 {
    fn total(&self) -> u64 {
        self.total
    }
    fn chunk(&self) -> u64 {
        if self.tier == "thorough" {
            20_000
        } else {
            3_000
        }
    }
    fn ranges(&self) -> Vec<(u64, u64)> {
        // chunks never straddle a block (so that expensive families get their own processes)
        let mut out = vec![];
        for b in &self.blocks {
            let chunk = match b.family {
                Family::Crafted => 1,
                Family::CharEdit => self.chunk() / 4,
                _ if self.seeds.get(b.seed).map(|s| s.fmt == Fmt::Sql).unwrap_or(false) => self.chunk() / 4,
                _ => self.chunk(),
            }
            .max(1);
            let mut a = b.start;
            while a < b.start + b.count {
                let e = (a + chunk).min(b.start + b.count);
                out.push((a, e));
                a = e;
            }
        }
        out
    }
    fn case_deadline(&self) -> Duration {
        Duration::from_secs(120)
    }
    fn run(&self, from: u64, to: u64, p: &Progress) -> ChunkOut {
        let mut out = ChunkOut::default();
        for idx in from..to {
            let cf = self.case(idx);
            p.begin(idx);
            let (fate, max_alloc) = load_bytes(&cf.bytes, &cf.ext, cf.how);
            out.evaluated += 1;
            let cap = ALLOC_FACTOR * cf.bytes.len() + ALLOC_SLACK;
            let fname = match &fate {
                Fate::Ok => "ok",
                Fate::Err => "err",
                Fate::Panic(_) => "panic",
            };
            out.count(&format!("{}.{}", cf.family.name(), fname), 1);
            out.count(&format!("loader.{}.{}", cf.how.name(), fname), 1);
            out.distinct.insert(format!("{}|{}|{}|{}|alloc_over_cap={}", cf.how.name(), cf.family.name(), cf.region, fname, max_alloc > cap));
            if let Fate::Panic(m) = &fate {
                let mut sig = cf.sig();
                sig.push(("fate".into(), "panic".into()));
                out.viol(idx, sig, format!("loading panics: {} [{}; {}]", vcore::util::trunc(m, 200), cf.seed, cf.detail), cf.json());
            }
            if max_alloc > cap {
                out.count("alloc_over_cap", 1);
                let mut sig = cf.sig();
                sig.push(("fate".into(), "allocation".into()));
                out.viol(
                    idx,
                    sig,
                    format!("a single allocation of {} bytes was requested while loading a {}-byte file (cap {}) [{}; {}]", max_alloc, cf.bytes.len(), cap, cf.seed, cf.detail),
                    cf.json(),
                );
            }
            if out.samples.len() < 3 && idx % 97 == 0 {
                out.samples.push(json!({"key": cf.family.name(), "case": cf.detail, "seed": cf.seed, "loader": cf.how.name(), "fate": fname, "max_single_allocation": max_alloc}));
            }
        }
        out
    }
    fn describe(&self, idx: u64) -> (Vec<(String, String)>, Value) {
        let cf = self.case(idx);
        (cf.sig(), cf.json())
    }
}

pub fn run(tier: &str) -> i32 {
    let mut rep = vcore::report::Report::new("C20", tier, "fault_enumeration");
    let sp = match C20::new(tier) {
        Ok(s) => s,
        Err(e) => {
            rep.machinery_error(format!("cannot prepare the seed files: {}", e));
            return rep.finish();
        }
    };
    // sanity: every seed loads, and within the allocation cap (otherwise the cap is wrong, not the engine)
    for s in &sp.seeds {
        let (fate, m) = load_bytes(&s.bytes, s.fmt.ext(), How::Own(s.fmt));
        let cap = ALLOC_FACTOR * s.bytes.len() + ALLOC_SLACK;
        println!("  seed {}.{}: {} bytes, valid load: {:?}, largest single allocation {} (cap {})", s.name, s.fmt.ext(), s.bytes.len(), fate, m, cap);
        if fate != Fate::Ok && s.fmt != Fmt::Sql {
            // (a dump the loader cannot read is C19's finding; its edits are still enumerated)
            rep.machinery_error(format!("seed {}.{} does not load: {:?}", s.name, s.fmt.ext(), fate));
        }
        if m > cap {
            rep.machinery_error(format!("the unmodified seed {}.{} already exceeds the allocation cap: {} > {}", s.name, s.fmt.ext(), m, cap));
        }
    }
    rep.set(
        "rule",
        json!("every enumerated file (all truncations, single-bit flips, byte substitutions {00,7F,80,FF,+1} of engine-written seeds of every format; two-edit combinations over header and decoder-read 4/8-byte fields; single-character edits of SQL dumps; all short byte strings under every extension; crafted inflating / deeply nested files) is loaded in a worker subprocess; violation = panic, process death, hang, or a single allocation request > 64 x file size + 1 MiB"),
    );
    rep.set(
        "seeds",
        json!(sp.seeds.iter().map(|s| json!({"name": s.name, "format": s.fmt.name(), "bytes": s.bytes.len(), "two_edit_positions": s.fields.len()})).collect::<Vec<_>>()),
    );
    rep.set("crafted", json!(sp.crafted.iter().map(|c| json!({"name": c.0, "bytes": c.3.len()})).collect::<Vec<_>>()));
    rep.set("families", json!(sp.blocks.iter().map(|b| json!({"family": b.family.name(), "seed": sp.seeds.get(b.seed).map(|s| format!("{}.{}", s.name, s.fmt.ext())), "cases": b.count})).collect::<Vec<_>>()));
    let budget = Duration::from_secs(if tier == "thorough" { 1500 } else { 120 });
    let all = crate::iso::drive(&sp, &mut rep, budget);
    println!("C20 {}: {} files loaded of {}; outcomes {:?}", tier, all.evaluated, sp.total, all.counters);
    let dir = seed_dir();
    let _ = std::fs::remove_dir_all(&dir);
    cleanup();
    rep.finish()
}

pub fn replay(case: &Value) -> i32 {
    let ext = case["ext"].as_str().unwrap_or("dat");
    let Some(how) = case["loader"].as_str().and_then(How::from_name) else {
        eprintln!("bad case: loader");
        return 2;
    };
    let mut bytes = unhex(case["hex"].as_str().unwrap_or(""));
    if case["hex"].as_str().unwrap_or("").is_empty() && case["family"] == "crafted" {
        let name = case["seed"].as_str().unwrap_or("");
        match craft().into_iter().find(|c| c.0 == name) {
            Some(c) => bytes = c.3,
            None => {
                eprintln!("unknown crafted file {}", name);
                return 2;
            }
        }
    }
    println!("file: {} bytes, extension .{}, loader {}, edit: {}", bytes.len(), ext, how.name(), case["edit"].as_str().unwrap_or(""));
    let (fate, m) = load_bytes(&bytes, ext, how);
    println!("fate: {:?}", fate);
    println!("largest single allocation request: {} (cap {})", m, ALLOC_FACTOR * bytes.len() + ALLOC_SLACK);
    cleanup();
    0
}
