//! Enumerated input spaces shared by C18 and C19 (and used as seed databases by C20):
//! single-column schemas × boundary values, multi-column schemas × index menu × DML histories.

use crate::common::{Step, V};

/// One supported column type: SQL text, a short class name (used in signatures) and its boundary
/// value set. "Supported" = the engine can store at least one non-NULL value in a column of this
/// type (BLOB, BIT, NAME, YEAR, ENUM … parse but accept no value: placeholders, not in the space).
pub struct ColType {
    pub sql: &'static str,
    pub class: &'static str,
    /// (value class used in signatures, how the value gets into column `a` of table `t`)
    pub values: Vec<(String, ValSrc)>,
}

#[derive(Clone, Debug)]
pub enum ValSrc {
    /// literal through an `InsertStmt` AST (same coercion path as parsed text)
    Lit(V),
    /// SQL expression text placed in `INSERT INTO t VALUES (<text>)`
    Sql(String),
    /// `INSERT INTO t VALUES (NULL)` then `UPDATE t SET a = <expr>` (the only way to store an
    /// UNSIGNED value: INSERT has no coercion into that type)
    Upd(String),
}

fn lit(class: &str, v: V) -> (String, ValSrc) {
    (class.to_string(), ValSrc::Lit(v))
}
fn sql(class: &str, s: &str) -> (String, ValSrc) {
    (class.to_string(), ValSrc::Sql(s.to_string()))
}

fn ints(min: i64, max: i64, extra: &[i64]) -> Vec<(String, ValSrc)> {
    let mut v = vec![lit("zero", V::Int(0)), lit("one", V::Int(1)), lit("neg", V::Int(-1)), lit("max", V::Int(max)), lit("min", V::Int(min))];
    for (i, e) in extra.iter().enumerate() {
        v.push(lit(&format!("big{}", i), V::Int(*e)));
    }
    v
}

fn f32s() -> Vec<(String, ValSrc)> {
    let f = |c: &str, x: f32| lit(c, V::f(x as f64));
    vec![
        f("zero", 0.0),
        f("negzero", -0.0),
        f("frac", 1.5),
        f("negfrac", -1.5),
        f("tenth", 0.1),
        f("max", f32::MAX),
        f("negmax", f32::MIN),
        f("minpos", f32::MIN_POSITIVE),
        f("subnormal", f32::from_bits(1)),
        f("int24", 16777216.0),
        f("nan", f32::NAN),
        f("inf", f32::INFINITY),
        f("neginf", f32::NEG_INFINITY),
    ]
}

fn f64s() -> Vec<(String, ValSrc)> {
    let f = |c: &str, x: f64| lit(c, V::f(x));
    vec![
        f("zero", 0.0),
        f("negzero", -0.0),
        f("frac", 1.5),
        f("negfrac", -1.5),
        f("tenth", 0.1),
        f("third", 1.0 / 3.0),
        f("sum", 0.1 + 0.2),
        f("max", f64::MAX),
        f("negmax", f64::MIN),
        f("minpos", f64::MIN_POSITIVE),
        f("subnormal", f64::from_bits(1)),
        f("maxsub", 2.2250738585072009e-308),
        f("int53", 9007199254740992.0),
        f("big", 1.0e22),
        f("big", 1.2345678901234567e300),
        f("small", 1.2345678901234567e-300),
        f("nan", f64::NAN),
        f("inf", f64::INFINITY),
        f("neginf", f64::NEG_INFINITY),
    ]
}

fn numerics() -> Vec<(String, ValSrc)> {
    let f = |c: &str, x: f64| lit(c, V::f(x));
    vec![
        f("zero", 0.0),
        f("frac", 12.34),
        f("negfrac", -12.34),
        f("max", 99999999.99),
        f("sum", 0.1 + 0.2),
        f("small", 1.0e-7),
        lit("int", V::Int(7)),
    ]
}

pub fn strings() -> Vec<(String, String)> {
    let s = |c: &str, x: &str| (c.to_string(), x.to_string());
    vec![
        s("empty", ""),
        s("plain", "a"),
        s("quote", "'"),
        s("dquote", "\""),
        s("backslash", "\\"),
        s("mixed", "a'b\"c\\d"),
        s("backslash_quote", "\\'"),
        s("quote_backslash", "'\\"),
        s("newline", "a\nb"),
        s("crlf", "a\r\nb"),
        s("tab", "a\tb"),
        s("comment", "x\n--y"),
        s("semicolon", "a;b"),
        s("spaces", " a "),
        s("unicode", "é€"),
        s("nonbmp", "😀𝄞"),
        s("nulword", "NULL"),
        s("nul", "a\u{0}b"),
        s("control", "\u{1}\u{7f}\u{85}\u{2028}"),
        s("bom", "\u{feff}x"),
    ]
}

pub fn col_types() -> Vec<ColType> {
    let strs = |max: usize| -> Vec<(String, ValSrc)> {
        strings().into_iter().filter(|(_, s)| s.chars().count() <= max).map(|(c, s)| lit(&c, V::Str(s))).collect()
    };
    let mut long = strs(usize::MAX);
    long.push(lit("long", V::Str("xy'z".repeat(300))));
    let dates = vec![
        lit("min", V::Date("0001-01-01".into())),
        lit("max", V::Date("9999-12-31".into())),
        lit("leap", V::Date("2024-02-29".into())),
        lit("epoch", V::Date("1970-01-01".into())),
        lit("year0", V::Date("0000-01-01".into())),
        lit("year5", V::Date("10000-01-01".into())),
    ];
    let times = vec![
        lit("min", V::Time("00:00:00".into())),
        lit("max", V::Time("23:59:59".into())),
        lit("maxfrac", V::Time("23:59:59.999999999".into())),
        lit("half", V::Time("12:00:00.5".into())),
        lit("nano", V::Time("00:00:00.000000001".into())),
    ];
    let tss = vec![
        lit("min", V::Ts("0001-01-01 00:00:00".into())),
        lit("max", V::Ts("9999-12-31 23:59:59.999999999".into())),
        lit("frac", V::Ts("2024-01-01 12:30:00.123".into())),
        lit("midnight", V::Ts("2024-02-29 00:00:00".into())),
    ];
    let upd = |c: &str, e: &str| (c.to_string(), ValSrc::Upd(e.to_string()));
    vec![
        ColType { sql: "SMALLINT", class: "smallint", values: ints(i16::MIN as i64, i16::MAX as i64, &[]) },
        ColType { sql: "INTEGER", class: "integer", values: ints(i64::MIN, i64::MAX, &[2147483648, 9007199254740993]) },
        ColType { sql: "BIGINT", class: "bigint", values: ints(i64::MIN, i64::MAX, &[2147483648, 9007199254740993, -9007199254740993]) },
        ColType {
            sql: "UNSIGNED",
            class: "unsigned",
            values: vec![
                lit("zero", V::UInt(0)),
                lit("one", V::Int(1)),
                lit("i64max", V::UInt(i64::MAX as u64)),
                lit("above_i64", V::UInt(i64::MAX as u64 + 1)),
                lit("max", V::UInt(u64::MAX)),
                // through UPDATE ... CAST (the path that existed before INSERT learned the coercion)
                upd("cast", "CAST(5 AS UNSIGNED)"),
            ],
        },
        ColType { sql: "FLOAT", class: "float", values: f32s() },
        ColType { sql: "FLOAT(24)", class: "float24", values: f32s() },
        ColType { sql: "REAL", class: "real", values: f32s() },
        ColType { sql: "DOUBLE PRECISION", class: "double", values: f64s() },
        ColType { sql: "NUMERIC(10,2)", class: "numeric", values: numerics() },
        ColType { sql: "DECIMAL(10,2)", class: "decimal", values: numerics() },
        ColType { sql: "NUMERIC", class: "numeric_default", values: numerics() },
        ColType { sql: "CHAR(3)", class: "char3", values: strs(3) },
        ColType { sql: "CHAR", class: "char1", values: strs(1) },
        ColType { sql: "VARCHAR(10)", class: "varchar10", values: strs(10) },
        ColType { sql: "VARCHAR", class: "varchar", values: long },
        ColType { sql: "BOOLEAN", class: "boolean", values: vec![lit("true", V::Bool(true)), lit("false", V::Bool(false))] },
        ColType { sql: "DATE", class: "date", values: dates },
        ColType { sql: "TIME", class: "time", values: times.clone() },
        ColType { sql: "TIME WITH TIME ZONE", class: "timetz", values: times },
        ColType { sql: "TIMESTAMP", class: "timestamp", values: tss.clone() },
        ColType { sql: "TIMESTAMP WITH TIME ZONE", class: "timestamptz", values: tss },
        ColType {
            sql: "INTERVAL YEAR",
            class: "interval_year",
            values: vec![sql("five", "INTERVAL '5' YEAR"), sql("zero", "INTERVAL '0' YEAR"), sql("big", "INTERVAL '9999' YEAR")],
        },
        ColType {
            sql: "INTERVAL YEAR TO MONTH",
            class: "interval_ym",
            values: vec![sql("ym", "INTERVAL '1-6' YEAR TO MONTH")],
        },
        ColType {
            sql: "INTERVAL DAY TO SECOND",
            class: "interval_ds",
            values: vec![sql("ds", "INTERVAL '5 12:30:45' DAY TO SECOND"), sql("frac", "INTERVAL '0 00:00:00.000001' DAY TO SECOND")],
        },
        ColType { sql: "INTERVAL HOUR", class: "interval_hour", values: vec![sql("h", "INTERVAL '24' HOUR")] },
    ]
}

/// Steps that build the single-column case: table `t(a <type> [NOT NULL])`, optionally an index on
/// `a`, then the value(s).
pub fn single_steps(ty: &ColType, not_null: bool, indexed: bool, vals: &[&ValSrc]) -> Vec<Step> {
    let mut steps = vec![Step::Sql(format!("CREATE TABLE t (a {}{})", ty.sql, if not_null { " NOT NULL" } else { "" }))];
    if indexed {
        steps.push(Step::Sql("CREATE INDEX ia ON t (a)".into()));
    }
    for v in vals {
        match v {
            ValSrc::Lit(x) => steps.push(Step::Ins("t".into(), vec![vec![x.clone()]])),
            ValSrc::Sql(e) => steps.push(Step::Sql(format!("INSERT INTO t VALUES ({})", e))),
            ValSrc::Upd(e) => {
                steps.push(Step::Sql("INSERT INTO t VALUES (NULL)".into()));
                steps.push(Step::Sql(format!("UPDATE t SET a = {} WHERE a IS NULL", e)));
            }
        }
    }
    steps
}

// ------------------------------------------------------------------------------------------------
// multi-column schemas
// ------------------------------------------------------------------------------------------------

pub struct Schema {
    pub name: &'static str,
    /// DDL + initial rows
    pub prelude: Vec<Step>,
    /// (config name, CREATE INDEX statements) — executed after the prelude, before the history
    pub index_menu: Vec<(&'static str, Vec<&'static str>)>,
    /// DML alphabet
    pub dml: Vec<Step>,
}

fn q(s: &str) -> Step {
    Step::Sql(s.to_string())
}

pub fn schemas() -> Vec<Schema> {
    vec![
        // PRIMARY KEY + a column of every index-relevant kind
        Schema {
            name: "pk",
            prelude: vec![
                q("CREATE TABLE p (id INT PRIMARY KEY, v INT, s VARCHAR(10), d DOUBLE PRECISION)"),
                q("INSERT INTO p VALUES (1, 10, 'abc', 1.5), (2, 20, 'abd', 2.5), (3, 10, 'b', NULL), (4, NULL, NULL, 0.0)"),
            ],
            index_menu: vec![
                ("none", vec![]),
                ("single", vec!["CREATE INDEX ix ON p (v)"]),
                ("multi", vec!["CREATE INDEX ix ON p (v, s)"]),
                ("desc", vec!["CREATE INDEX ix ON p (v DESC)"]),
                ("multi_desc", vec!["CREATE INDEX ix ON p (s DESC, v)"]),
                ("prefix", vec!["CREATE INDEX ix ON p (s(2))"]),
                ("unique", vec!["CREATE UNIQUE INDEX ix ON p (s)"]),
                ("float", vec!["CREATE INDEX ix ON p (d)"]),
                // (each column leads at most one index: which of two candidate indexes the planner picks is
                // HashMap-order dependent, and C02's defects must not surface here as nondeterminism)
                ("all", vec!["CREATE INDEX i1 ON p (v DESC, s)", "CREATE UNIQUE INDEX i2 ON p (d)", "CREATE INDEX i3 ON p (s(1))"]),
            ],
            dml: vec![
                q("INSERT INTO p VALUES (5, 30, 'c', 3.5)"),
                q("INSERT INTO p VALUES (6, 10, 'abe', 1.5)"),
                q("INSERT INTO p VALUES (2, 99, 'dup', 9.5)"),
                q("UPDATE p SET v = 15 WHERE id = 1"),
                q("UPDATE p SET s = 'abz' WHERE v = 10"),
                q("UPDATE p SET id = id + 10"),
                q("UPDATE p SET v = NULL WHERE id = 2"),
                q("DELETE FROM p WHERE id = 1"),
                q("DELETE FROM p WHERE v = 10"),
                q("DELETE FROM p"),
                // index definitions with a past: created on populated rows, dropped, re-created
                q("CREATE INDEX iz ON p (d DESC, id)"),
                q("DROP INDEX ix"),
            ],
        },
        // two tables, FOREIGN KEY + UNIQUE + CHECK
        Schema {
            name: "fk",
            prelude: vec![
                q("CREATE TABLE p (id INT PRIMARY KEY, u INT UNIQUE)"),
                q("CREATE TABLE c (id INT PRIMARY KEY, pid INT REFERENCES p (id), w VARCHAR(5), CHECK (w <> 'bad'))"),
                q("INSERT INTO p VALUES (1, 100), (2, 200), (3, NULL)"),
                q("INSERT INTO c VALUES (10, 1, 'x'), (11, 1, 'y'), (12, 2, NULL), (13, NULL, 'x')"),
            ],
            index_menu: vec![
                ("none", vec![]),
                ("single", vec!["CREATE INDEX ix ON c (pid)"]),
                ("multi", vec!["CREATE INDEX ix ON c (pid, w)"]),
                ("desc", vec!["CREATE INDEX ix ON c (pid DESC)"]),
                ("prefix", vec!["CREATE INDEX ix ON c (w(1))"]),
                ("unique", vec!["CREATE UNIQUE INDEX ix ON c (pid, w)"]),
                ("all", vec!["CREATE INDEX i1 ON c (pid)", "CREATE INDEX i2 ON p (u DESC)", "CREATE INDEX i3 ON c (w, pid DESC)"]),
            ],
            dml: vec![
                q("INSERT INTO c VALUES (14, 3, 'z')"),
                q("INSERT INTO c VALUES (15, 9, 'z')"),
                q("INSERT INTO c VALUES (16, 2, 'bad')"),
                q("INSERT INTO p VALUES (4, 100)"),
                q("INSERT INTO p VALUES (4, 400)"),
                q("UPDATE c SET pid = 2 WHERE pid = 1"),
                q("UPDATE c SET w = 'q' WHERE id = 12"),
                q("DELETE FROM c WHERE pid = 1"),
                q("DELETE FROM p WHERE id = 3"),
                q("DELETE FROM c"),
            ],
        },
        // no key, duplicates, NULLs, composite UNIQUE, CHECK, CHAR padding, REAL, DATE
        Schema {
            name: "nokey",
            prelude: vec![
                q("CREATE TABLE t (a INT NOT NULL, b CHAR(3), f REAL, dt DATE, n NUMERIC(10,2), UNIQUE (a, b), CHECK (a >= 0))"),
                q("INSERT INTO t VALUES (1, 'ab', 1.5, DATE '2024-01-31', 12.34), (1, 'b', 0.25, DATE '0001-01-01', 0.1), (2, NULL, NULL, NULL, NULL), (2, NULL, NULL, NULL, NULL)"),
            ],
            index_menu: vec![
                ("none", vec![]),
                ("single", vec!["CREATE INDEX ix ON t (b)"]),
                ("multi", vec!["CREATE INDEX ix ON t (dt, a)"]),
                ("desc", vec!["CREATE INDEX ix ON t (f DESC)"]),
                ("prefix", vec!["CREATE INDEX ix ON t (b(1))"]),
                ("unique", vec!["CREATE UNIQUE INDEX ix ON t (n)"]),
                ("all", vec!["CREATE INDEX i1 ON t (a)", "CREATE INDEX i2 ON t (b(2) DESC, a)", "CREATE INDEX i3 ON t (dt)", "CREATE UNIQUE INDEX i4 ON t (n DESC)"]),
            ],
            dml: vec![
                q("INSERT INTO t VALUES (3, 'abc', 2.5, DATE '9999-12-31', 99999999.99)"),
                q("INSERT INTO t VALUES (1, 'ab', 9.5, NULL, NULL)"),
                q("INSERT INTO t VALUES (2, NULL, NULL, NULL, NULL)"),
                q("UPDATE t SET b = 'zz' WHERE a = 1"),
                q("UPDATE t SET f = 0.5, dt = DATE '2024-02-29' WHERE b IS NULL"),
                q("UPDATE t SET a = a + 1"),
                q("DELETE FROM t WHERE a = 1"),
                q("DELETE FROM t WHERE b IS NULL"),
                q("DELETE FROM t"),
            ],
        },
        // a populated table in a second schema (rows can only be inserted while that schema is
        // the current one: INSERT INTO s1.t does not parse), current schema back to public
        Schema {
            name: "two_schemas",
            prelude: vec![
                q("CREATE SCHEMA s1"),
                q("CREATE TABLE u (a INT, b VARCHAR(5))"),
                q("INSERT INTO u VALUES (7, 'p'), (8, NULL)"),
                q("SET SCHEMA s1"),
                q("CREATE TABLE t (a INT, b VARCHAR(5))"),
                q("INSERT INTO t VALUES (1, 'x'), (2, 'y')"),
                q("SET SCHEMA \"public\""),
            ],
            index_menu: vec![("none", vec![]), ("single", vec!["CREATE INDEX ix ON u (a)"])],
            dml: vec![q("INSERT INTO u VALUES (9, 'q')"), q("DELETE FROM u WHERE a = 7"), q("UPDATE u SET a = a + 1")],
        },
        // delimited identifiers: mixed case, a space, a reserved word (such a table cannot be
        // filled through SQL text — INSERT INTO "MiXed" does not parse — so it stays empty)
        Schema {
            name: "quoted_names",
            prelude: vec![
                q("CREATE TABLE \"MiXed\" (\"lower col\" INT, \"select\" VARCHAR(5))"),
                q("CREATE TABLE w (a INT, \"b c\" INT)"),
                q("INSERT INTO w VALUES (1, 10), (2, 20)"),
            ],
            index_menu: vec![("none", vec![]), ("single", vec!["CREATE INDEX ix ON w (a)"])],
            dml: vec![q("INSERT INTO w VALUES (3, 30)"), q("DELETE FROM w WHERE a = 1"), q("UPDATE w SET \"b c\" = 0")],
        },
    ]
}

/// All histories (index vectors into `dml`) of length ≤ depth, shortest first.
pub fn histories(n: usize, depth: usize) -> Vec<Vec<usize>> {
    let mut out = vec![];
    for l in 0..=depth {
        out.extend(vcore::util::sequences(n, l));
    }
    out
}
