//! E6 — build a database from steps, save, load, compare observations (C18, C19).

use std::collections::{BTreeMap, BTreeSet};

use serde::{Deserialize, Serialize};
use serde_json::{json, Value};
use vibesql_storage::Database;

use crate::common::*;
use vcore::report::Report;

#[derive(Clone, Copy, Debug, PartialEq, Eq, Serialize, Deserialize)]
pub enum Kind {
    /// harness prelude: a failure is a machinery error
    Must,
    /// the value under test: if the engine rejects it there is no database to round-trip (skipped, counted)
    Value,
    /// history step: may fail (an error transition; the state it leaves is still round-tripped)
    Dml,
}

#[derive(Clone, Debug, Serialize, Deserialize)]
pub struct Case {
    /// signature features of the *input* (format and oracle component are appended per failure)
    pub sig: Vec<(String, String)>,
    pub steps: Vec<(Kind, Step)>,
    pub fmts: Vec<Fmt>,
}

#[derive(Clone, Copy, Debug, PartialEq, Eq)]
pub struct Oracle {
    pub indexes: bool,
    pub probes: bool,
}

pub const FULL: Oracle = Oracle { indexes: true, probes: true };
pub const CONTENTS: Oracle = Oracle { indexes: false, probes: false };

#[derive(Clone, Debug, Default, PartialEq)]
pub struct Eval {
    /// false: a `Value` step was rejected — nothing to round-trip
    pub built: bool,
    pub machinery: Option<String>,
    pub ok_steps: u64,
    pub err_steps: u64,
    pub rows: u64,
    pub user_indexes: u64,
    pub probes_run: u64,
    /// hash of the observation before the save (distinct database states)
    pub state: u64,
    /// probe batteries skipped because the loaded database equals (full canonical Debug) one
    /// loaded from another format of the same case
    pub probe_runs_shared: u64,
    /// (format, oracle component, what)
    pub fails: Vec<(Fmt, String, String)>,
    pub roundtrips: u64,
}

pub fn build(case: &Case, ev: &mut Eval) -> Option<Database> {
    let mut db = Database::new();
    for (k, s) in &case.steps {
        let o = run_step(&mut db, s);
        if o.is_ok() {
            ev.ok_steps += 1;
            continue;
        }
        match k {
            Kind::Must => {
                ev.machinery = Some(format!("prelude step failed: {} => {}", s.show(), o.brief()));
                return None;
            }
            Kind::Value => return None,
            Kind::Dml => {
                if o.is_panic() {
                    // not this property's business (C24), and the state may be half-written
                    return None;
                }
                ev.err_steps += 1;
            }
        }
    }
    ev.built = true;
    Some(db)
}

pub fn eval(case: &Case, oracle: Oracle) -> Eval {
    let timing = std::env::var("PERSIST_TIMING").is_ok();
    let t0 = std::time::Instant::now();
    let mut ev = Eval::default();
    let Some(db) = build(case, &mut ev) else { return ev };
    if timing {
        eprintln!("build {:?}", t0.elapsed());
    }
    let before = observe(&db);
    ev.rows = before.rows.len() as u64;
    ev.user_indexes = before.indexes.len() as u64;
    let text = format!("{:?}", before);
    ev.state = vcore::util::hash64(text.as_bytes());
    let ps = if oracle.probes { probes(&db) } else { vec![] };
    let pre: Vec<String> = ps.iter().map(|p| run_probe(&db, p)).collect();
    if timing {
        eprintln!("observe+{} probes {:?}", ps.len(), t0.elapsed());
    }
    // loaded databases that are equal as whole values answer every query alike
    let mut loaded_seen: Vec<(u128, Option<String>)> = vec![];
    for &f in &case.fmts {
        ev.roundtrips += 1;
        let path = scratch_file("rt", f.ext());
        if timing {
            eprintln!("before save {:?}", t0.elapsed());
        }
        if let Err(e) = save(&db, f, &path) {
            ev.fails.push((f, "save".into(), format!("saving fails with {}", e.text())));
            continue;
        }
        if timing {
            eprintln!("saved {:?}", t0.elapsed());
        }
        let loaded = load(f, &path);
        if timing {
            eprintln!("loaded {:?}", t0.elapsed());
        }
        let _ = std::fs::remove_file(&path);
        let db2 = match loaded {
            Ok(d) => d,
            Err(e) => {
                ev.fails.push((f, "load".into(), format!("the file the engine wrote cannot be loaded: {}", e.text())));
                continue;
            }
        };
        let after = observe(&db2);
        if let Some(d) = diff_lines(&before.schema, &after.schema) {
            ev.fails.push((f, "schema".into(), format!("tables/columns differ: {}", d)));
        }
        if let Some(d) = diff_lines(&before.rows, &after.rows) {
            ev.fails.push((f, "rows".into(), format!("rows differ: {}", d)));
        }
        if oracle.indexes {
            if let Some(d) = diff_lines(&before.indexes, &after.indexes) {
                ev.fails.push((f, "indexes".into(), format!("index definitions differ: {}", d)));
            }
        }
        if oracle.probes {
            let fp2 = vcore::fp::fingerprint(&db2);
            if let Some((_, verdict)) = loaded_seen.iter().find(|(k, _)| *k == fp2) {
                ev.probe_runs_shared += 1;
                if let Some(w) = verdict {
                    ev.fails.push((f, "probes".into(), w.clone()));
                }
                continue;
            }
            let mut verdict = None;
            for (p, x) in ps.iter().zip(pre.iter()) {
                ev.probes_run += 1;
                let y = run_probe(&db2, p);
                if *x != y {
                    let w = format!("query `{}`: before {} after {}", p.sql, vcore::util::trunc(x, 200), vcore::util::trunc(&y, 200));
                    ev.fails.push((f, "probes".into(), w.clone()));
                    verdict = Some(w);
                    break;
                }
            }
            loaded_seen.push((fp2, verdict));
        }
    }
    if timing {
        eprintln!("done {:?}", t0.elapsed());
    }
    ev
}

/// Drive a list of cases on all cores, fill the report. Returns the number of evaluated round trips.
pub fn drive(rep: &mut Report, cases: &[Case], oracle: Oracle, group: &str, merge_equal_states: bool) -> u64 {
    // pass 1: build every case, fingerprint the whole Database value; histories that end in equal
    // values (canonical Debug: rows in storage order, index contents, catalog) have equal futures,
    // so only the first (shortest) case of each value is saved and loaded
    let t0 = std::time::Instant::now();
    let fps = vcore::util::par_map(cases, |_, c| {
        let mut ev = Eval::default();
        let fp = build(c, &mut ev).map(|db| vcore::fp::fingerprint(&db));
        (fp, ev.ok_steps, ev.err_steps)
    });
    let (all_ok, all_err): (u64, u64) = fps.iter().fold((0, 0), |a, x| (a.0 + x.1, a.1 + x.2));
    let fps: Vec<Option<u128>> = fps.into_iter().map(|x| x.0).collect();
    let mut first: BTreeMap<u128, usize> = BTreeMap::new();
    let mut merged = 0u64;
    let reps: Vec<bool> = fps
        .iter()
        .enumerate()
        .map(|(i, f)| match f {
            Some(k) => {
                if merge_equal_states && first.contains_key(k) {
                    merged += 1;
                    false
                } else {
                    first.insert(*k, i);
                    true
                }
            }
            None => true,
        })
        .collect();
    let idx: Vec<usize> = (0..cases.len()).filter(|&i| reps[i]).collect();
    let t1 = t0.elapsed();
    let evals_rep = vcore::util::par_map(&idx, |_, &i| eval(&cases[i], oracle));
    println!("  [{}] {} cases built+fingerprinted in {:.1?}, {} saved/loaded/compared in {:.1?}", group, cases.len(), t1, idx.len(), t0.elapsed() - t1);
    let cases: Vec<&Case> = idx.iter().map(|&i| &cases[i]).collect();
    let evals = evals_rep;
    let mut counters: BTreeMap<String, u64> = BTreeMap::new();
    let mut states: BTreeSet<u64> = BTreeSet::new();
    let mut seen_sig: BTreeSet<String> = BTreeSet::new();
    let mut samples: Vec<Value> = vec![];
    let mut rejected: Vec<String> = vec![];
    let mut add = |k: &str, n: u64| *counters.entry(k.to_string()).or_insert(0) += n;
    add("histories_merged_into_an_equal_database_value", merged);
    // over all enumerated cases (a rejected statement leaves the value unchanged, so such histories
    // are merged into their prefix and never appear among the representatives)
    add("all_cases_steps_ok", all_ok);
    add("all_cases_steps_rejected", all_err);
    for (c, e) in cases.iter().zip(evals.iter()) {
        if let Some(m) = &e.machinery {
            rep.machinery_error(format!("{}: {}", group, m));
            continue;
        }
        add("cases", 1);
        if !e.built {
            add("cases_value_rejected_by_engine", 1);
            let label = c.sig.iter().map(|(k, v)| format!("{}={}", k, v)).collect::<Vec<_>>().join(";");
            if !rejected.contains(&label) {
                rejected.push(label);
            }
            continue;
        }
        add("cases_round_tripped", 1);
        add("round_trips", e.roundtrips);
        add("steps_ok", e.ok_steps);
        add("steps_err", e.err_steps);
        add("probes_compared", e.probes_run);
        add("probe_batteries_shared_between_equal_loaded_databases", e.probe_runs_shared);
        if e.rows == 0 {
            add("cases_with_empty_tables", 1);
        }
        if e.user_indexes > 0 && e.rows > 0 {
            add("cases_with_populated_user_index", 1);
        }
        states.insert(e.state);
        if e.fails.is_empty() {
            add("cases_all_formats_same", 1);
            if samples.len() < 4 && e.rows > 0 {
                samples.push(json!({"group": group, "steps": c.steps.iter().map(|(_, s)| s.show()).collect::<Vec<_>>(), "outcome": "same in every format"}));
            }
        }
        for (f, aspect, what) in &e.fails {
            add(&format!("differs.{}.{}", f.name(), aspect), 1);
            let mut sig: Vec<(&str, String)> = c.sig.iter().map(|(k, v)| (k.as_str(), v.clone())).collect();
            sig.push(("format", f.name().to_string()));
            sig.push(("aspect", aspect.clone()));
            let key = format!("{:?}", sig);
            let case_json = json!({
                "steps": c.steps,
                "format": f.name(),
                "shown": c.steps.iter().map(|(_, s)| s.show()).collect::<Vec<_>>(),
            });
            if seen_sig.insert(key) {
                // first witness of this signature: reproduce twice from scratch (R3)
                let one = Case { sig: c.sig.clone(), steps: c.steps.clone(), fmts: vec![*f] };
                let again: Vec<Vec<(Fmt, String, String)>> = (0..2).map(|_| eval(&one, oracle).fails).collect();
                let mine: Vec<&(Fmt, String, String)> = e.fails.iter().filter(|x| x.0 == *f).collect();
                let classes = |v: &Vec<&(Fmt, String, String)>| v.iter().map(|x| x.1.clone()).collect::<Vec<_>>();
                for a in &again {
                    let ar: Vec<&(Fmt, String, String)> = a.iter().collect();
                    if classes(&ar) != classes(&mine) {
                        rep.machinery_error(format!(
                            "{}: case does not reproduce ({:?} vs {:?}): {:?}",
                            group,
                            classes(&mine),
                            classes(&ar),
                            c.steps.iter().map(|(_, s)| s.show()).collect::<Vec<_>>()
                        ));
                    }
                }
            }
            rep.violation(&sig, what.clone(), case_json);
        }
    }
    let rt = counters.get("round_trips").copied().unwrap_or(0);
    rep.set(&format!("{}.counters", group), json!(counters));
    rep.set(&format!("{}.distinct_states", group), json!(states.len()));
    rep.set(&format!("{}.samples", group), json!(samples));
    rep.set(&format!("{}.inputs_the_engine_rejects", group), json!(rejected));
    rt
}

/// Replay of a recorded case: prints steps, both observations' differences.
pub fn replay(case: &Value, oracle: Oracle) -> i32 {
    let steps: Vec<(Kind, Step)> = match serde_json::from_value(case["steps"].clone()) {
        Ok(s) => s,
        Err(e) => {
            eprintln!("bad case: {}", e);
            return 2;
        }
    };
    let Some(f) = case["format"].as_str().and_then(Fmt::from_name) else {
        eprintln!("bad case: format");
        return 2;
    };
    let mut db = Database::new();
    for (_, s) in &steps {
        let o = run_step(&mut db, s);
        println!("{}\n   => {}", s.show(), o.brief());
    }
    let c = Case { sig: vec![], steps, fmts: vec![f] };
    let path = scratch_file("replay", f.ext());
    if save(&db, f, &path).is_ok() && matches!(f, Fmt::Sql | Fmt::Json) {
        println!("-- file written by the engine ({}):\n{}", f.name(), std::fs::read_to_string(&path).unwrap_or_default());
    }
    let e = eval(&c, oracle);
    if e.fails.is_empty() {
        println!("round trip through {}: identical observation", f.name());
    }
    for (f, aspect, what) in &e.fails {
        println!("round trip through {}: {} — {}", f.name(), aspect, what);
    }
    cleanup();
    0
}
