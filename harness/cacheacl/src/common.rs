//! Helpers shared by C25 and C26.

/// Greedy one-at-a-time minimisation: drop every step (except the last, which is the observed
/// one) whose removal keeps `fails` true; repeat until no single removal is possible.
pub fn minimise<F: Fn(&[String]) -> bool>(hist: &[String], fails: F) -> Vec<String> {
    let mut cur: Vec<String> = hist.to_vec();
    loop {
        let mut changed = false;
        let mut i = 0;
        while i + 1 < cur.len() {
            let mut cand = cur.clone();
            cand.remove(i);
            if fails(&cand) {
                cur = cand;
                changed = true;
            } else {
                i += 1;
            }
        }
        if !changed {
            return cur;
        }
    }
}

/// Run `f` on a fresh OS thread (fresh thread-locals) and return its result.
pub fn on_fresh_thread<R: Send, F: FnOnce() -> R + Send>(f: F) -> R {
    std::thread::scope(|s| {
        std::thread::Builder::new()
            .stack_size(8 << 20)
            .spawn_scoped(s, f)
            .expect("cannot spawn thread")
            .join()
            .expect("case thread panicked outside catch_unwind")
    })
}
