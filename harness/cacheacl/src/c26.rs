//! C26 — access control is complete and follows the GRANT/REVOKE history (DESIGN §5 C26).
//!
//! Space: security enabled; all histories (BFS with state merging + a stateless guard pass) of
//! CREATE ROLE / GRANT / REVOKE statements executed as ADMIN over roles R1, R2, tables t, u and a
//! view v; in every reached state every statement of a menu (one per access path that can read or
//! write a table) is executed under role R1 on a private clone.
//!
//! Oracle: a privilege-matrix model driven by the same history (a GRANT/REVOKE takes effect in the
//! model iff the engine accepted it). For every (state, statement):
//!   * the statement succeeded  =>  the model holds every privilege it needs (SELECT on every
//!     table whose rows it reads — for a view: on the tables behind it —, INSERT/UPDATE/DELETE on
//!     its target);
//!   * the model lacks one of them  =>  the statement failed **and** tables + catalog are unchanged.
//! The converse (a privileged statement is wrongly denied) is not demanded.

use std::collections::{BTreeMap, BTreeSet};
use std::sync::atomic::{AtomicU64, Ordering};
use std::sync::Mutex;

use serde_json::{json, Value};
use vibesql_storage::Database;

use vcore::exec::{self, Out};
use vcore::histmc::{self, Caps, Node, Spec};
use vcore::obs;
use vcore::report::Report;

pub const PRELUDE: &[&str] = &[
    "CREATE TABLE t (a INT, b INT)",
    "CREATE TABLE u (a INT, b INT)",
    "CREATE INDEX iu ON u (a)",
    "CREATE VIEW v AS SELECT a, b FROM u",
    "INSERT INTO t VALUES (1, 10), (2, 20)",
    "INSERT INTO u VALUES (1, 100), (3, 300)",
    "CREATE TABLE w (a INT PRIMARY KEY, b INT)",
    "INSERT INTO w VALUES (1, 10)",
    "CREATE ROLE R1",
];

#[derive(Clone, Copy, Debug, PartialEq, Eq, PartialOrd, Ord)]
pub enum P {
    Select,
    Insert,
    Update,
    Delete,
}

impl P {
    fn name(self) -> &'static str {
        match self {
            P::Select => "SELECT",
            P::Insert => "INSERT",
            P::Update => "UPDATE",
            P::Delete => "DELETE",
        }
    }
}

const ALL: &[P] = &[P::Select, P::Insert, P::Update, P::Delete];

/// What an accepted admin statement does to the privilege matrix.
#[derive(Clone, Debug)]
pub enum Effect {
    /// grant `privs` on `table` (`cols` = column-level grant) to `role`
    Grant { role: &'static str, table: &'static str, privs: &'static [P], cols: Option<&'static [&'static str]> },
    /// revoke table-level `privs`
    Revoke { role: &'static str, table: &'static str, privs: &'static [P] },
    /// the privilege itself stays (REVOKE GRANT OPTION FOR, column-level REVOKE: over-approximated)
    Nothing,
}

pub struct AdminOp {
    pub sql: String,
    pub effect: Effect,
}

/// Sub-alphabet for the deeper focused searches: every statement that names `role` and `table`.
pub fn focused(alpha: Vec<AdminOp>, role: &str, table: &str) -> Vec<AdminOp> {
    let on = format!(" ON {} ", table);
    alpha.into_iter().filter(|o| o.sql.contains(&on) && o.sql.split_whitespace().any(|w| w.trim_end_matches(',') == role)).collect()
}

pub fn admin_alphabet(thorough: bool) -> Vec<AdminOp> {
    let mut a = vec![];
    a.push(AdminOp { sql: "CREATE ROLE R2".into(), effect: Effect::Nothing });
    let one: [(&str, &'static [P]); 5] = [
        ("SELECT", &[P::Select]),
        ("INSERT", &[P::Insert]),
        ("UPDATE", &[P::Update]),
        ("DELETE", &[P::Delete]),
        ("ALL PRIVILEGES", ALL),
    ];
    for role in ["R1", "R2"] {
        for table in ["t", "u"] {
            for (name, privs) in one.iter() {
                // R2 only needs enough to show that grants to another role do not leak
                if role == "R2" && !thorough && !matches!(*name, "SELECT" | "ALL PRIVILEGES") {
                    continue;
                }
                a.push(AdminOp { sql: format!("GRANT {} ON {} TO {}", name, table, role), effect: Effect::Grant { role, table, privs, cols: None } });
                a.push(AdminOp { sql: format!("REVOKE {} ON {} FROM {}", name, table, role), effect: Effect::Revoke { role, table, privs } });
            }
        }
    }
    // the keyed table w (conflict-resolving INSERT forms): R1 only
    for (name, privs) in one.iter() {
        if *name == "SELECT" {
            continue;
        }
        a.push(AdminOp { sql: format!("GRANT {} ON w TO R1", name), effect: Effect::Grant { role: "R1", table: "w", privs, cols: None } });
        if thorough || *name == "ALL PRIVILEGES" {
            a.push(AdminOp { sql: format!("REVOKE {} ON w FROM R1", name), effect: Effect::Revoke { role: "R1", table: "w", privs } });
        }
    }
    // grant option / its revocation (the privilege itself stays), cascade
    a.push(AdminOp { sql: "GRANT SELECT ON u TO R1 WITH GRANT OPTION".into(), effect: Effect::Grant { role: "R1", table: "u", privs: &[P::Select], cols: None } });
    a.push(AdminOp { sql: "REVOKE GRANT OPTION FOR SELECT ON u FROM R1".into(), effect: Effect::Nothing });
    a.push(AdminOp { sql: "REVOKE SELECT ON u FROM R1 CASCADE".into(), effect: Effect::Revoke { role: "R1", table: "u", privs: &[P::Select] } });
    // the view (the engine has no view privileges: whatever it answers, nothing on u is granted)
    a.push(AdminOp { sql: "GRANT SELECT ON v TO R1".into(), effect: Effect::Nothing });
    // column-level grants
    a.push(AdminOp { sql: "GRANT SELECT (a) ON u TO R1".into(), effect: Effect::Grant { role: "R1", table: "u", privs: &[P::Select], cols: Some(&["a"]) } });
    a.push(AdminOp { sql: "GRANT UPDATE (a) ON t TO R1".into(), effect: Effect::Grant { role: "R1", table: "t", privs: &[P::Update], cols: Some(&["a"]) } });
    if thorough {
        a.push(AdminOp { sql: "REVOKE SELECT (a) ON u FROM R1".into(), effect: Effect::Nothing });
        a.push(AdminOp { sql: "GRANT SELECT ON t, u TO R1".into(), effect: Effect::Nothing }); // not valid SQL here: must not grant anything if rejected
        a.push(AdminOp { sql: "GRANT SELECT ON u TO R1, R2".into(), effect: Effect::Grant { role: "R1", table: "u", privs: &[P::Select], cols: None } });
    }
    a
}

/// One needed privilege: `p` on `table`, for the columns `cols` the statement touches there
/// (empty = no particular column, e.g. COUNT(*): a privilege on any column suffices).
#[derive(Clone, Copy)]
pub struct Need {
    pub p: P,
    pub table: &'static str,
    pub cols: &'static [&'static str],
}

const AB: &[&str] = &["a", "b"];
const A_: &[&str] = &["a"];
const B_: &[&str] = &["b"];
const ANY: &[&str] = &[];

const fn sel(table: &'static str, cols: &'static [&'static str]) -> Need {
    Need { p: P::Select, table, cols }
}
const fn ins(table: &'static str) -> Need {
    Need { p: P::Insert, table, cols: AB }
}
const fn upd(table: &'static str, cols: &'static [&'static str]) -> Need {
    Need { p: P::Update, table, cols }
}
const fn del(table: &'static str) -> Need {
    Need { p: P::Delete, table, cols: AB }
}

/// (label, sql, needs). One element per access path through which a statement can reach a table.
pub const MENU: &[(&str, &str, &[Need])] = &[
    // ---- reading u
    ("scan", "SELECT a, b FROM u", &[sel("u", AB)]),
    ("scan-one-column-a", "SELECT a FROM u", &[sel("u", A_)]),
    ("scan-one-column-b", "SELECT b FROM u", &[sel("u", B_)]),
    ("star", "SELECT * FROM u", &[sel("u", AB)]),
    ("index-point", "SELECT b FROM u WHERE a = 1", &[sel("u", AB)]),
    ("index-range-ordered", "SELECT b FROM u WHERE a > 0 ORDER BY a", &[sel("u", AB)]),
    ("order-by-index", "SELECT a FROM u ORDER BY a", &[sel("u", A_)]),
    ("count-star", "SELECT COUNT(*) FROM u", &[sel("u", ANY)]),
    ("count-star-where", "SELECT COUNT(*) FROM u WHERE b > 0", &[sel("u", AB)]),
    ("aggregates", "SELECT SUM(b), MIN(a) FROM u", &[sel("u", AB)]),
    ("aggregate-where", "SELECT SUM(b) FROM u WHERE a > 0", &[sel("u", AB)]),
    ("group-by", "SELECT a, COUNT(*) FROM u GROUP BY a", &[sel("u", A_)]),
    ("distinct", "SELECT DISTINCT b FROM u", &[sel("u", B_)]),
    ("limit", "SELECT a FROM u LIMIT 1", &[sel("u", A_)]),
    ("alias", "SELECT z.a FROM u AS z", &[sel("u", A_)]),
    ("qualified-name", "SELECT a FROM \"public\".u", &[sel("u", A_)]),
    ("derived-table", "SELECT x.a FROM (SELECT a FROM u) AS x", &[sel("u", A_)]),
    ("cte", "WITH w AS (SELECT a FROM u) SELECT a FROM w", &[sel("u", A_)]),
    ("view", "SELECT a FROM v", &[sel("u", AB)]),
    ("view-aggregate", "SELECT COUNT(*) FROM v", &[sel("u", AB)]),
    ("no-from-scalar-subquery", "SELECT (SELECT COUNT(*) FROM u)", &[sel("u", ANY)]),
    ("no-from-exists", "SELECT EXISTS (SELECT 1 FROM u WHERE a = 1)", &[sel("u", A_)]),
    // ---- reading t and u
    ("join", "SELECT t.a, u.b FROM t JOIN u ON t.a = u.a", &[sel("t", A_), sel("u", AB)]),
    ("comma-join", "SELECT t.a FROM t, u WHERE t.a = u.a", &[sel("t", A_), sel("u", A_)]),
    ("left-join", "SELECT t.a, u.b FROM t LEFT JOIN u ON t.a = u.a", &[sel("t", A_), sel("u", AB)]),
    ("cross-join", "SELECT t.a FROM t CROSS JOIN u", &[sel("t", A_), sel("u", ANY)]),
    ("in-subquery", "SELECT a FROM t WHERE a IN (SELECT a FROM u)", &[sel("t", A_), sel("u", A_)]),
    ("in-subquery-under-or", "SELECT a FROM t WHERE a = 0 OR a IN (SELECT a FROM u)", &[sel("t", A_), sel("u", A_)]),
    ("in-subquery-select-list", "SELECT a IN (SELECT a FROM u) FROM t", &[sel("t", A_), sel("u", A_)]),
    ("in-subquery-where", "SELECT a FROM t WHERE a IN (SELECT a FROM u WHERE a > 0)", &[sel("t", A_), sel("u", A_)]),
    ("in-subquery-case", "SELECT CASE WHEN a IN (SELECT a FROM u) THEN 1 ELSE 0 END FROM t", &[sel("t", A_), sel("u", A_)]),
    ("in-subquery-having", "SELECT a FROM t GROUP BY a HAVING a IN (SELECT a FROM u)", &[sel("t", A_), sel("u", A_)]),
    ("in-subquery-join-on", "SELECT t.a FROM t JOIN t AS t2 ON t.a = t2.a AND t.a IN (SELECT a FROM u)", &[sel("t", A_), sel("u", A_)]),
    ("in-subquery-join-where-or", "SELECT t.a FROM t, t AS t2 WHERE t.a = t2.a AND (t2.b = 0 OR t.a IN (SELECT a FROM u))", &[sel("t", AB), sel("u", A_)]),
    ("in-subquery-no-from", "SELECT 1 IN (SELECT a FROM u)", &[sel("u", A_)]),
    ("in-subquery-order-by", "SELECT a FROM t ORDER BY a IN (SELECT a FROM u)", &[sel("t", A_), sel("u", A_)]),
    ("not-in-subquery-order-by", "SELECT a FROM t ORDER BY a NOT IN (SELECT a FROM u WHERE a > 0), a", &[sel("t", A_), sel("u", A_)]),
    ("not-in-subquery", "SELECT a FROM t WHERE a NOT IN (SELECT a FROM u)", &[sel("t", A_), sel("u", A_)]),
    ("exists", "SELECT a FROM t WHERE EXISTS (SELECT 1 FROM u WHERE u.a = t.a)", &[sel("t", A_), sel("u", A_)]),
    ("not-exists", "SELECT a FROM t WHERE NOT EXISTS (SELECT 1 FROM u WHERE u.a = t.a)", &[sel("t", A_), sel("u", A_)]),
    ("scalar-subquery", "SELECT a, (SELECT MAX(b) FROM u) FROM t", &[sel("t", A_), sel("u", B_)]),
    ("scalar-count-subquery", "SELECT a, (SELECT COUNT(*) FROM u) FROM t", &[sel("t", A_), sel("u", ANY)]),
    ("scalar-subquery-where", "SELECT a FROM t WHERE b > (SELECT MAX(b) FROM u)", &[sel("t", AB), sel("u", B_)]),
    ("quantified", "SELECT a FROM t WHERE a > ALL (SELECT a FROM u)", &[sel("t", A_), sel("u", A_)]),
    ("union-right", "SELECT a FROM t UNION SELECT a FROM u", &[sel("t", A_), sel("u", A_)]),
    ("union-left", "SELECT a FROM u UNION ALL SELECT a FROM t", &[sel("t", A_), sel("u", A_)]),
    ("except-right", "SELECT a FROM t EXCEPT SELECT a FROM u", &[sel("t", A_), sel("u", A_)]),
    ("having-subquery", "SELECT a FROM t GROUP BY a HAVING a > (SELECT MIN(a) FROM u)", &[sel("t", A_), sel("u", A_)]),
    ("join-using", "SELECT t.b FROM t JOIN u USING (a)", &[sel("t", AB), sel("u", A_)]),
    ("natural-join", "SELECT t.a FROM t NATURAL JOIN u", &[sel("t", AB), sel("u", AB)]),
    ("right-join", "SELECT u.b FROM t RIGHT JOIN u ON t.a = u.a", &[sel("t", A_), sel("u", AB)]),
    ("qualified-star-join", "SELECT u.* FROM t, u", &[sel("t", ANY), sel("u", AB)]),
    ("any-subquery", "SELECT a FROM t WHERE a = ANY (SELECT a FROM u)", &[sel("t", A_), sel("u", A_)]),
    ("correlated-scalar", "SELECT a, (SELECT b FROM u WHERE u.a = t.a) FROM t", &[sel("t", A_), sel("u", AB)]),
    ("window-over-u", "SELECT a, SUM(b) OVER () FROM u", &[sel("u", AB)]),
    ("derived-join", "SELECT t.a FROM t JOIN (SELECT a FROM u) AS x ON x.a = t.a", &[sel("t", A_), sel("u", A_)]),
    ("cte-in-subquery", "WITH w AS (SELECT a FROM u) SELECT a FROM t WHERE a IN (SELECT a FROM w)", &[sel("t", A_), sel("u", A_)]),
    ("union-in-derived", "SELECT x.a FROM (SELECT a FROM t UNION ALL SELECT a FROM u) AS x", &[sel("t", A_), sel("u", A_)]),
    // ---- writing t (reading u)
    ("insert-values", "INSERT INTO t VALUES (7, 70)", &[ins("t")]),
    ("insert-values-multi", "INSERT INTO t VALUES (7, 70), (8, 80)", &[ins("t")]),
    ("insert-select-bulk", "INSERT INTO t SELECT * FROM u", &[ins("t"), sel("u", AB)]),
    ("insert-select-column-list", "INSERT INTO t (a, b) SELECT a, b FROM u", &[ins("t"), sel("u", AB)]),
    ("insert-select-where", "INSERT INTO t SELECT * FROM u WHERE a > 0", &[ins("t"), sel("u", AB)]),
    ("insert-values-subquery", "INSERT INTO t VALUES ((SELECT MAX(a) FROM u), 0)", &[ins("t"), sel("u", A_)]),
    ("update", "UPDATE t SET b = 0 WHERE a = 1", &[upd("t", B_)]),
    ("update-all", "UPDATE t SET b = b + 1", &[upd("t", B_)]),
    ("update-where-subquery", "UPDATE t SET b = 0 WHERE a IN (SELECT a FROM u)", &[upd("t", B_), sel("u", A_)]),
    ("update-set-subquery", "UPDATE t SET b = (SELECT MAX(b) FROM u)", &[upd("t", B_), sel("u", B_)]),
    ("update-where-exists", "UPDATE t SET b = 0 WHERE EXISTS (SELECT 1 FROM u WHERE u.a = t.a)", &[upd("t", B_), sel("u", A_)]),
    ("update-set-correlated", "UPDATE t SET b = (SELECT b FROM u WHERE u.a = t.a)", &[upd("t", B_), sel("u", AB)]),
    ("delete-where-scalar", "DELETE FROM t WHERE (SELECT COUNT(*) FROM u) > 0", &[del("t"), sel("u", ANY)]),
    ("insert-select-union", "INSERT INTO t SELECT a, b FROM t UNION ALL SELECT a, b FROM u", &[ins("t"), sel("t", AB), sel("u", AB)]),
    ("insert-select-partial-columns", "INSERT INTO t (a) SELECT a FROM u", &[ins("t"), sel("u", A_)]),
    ("insert-select-join", "INSERT INTO t SELECT t.a, u.b FROM t JOIN u ON t.a = u.a", &[ins("t"), sel("t", A_), sel("u", AB)]),
    ("update-set-in-subquery", "UPDATE t SET b = CASE WHEN a IN (SELECT a FROM u) THEN 1 ELSE 0 END", &[upd("t", B_), sel("u", A_)]),
    ("delete", "DELETE FROM t WHERE a = 1", &[del("t")]),
    ("delete-all", "DELETE FROM t", &[del("t")]),
    ("delete-where-subquery", "DELETE FROM t WHERE a IN (SELECT a FROM u)", &[del("t"), sel("u", A_)]),
    ("delete-where-exists", "DELETE FROM t WHERE EXISTS (SELECT 1 FROM u WHERE u.a = t.a)", &[del("t"), sel("u", A_)]),
    ("truncate", "TRUNCATE TABLE t", &[del("t")]),
    // ---- conflict-resolving INSERT forms on the keyed table w = {(1, 10)}
    ("insert-keyed", "INSERT INTO w VALUES (3, 0)", &[ins("w")]),
    ("upsert-updates-existing-row", "INSERT INTO w VALUES (1, 0) ON DUPLICATE KEY UPDATE b = 5", &[ins("w"), upd("w", B_)]),
    ("upsert-inserts-new-row", "INSERT INTO w VALUES (2, 0) ON DUPLICATE KEY UPDATE b = 5", &[ins("w")]),
    ("replace-removes-existing-row", "REPLACE INTO w VALUES (1, 99)", &[ins("w"), del("w")]),
    ("replace-inserts-new-row", "REPLACE INTO w VALUES (2, 99)", &[ins("w")]),
    // ---- the other direction: privileges on t must not open u
    ("insert-values-u", "INSERT INTO u VALUES (7, 700)", &[ins("u")]),
    ("update-u", "UPDATE u SET b = 0 WHERE a = 1", &[upd("u", B_)]),
    ("delete-u", "DELETE FROM u WHERE a = 1", &[del("u")]),
    ("truncate-u", "TRUNCATE TABLE u", &[del("u")]),
    ("insert-select-into-u", "INSERT INTO u SELECT * FROM t", &[ins("u"), sel("t", AB)]),
];

/// Privilege matrix: (role, table, privilege) -> None = whole table | Some(columns)
#[derive(Clone, Default, PartialEq, Eq, Debug)]
pub struct Model {
    table: BTreeSet<(String, String, P)>,
    cols: BTreeSet<(String, String, P, String)>,
}

impl Model {
    pub fn apply(&mut self, e: &Effect) {
        match e {
            Effect::Grant { role, table, privs, cols } => {
                for p in privs.iter() {
                    match cols {
                        None => {
                            self.table.insert((role.to_string(), table.to_string(), *p));
                        }
                        Some(cs) => {
                            for c in cs.iter() {
                                self.cols.insert((role.to_string(), table.to_string(), *p, c.to_string()));
                            }
                        }
                    }
                }
            }
            Effect::Revoke { role, table, privs } => {
                for p in privs.iter() {
                    self.table.remove(&(role.to_string(), table.to_string(), *p));
                }
            }
            Effect::Nothing => {}
        }
    }
    pub fn holds(&self, role: &str, n: &Need) -> bool {
        if self.table.contains(&(role.to_string(), n.table.to_string(), n.p)) {
            return true;
        }
        if n.cols.is_empty() {
            return self.cols.iter().any(|(r, t, p, _)| r == role && t == n.table && *p == n.p);
        }
        n.cols.iter().all(|c| self.cols.contains(&(role.to_string(), n.table.to_string(), n.p, c.to_string())))
    }
    pub fn missing(&self, role: &str, needs: &[Need]) -> Vec<String> {
        needs.iter().filter(|n| !self.holds(role, n)).map(|n| format!("{}:{}", n.p.name(), n.table)).collect()
    }
    fn key(&self) -> String {
        format!("{:?}|{:?}", self.table, self.cols)
    }
}

fn init_db() -> Database {
    let mut db = exec::fresh(PRELUDE);
    db.enable_security();
    db.set_role(Some("ADMIN".to_string()));
    db
}

/// Observable state for "a denied statement changes nothing": tables (schema + row bags) and catalog,
/// canonical (map entries sorted).
fn observe(db: &Database) -> String {
    obs::obs_state_opts(db, false, false)
}

/// Cheap pre-filter: raw Debug text of the tables' rows and of the catalog. Equal raw text implies
/// equal observable state; unequal raw text is decided by the canonical observation.
fn observe_raw(db: &Database) -> String {
    let mut s = String::new();
    for key in obs::table_keys(db) {
        s.push_str(&key);
        s.push_str(&format!("{:?}", db.tables[&key].scan()));
    }
    s.push_str(&format!("{:?}", db.catalog));
    s
}

pub struct Before {
    raw: String,
    canon: std::cell::OnceCell<String>,
}

impl Before {
    fn of(db: &Database) -> Self {
        Before { raw: observe_raw(db), canon: std::cell::OnceCell::new() }
    }
}

/// Execute one menu statement under `role` on a clone; returns (outcome, changed?)
fn run_as(db: &Database, before: &Before, role: &str, sql: &str) -> (Out, bool) {
    let mut c = db.clone();
    c.set_role(Some(role.to_string()));
    let out = exec::exec(&mut c, sql);
    c.set_role(Some("ADMIN".to_string()));
    let changed = if observe_raw(&c) == before.raw { false } else { observe(&c) != *before.canon.get_or_init(|| observe(db)) };
    (out, changed)
}

/// From scratch: prelude, admin history, then the statement under R1. Returns (class, changed, model-missing).
fn from_scratch(alpha: &[AdminOp], hist: &[String], sql: &str) -> (String, bool, Vec<String>, Out) {
    let mut db = init_db();
    let mut m = Model::default();
    for h in hist {
        let out = exec::exec(&mut db, h);
        if out.is_ok() {
            if let Some(op) = alpha.iter().find(|o| o.sql == *h) {
                m.apply(&op.effect);
            }
        }
    }
    let before = Before::of(&db);
    let (out, changed) = run_as(&db, &before, "R1", sql);
    let needs = MENU.iter().find(|(_, s, _)| *s == sql).map(|(_, _, n)| *n).unwrap_or(&[]);
    (out.class().to_string(), changed, m.missing("R1", needs), out)
}

#[derive(Default)]
struct StmtStat {
    ok_privileged: u64,
    err_privileged: u64,
    denied: u64,
    ok_unprivileged: u64,
}

struct AclSpec {
    alpha: Vec<AdminOp>,
    evaluations: AtomicU64,
    stats: Mutex<BTreeMap<&'static str, StmtStat>>,
    outcomes: Mutex<BTreeSet<String>>,
    /// merged search: run the menu once per distinct state (key = Database fingerprint + model);
    /// guard search: run it after every transition
    once_per_state: std::sync::atomic::AtomicBool,
    checked: Mutex<std::collections::HashSet<u128>>,
    states_checked: AtomicU64,
}

impl AclSpec {
    /// run the whole menu under R1 in this state
    fn check_state(&self, db: &Database, m: &Model, hist: &[String], rep: &Report) {
        let before = Before::of(db);
        let mut local: Vec<(&'static str, u8)> = Vec::with_capacity(MENU.len());
        for (label, sql, needs) in MENU {
            let (out, changed) = run_as(db, &before, "R1", sql);
            self.evaluations.fetch_add(1, Ordering::Relaxed);
            let missing = m.missing("R1", needs);
            let ok = out.is_ok();
            local.push((label, match (ok, missing.is_empty()) {
                (true, true) => 0,
                (false, true) => 1,
                (false, false) => 2,
                (true, false) => 3,
            }));
            if missing.is_empty() {
                continue;
            }
            let kind = if ok {
                Some("succeeded-without-privilege")
            } else if changed {
                Some("denied-but-changed")
            } else {
                None
            };
            if let Some(kind) = kind {
                // confirm twice from scratch
                let a = from_scratch(&self.alpha, hist, sql);
                let b = from_scratch(&self.alpha, hist, sql);
                let same = a.0 == b.0 && a.1 == b.1 && a.2 == b.2;
                let reproduces = same && a.2 == missing && (a.0 == "ok") == ok && a.1 == changed;
                if !reproduces {
                    rep.machinery_error(format!(
                        "C26: case did not reproduce from scratch: hist={:?} stmt={} search=({},{},{:?}) replay1=({},{},{:?}) replay2=({},{},{:?})",
                        hist, sql, out.class(), changed, missing, a.0, a.1, a.2, b.0, b.1, b.2
                    ));
                    continue;
                }
                let mut steps: Vec<String> = vec!["#ROLE ADMIN".into()];
                steps.extend(hist.iter().cloned());
                steps.push("#ROLE R1".into());
                steps.push(sql.to_string());
                rep.violation(
                    &[("kind", kind.to_string()), ("stmt", label.to_string()), ("missing", missing.join("+"))],
                    format!(
                        "under role R1 after {:?}: `{}` => {}{}; the GRANT/REVOKE history gives R1 no {}",
                        hist,
                        sql,
                        out.brief(),
                        if changed { " and the database changed" } else { "" },
                        missing.join(", ")
                    ),
                    json!({"security": true, "prelude": PRELUDE, "history": hist, "statement": sql, "steps": steps}),
                );
            }
        }
        let mut st = self.stats.lock().unwrap();
        for (label, k) in local {
            let e = st.entry(label).or_default();
            match k {
                0 => e.ok_privileged += 1,
                1 => e.err_privileged += 1,
                2 => e.denied += 1,
                _ => e.ok_unprivileged += 1,
            }
        }
    }
}

impl Spec for AclSpec {
    type M = Model;

    fn init(&self) -> Vec<Node<Model>> {
        vec![Node { db: init_db(), model: Model::default(), hist: vec![] }]
    }

    fn alphabet(&self, _db: &Database, _m: &Model, _h: &[String]) -> Vec<String> {
        self.alpha.iter().map(|o| o.sql.clone()).collect()
    }

    fn step(&self, _pre: &Database, m: &Model, op: &str, post: &Database, out: &Out, hist: &[String], rep: &Report) -> Option<Model> {
        let mut m2 = m.clone();
        if out.is_ok() {
            if let Some(o) = self.alpha.iter().find(|o| o.sql == op) {
                m2.apply(&o.effect);
            }
        }
        self.outcomes.lock().unwrap().insert(format!("{}=>{}", op, out.class()));
        let fresh = if self.once_per_state.load(Ordering::Relaxed) {
            let mut k = vcore::fp::canon(post);
            k.push('\u{1}');
            k.push_str(&m2.key());
            self.checked.lock().unwrap().insert(vcore::util::hash128(k.as_bytes()))
        } else {
            true
        };
        if fresh {
            self.states_checked.fetch_add(1, Ordering::Relaxed);
            self.check_state(post, &m2, hist, rep);
        }
        Some(m2)
    }

    fn model_key(&self, m: &Model) -> String {
        m.key()
    }
}

pub fn run(tier: &str) -> i32 {
    let mut rep = Report::new("C26", tier, "model_checking");
    vibesql_types::verif::reset();
    let thorough = tier == "thorough";
    let (depth, guard_depth) = if thorough { (3, 2) } else { (2, 1) };
    let caps = Caps { max_states: 3_000_000, max_secs: 3000.0 };

    let mk = |alpha: Vec<AdminOp>| AclSpec {
        alpha,
        evaluations: AtomicU64::new(0),
        stats: Mutex::new(BTreeMap::new()),
        outcomes: Mutex::new(BTreeSet::new()),
        once_per_state: std::sync::atomic::AtomicBool::new(true),
        checked: Mutex::new(std::collections::HashSet::new()),
        states_checked: AtomicU64::new(0),
    };
    let spec = AclSpec {
        alpha: admin_alphabet(thorough),
        evaluations: AtomicU64::new(0),
        stats: Mutex::new(BTreeMap::new()),
        outcomes: Mutex::new(BTreeSet::new()),
        once_per_state: std::sync::atomic::AtomicBool::new(false),
        checked: Mutex::new(std::collections::HashSet::new()),
        states_checked: AtomicU64::new(0),
    };
    // the initial state (no grants at all) is a state too
    {
        let n = &spec.init()[0];
        spec.check_state(&n.db, &n.model, &[], &rep);
    }
    let st_guard = histmc::bfs(&spec, guard_depth, false, &rep, &caps);
    spec.once_per_state.store(true, Ordering::Relaxed);
    let st = histmc::bfs(&spec, depth, true, &rep, &caps);

    // deeper searches over the statements that concern one (role, table) pair
    let focus_depth = if thorough { 4 } else { 3 };
    let mut focus_json = vec![];
    let mut focus_specs = vec![];
    let pairs: &[(&str, &str)] = if thorough { &[("R1", "u"), ("R1", "t"), ("R1", "w")] } else { &[("R1", "u")] };
    for (role, table) in pairs.iter().copied() {
        let fs = mk(focused(admin_alphabet(thorough), role, table));
        let st = histmc::bfs(&fs, focus_depth, true, &rep, &caps);
        focus_json.push(json!({"role": role, "table": table, "alphabet": fs.alpha.len(), "depth": focus_depth, "depth_completed": st.depth_completed,
            "states": st.states, "transitions": st.transitions, "capped": st.capped, "menu_evaluations": fs.evaluations.load(Ordering::Relaxed)}));
        focus_specs.push((fs, st));
    }

    // the focused searches run after the full one (order: shortest witnesses of the full space first)
    histmc::stats_into(&mut rep, "full_", &st);
    histmc::stats_into(&mut rep, "stateless_guard_", &st_guard);
    let mut evals = spec.evaluations.load(Ordering::Relaxed);
    let mut states = st.states;
    let mut transitions = st.transitions;
    let mut states_checked = spec.states_checked.load(Ordering::Relaxed) + 1;
    let mut capped = st.capped || st_guard.capped || st.depth_completed < depth;
    for (fs, fst) in &focus_specs {
        evals += fs.evaluations.load(Ordering::Relaxed);
        states += fst.states;
        transitions += fst.transitions;
        states_checked += fs.states_checked.load(Ordering::Relaxed);
        capped |= fst.capped || fst.depth_completed < focus_depth;
        let mut tgt = spec.stats.lock().unwrap();
        for (k, v) in fs.stats.lock().unwrap().iter() {
            let e = tgt.entry(k).or_default();
            e.ok_privileged += v.ok_privileged;
            e.err_privileged += v.err_privileged;
            e.denied += v.denied;
            e.ok_unprivileged += v.ok_unprivileged;
        }
        spec.outcomes.lock().unwrap().extend(fs.outcomes.lock().unwrap().iter().cloned());
    }
    rep.set("states", json!(states));
    rep.set("transitions", json!(transitions));
    rep.set("focused_searches", json!(focus_json));
    rep.set("menu_evaluations", json!(evals));
    rep.set("states_in_which_the_menu_ran", json!(states_checked));
    rep.set("traces_validated_against_impl", json!(transitions + st_guard.transitions + evals));
    rep.set("admin_alphabet", json!(spec.alpha.len()));
    rep.set("menu_size", json!(MENU.len()));
    rep.set("exhaustive", json!(!capped));
    rep.set("samples", json!(st.samples));
    let stats = spec.stats.lock().unwrap();
    let mut per_stmt = serde_json::Map::new();
    let mut never_ok: Vec<&str> = vec![];
    let mut never_denied: Vec<&str> = vec![];
    let (mut ok_p, mut err_p, mut denied, mut ok_u) = (0u64, 0u64, 0u64, 0u64);
    for (label, _, _) in MENU {
        let z = StmtStat::default();
        let s = stats.get(label).unwrap_or(&z);
        per_stmt.insert(
            label.to_string(),
            json!({"ok_with_privileges": s.ok_privileged, "error_with_privileges": s.err_privileged, "failed_without_privileges": s.denied, "ok_without_privileges": s.ok_unprivileged}),
        );
        if s.ok_privileged == 0 {
            never_ok.push(label);
        }
        if s.denied == 0 {
            never_denied.push(label);
        }
        ok_p += s.ok_privileged;
        err_p += s.err_privileged;
        denied += s.denied;
        ok_u += s.ok_unprivileged;
    }
    rep.set("per_statement", Value::Object(per_stmt));
    rep.set("menu_outcomes", json!({"ok_with_privileges": ok_p, "error_with_privileges": err_p, "failed_without_privileges": denied, "ok_without_privileges": ok_u}));
    rep.set("statements_never_successful_even_when_privileged", json!(never_ok));
    rep.set("statements_never_denied", json!(never_denied));
    rep.set("distinct_admin_outcomes", json!(spec.outcomes.lock().unwrap().len()));
    let (reach, vac) = vcore::report::reach_json(&["bulk_transfer", "in_subquery_index", "index_scan", "columnar_path"]);
    rep.set("reach", reach);
    rep.set("vacuous_mechanisms", vac);
    rep.set(
        "rule",
        json!("BFS over all CREATE ROLE/GRANT/REVOKE histories (as ADMIN, security enabled) on the real Database, states merged on the Database fingerprint + privilege-matrix model; in every reached state every menu statement runs under role R1 on a clone: success requires every needed privilege in the model, a missing privilege requires failure with tables and catalog unchanged"),
    );
    rep.assume("a GRANT/REVOKE takes effect in the model iff the engine accepted it; column-level REVOKE and REVOKE GRANT OPTION FOR leave the model unchanged (over-approximation: never a false alarm)");
    rep.assume("UPDATE/DELETE need only the matching privilege on their target (SELECT on the target for their own WHERE clause is not demanded)");
    println!(
        "C26: states={} transitions={} menu_evaluations={} ok_priv={} err_priv={} denied={} ok_unpriv={}",
        states, transitions, evals, ok_p, err_p, denied, ok_u
    );
    println!("C26: never successful even when privileged: {:?}", never_ok);
    println!("C26: never denied: {:?}", never_denied);
    drop(stats);
    rep.finish()
}

pub fn replay(case: &Value) -> i32 {
    let hist: Vec<String> = case["history"].as_array().map(|a| a.iter().filter_map(|x| x.as_str().map(|s| s.to_string())).collect()).unwrap_or_default();
    let sql = case["statement"].as_str().unwrap_or("").to_string();
    let mut db = init_db();
    for s in PRELUDE {
        println!("prelude: {}", s);
    }
    println!("(security enabled, role ADMIN)");
    for h in &hist {
        let o = exec::exec(&mut db, h);
        println!("{}\n   => {}", h, o.brief());
    }
    let before = observe(&db);
    let mut c = db.clone();
    c.set_role(Some("R1".to_string()));
    println!("(role R1)");
    let o = exec::exec(&mut c, &sql);
    println!("{}\n   => {}", sql, o.brief());
    c.set_role(Some("ADMIN".to_string()));
    let after = observe(&c);
    println!("tables/catalog changed: {}", after != before);
    if after != before {
        println!("   {}", obs::first_diff(&before, &after));
    }
    let alpha = admin_alphabet(true);
    let (_, _, missing, _) = from_scratch(&alpha, &hist, &sql);
    println!("privileges the history does not give R1 for this statement: {:?}", missing);
    0
}
