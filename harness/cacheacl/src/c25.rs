//! C25 — the query result cache never serves a stale or foreign result (DESIGN §5 C25).
//!
//! Two drivers of the same protocol (look up by `QuerySignature::from_sql`; on a miss execute and
//! insert with the extracted table set; on a write `invalidate_table`):
//!
//! * **lib** — the harness drives `vibesql_executor::cache::{QuerySignature, QueryResultCache,
//!   extract_tables_from_select_with_views}` the way `tests/compliance/sqllogictest_runner.rs` and the slt
//!   adapter do (invalidate the written table's unqualified name). Explicit-state BFS over
//!   (Database, cache contents) with dedup, plus a stateless guard pass.
//! * **adapter** — the repository's own cache user `tests/sqllogictest/db_adapter.rs` (compiled in
//!   by `#[path]`), driven through `AsyncDB::run`; the uncached execution is a twin adapter with
//!   `SQLLOGICTEST_CACHE_ENABLED=0` that receives the same statements. Its database is private, so
//!   histories are explored by replay from scratch (plain tree, no dedup).
//!
//! Oracle (both): at every read the served rows equal, as a bag and by value, the rows of an
//! uncached execution of the same text on the current database; (lib) any two query texts of the
//! alphabet with equal `QuerySignature` have equal uncached results in every reached state.

use std::collections::{BTreeMap, BTreeSet};
use std::panic::{catch_unwind, AssertUnwindSafe};
use std::sync::atomic::{AtomicU64, Ordering};
use std::sync::{Arc, Mutex};

use serde_json::{json, Value};
use vibesql_ast::Statement;
use vibesql_executor::cache::{extract_tables_from_select_with_views, tables_affected_by_write, QueryResultCache, QuerySignature};
use vibesql_executor::schema::CombinedSchema;
use vibesql_storage::{Database, Row};
use vibesql_types::SqlValue;

use vcore::exec::{self, ErrClass, Out};
use vcore::histmc::{self, Caps, Node, Spec};
use vcore::report::Report;
use vcore::val;

use crate::common;

// ------------------------------------------------------------------------------------------------
// alphabet
// ------------------------------------------------------------------------------------------------

pub const PRELUDE: &[&str] = &[
    "CREATE TABLE t (a INT, c VARCHAR(10))",
    "CREATE TABLE u (a INT, d INT)",
    "CREATE TABLE q (\"k\" INT, \"K\" INT)",
    "CREATE VIEW v AS SELECT a, d FROM u WHERE d > 0",
    "CREATE VIEW v2 AS SELECT a FROM v",
    "INSERT INTO t VALUES (1, 'a'), (2, 'A'), (3, 'a b'), (4, 'a  b')",
    "INSERT INTO u VALUES (1, 10), (2, 20)",
    "INSERT INTO q VALUES (1, 2)",
    // a parent/child pair whose foreign key rewrites the child when the parent is written
    "CREATE TABLE p (id INT PRIMARY KEY, x INT)",
    "CREATE TABLE c (id INT, pid INT, FOREIGN KEY (pid) REFERENCES p (id) ON DELETE CASCADE ON UPDATE CASCADE)",
    "INSERT INTO p VALUES (1, 0), (2, 0)",
    "INSERT INTO c VALUES (10, 1), (20, 2)",
    // children whose foreign key has a referential action for one event only (the other one is NO ACTION)
    "CREATE TABLE cu (id INT, pid INT, FOREIGN KEY (pid) REFERENCES p (id) ON UPDATE CASCADE)",
    "CREATE TABLE cd (id INT, pid INT, FOREIGN KEY (pid) REFERENCES p (id) ON DELETE SET NULL)",
    "INSERT INTO p VALUES (3, 0), (4, 0)",
    "INSERT INTO cu VALUES (30, 3)",
    "INSERT INTO cd VALUES (40, 4)",
    // ... and the two other ON UPDATE actions that rewrite child rows
    "CREATE TABLE cn (id INT, pid INT, FOREIGN KEY (pid) REFERENCES p (id) ON UPDATE SET NULL)",
    "CREATE TABLE cf (id INT, pid INT DEFAULT 1, FOREIGN KEY (pid) REFERENCES p (id) ON UPDATE SET DEFAULT)",
    "INSERT INTO p VALUES (5, 0), (6, 0)",
    "INSERT INTO cn VALUES (50, 5)",
    "INSERT INTO cf VALUES (60, 6)",
];

/// (group, label, sql). The group is the slice the deeper searches are run on; the label names the
/// way the text references its tables (it is the `read` key of a violation signature).
pub const READS: &[(&str, &str, &str)] = &[
    // texts that differ only inside a string literal (must not share) / only outside (may share)
    ("lit", "lit-a", "SELECT a FROM t WHERE c = 'a'"),
    ("lit", "lit-A", "SELECT a FROM t WHERE c = 'A'"),
    ("lit", "lit-a-kwcase", "select a from t where c = 'a'"),
    ("lit", "lit-a-ws", "SELECT  a  FROM t   WHERE c = 'a'"),
    ("litws", "lit-sp1", "SELECT a FROM t WHERE c = 'a b'"),
    ("litws", "lit-sp2", "SELECT a FROM t WHERE c = 'a  b'"),
    ("sellit", "sel-x", "SELECT 'x' FROM q"),
    ("sellit", "sel-X", "SELECT 'X' FROM q"),
    ("qident", "qid-k", "SELECT \"k\" FROM q"),
    ("qident", "qid-K", "SELECT \"K\" FROM q"),
    // a line comment ends at the newline: the two texts are different statements
    ("comment", "comment-newline", "SELECT a FROM t -- x\nWHERE a = 1"),
    ("comment", "comment-space", "SELECT a FROM t -- x WHERE a = 1"),
    // texts that differ only in a numeric literal
    ("num", "num-1", "SELECT a FROM t WHERE a = 1"),
    ("num", "num-2", "SELECT a FROM t WHERE a = 2"),
    // a table that is written through a foreign-key action of a statement on another table
    ("fk", "fk-child", "SELECT id, pid FROM c"),
    ("fk", "fk-join", "SELECT p.id, c.id FROM p JOIN c ON c.pid = p.id"),
    ("fk", "fk-child-on-update-only", "SELECT id, pid FROM cu"),
    ("fk", "fk-child-on-delete-only", "SELECT id, pid FROM cd"),
    ("fk", "fk-child-on-update-set-null", "SELECT id, pid FROM cn"),
    ("fk", "fk-child-on-update-set-default", "SELECT id, pid FROM cf"),
    // FROM-clause shapes that reference u
    ("from", "scan", "SELECT a, d FROM u"),
    ("from", "star", "SELECT * FROM u"),
    ("from", "alias", "SELECT z.a FROM u AS z"),
    ("from", "qualified", "SELECT a FROM \"public\".u"),
    ("from", "count-star", "SELECT COUNT(*) FROM u"),
    ("from", "join", "SELECT t.a, u.d FROM t JOIN u ON t.a = u.a"),
    ("from", "comma-join", "SELECT t.a FROM t, u WHERE t.a = u.a"),
    ("from", "derived", "SELECT x.a FROM (SELECT a FROM u) AS x"),
    ("setop", "union-right", "SELECT a FROM t UNION SELECT a FROM u"),
    ("setop", "union-all-3rd", "SELECT a FROM t UNION ALL SELECT a FROM t UNION ALL SELECT a FROM u"),
    ("setop", "except-right", "SELECT a FROM t EXCEPT SELECT a FROM u"),
    ("setop", "intersect-right", "SELECT a FROM t INTERSECT SELECT a FROM u"),
    ("cte", "cte", "WITH w AS (SELECT a FROM u) SELECT a FROM w"),
    ("cte", "cte-join", "WITH w AS (SELECT a FROM u) SELECT t.a FROM t JOIN w ON t.a = w.a"),
    ("view", "view", "SELECT a, d FROM v"),
    ("view", "view-in-subquery", "SELECT a FROM t WHERE a IN (SELECT a FROM v)"),
    ("view", "view-join", "SELECT t.a FROM t JOIN v ON t.a = v.a"),
    ("view", "view-nested", "SELECT a FROM v2"),
    // one text per expression form through which a subquery on u can be reached from a query on t
    ("subq1", "in-subquery", "SELECT a FROM t WHERE a IN (SELECT a FROM u)"),
    ("subq1", "not-in-subquery", "SELECT a FROM t WHERE a NOT IN (SELECT a FROM u)"),
    ("subq1", "exists", "SELECT a FROM t WHERE EXISTS (SELECT 1 FROM u WHERE u.a = t.a)"),
    ("subq1", "quantified", "SELECT a FROM t WHERE a > ALL (SELECT a FROM u)"),
    ("subq1", "nested-in", "SELECT a FROM t WHERE a IN (SELECT a FROM t WHERE a IN (SELECT a FROM u))"),
    ("subq2", "scalar-select-list", "SELECT a, (SELECT COUNT(*) FROM u) FROM t"),
    ("subq2", "scalar-binop", "SELECT a FROM t WHERE a < (SELECT COUNT(*) FROM u)"),
    ("subq2", "scalar-unary", "SELECT a FROM t WHERE NOT (a < (SELECT COUNT(*) FROM u))"),
    ("subq2", "scalar-function-arg", "SELECT a FROM t WHERE a = COALESCE((SELECT MAX(a) FROM u), 0)"),
    ("subq2", "scalar-aggregate-arg", "SELECT MAX(a + (SELECT COUNT(*) FROM u)) FROM t"),
    ("subq3", "scalar-case", "SELECT CASE WHEN a < (SELECT COUNT(*) FROM u) THEN 1 ELSE 0 END FROM t"),
    ("subq3", "scalar-in-list", "SELECT a FROM t WHERE a IN (0, (SELECT MAX(a) FROM u))"),
    ("subq3", "scalar-between", "SELECT a FROM t WHERE a BETWEEN 0 AND (SELECT MAX(a) FROM u)"),
    ("subq3", "scalar-is-null", "SELECT a FROM t WHERE (SELECT MAX(a) FROM u) IS NULL"),
    ("subq3", "scalar-cast", "SELECT a FROM t WHERE a = CAST((SELECT MAX(a) FROM u) AS INT)"),
    ("subq4", "having", "SELECT a FROM t GROUP BY a HAVING a > (SELECT MIN(a) FROM u)"),
    ("subq4", "order-by", "SELECT a FROM t ORDER BY (SELECT COUNT(*) FROM u), a"),
    ("subq4", "join-on", "SELECT t.a FROM t JOIN q ON t.a IN (SELECT a FROM u)"),
    ("subq4", "like-pattern", "SELECT a FROM t WHERE c LIKE (SELECT MIN(c) FROM t WHERE a IN (SELECT a FROM u))"),
];

/// (label, sql). The label is the `cause` key of a violation signature (statement kind + target).
pub const WRITES: &[(&str, &str)] = &[
    ("insert:t", "INSERT INTO t VALUES (5, 'a')"),
    ("update:t", "UPDATE t SET c = 'A' WHERE a = 1"),
    ("delete:t", "DELETE FROM t WHERE a = 2"),
    ("insert-select:t", "INSERT INTO t SELECT a, 'a' FROM u"),
    ("insert:u", "INSERT INTO u VALUES (3, 30)"),
    ("update:u", "UPDATE u SET d = 0 WHERE a = 1"),
    ("delete:u", "DELETE FROM u WHERE a = 2"),
    ("delete-all:u", "DELETE FROM u"),
    ("truncate:u", "TRUNCATE TABLE u"),
    ("insert:q", "INSERT INTO q VALUES (3, 4)"),
    ("drop:u", "DROP TABLE u"),
    ("create:u", "CREATE TABLE u (a INT, d INT)"),
    ("drop-view:v", "DROP VIEW v"),
    ("create-view:v", "CREATE VIEW v AS SELECT a, d FROM u WHERE d > 10"),
];

/// Writes for the `fk` slice (also part of the full alphabet).
pub const FK_WRITES: &[(&str, &str)] = &[
    ("delete-parent:p", "DELETE FROM p WHERE id = 1"),
    ("update-parent-key:p", "UPDATE p SET id = 5 WHERE id = 2"),
    ("insert:c", "INSERT INTO c VALUES (30, 2)"),
    ("delete:c", "DELETE FROM c WHERE id = 10"),
    ("update-parent-key:p/cu", "UPDATE p SET id = 13 WHERE id = 3"),
    ("delete-parent:p/cd", "DELETE FROM p WHERE id = 4"),
    ("update-parent-key:p/cn", "UPDATE p SET id = 15 WHERE id = 5"),
    ("update-parent-key:p/cf", "UPDATE p SET id = 16 WHERE id = 6"),
];

/// Extra statements for the adapter driver (its own dispatch decides what each of them does to the cache).
pub const ADAPTER_EXTRA_WRITES: &[(&str, &str)] = &[
    ("begin", "BEGIN"),
    ("rollback", "ROLLBACK"),
    ("commit", "COMMIT"),
    ("drop-qualified:u", "DROP TABLE \"public\".u"),
    ("alter-add-column:u", "ALTER TABLE u ADD COLUMN e INT"),
];

pub fn label_of(sql: &str) -> String {
    for (_, l, s) in READS {
        if *s == sql {
            return l.to_string();
        }
    }
    for (l, s) in WRITES.iter().chain(ADAPTER_EXTRA_WRITES.iter()).chain(FK_WRITES.iter()) {
        if *s == sql {
            return l.to_string();
        }
    }
    // not a menu statement (hand-written replay): first two words
    sql.split_whitespace().take(2).collect::<Vec<_>>().join(" ").to_lowercase()
}

pub fn is_read(sql: &str) -> bool {
    let s = sql.trim_start().to_ascii_lowercase();
    s.starts_with("select") || s.starts_with("with")
}

// ------------------------------------------------------------------------------------------------
// the protocol, as its users run it (lib driver)
// ------------------------------------------------------------------------------------------------

fn result_schema(rows: &[Row]) -> CombinedSchema {
    use vibesql_catalog::{ColumnSchema, TableSchema};
    let cols = match rows.first() {
        Some(r) => r
            .values
            .iter()
            .enumerate()
            .map(|(i, v)| ColumnSchema { name: format!("col{}", i), data_type: v.get_type(), nullable: v.is_null(), default_value: None })
            .collect(),
        None => vec![],
    };
    CombinedSchema::from_table("result".to_string(), TableSchema::new("result".to_string(), cols))
}

/// One cached SELECT: returns what the protocol serves, whether it was a hit, and on a miss that
/// was inserted the table set the entry was registered under.
pub fn proto_read(cache: &QueryResultCache, db: &Database, sql: &str) -> (Out, bool, Option<Vec<String>>) {
    let stmt = match exec::parse(sql) {
        Ok(Statement::Select(s)) => s,
        Ok(_) => return (Out::Err(ErrClass::Other, "not a SELECT".into()), false, None),
        Err(e) => return (Out::Err(ErrClass::Parse, e), false, None),
    };
    let sig = QuerySignature::from_sql(sql);
    if let Some((rows, _schema)) = cache.get(&sig) {
        return (Out::Rows(rows.into_iter().map(|r| r.values).collect()), true, None);
    }
    let out = exec::select_stmt(db, &stmt);
    let mut registered = None;
    if let Out::Rows(rows) = &out {
        let rows: Vec<Row> = rows.iter().map(|v| Row::new(v.clone())).collect();
        let tables = extract_tables_from_select_with_views(&stmt, &db.catalog);
        let mut tv: Vec<String> = tables.iter().cloned().collect();
        tv.sort();
        registered = Some(tv);
        let schema = result_schema(&rows);
        cache.insert(sig, rows, schema, tables);
    }
    (out, false, registered)
}

/// What a user of the cache does when it executes a non-SELECT statement (as the slt adapter):
/// INSERT / UPDATE / DELETE / TRUNCATE invalidate every table `tables_affected_by_write` names for
/// the written table (everything if it cannot bound the set); DROP / CREATE TABLE and view DDL
/// invalidate the object's name; for any other statement the library gives no guidance and the
/// driver clears the cache (conservative, so that every violation the lib driver reports is the
/// library's).
pub fn proto_write(cache: &QueryResultCache, db: &Database, sql: &str) {
    let Ok(stmt) = exec::parse(sql) else { return };
    let written = |table: &str| match tables_affected_by_write(table, &db.catalog) {
        Some(tables) => {
            for t in &tables {
                cache.invalidate_table(t);
            }
        }
        None => cache.clear(),
    };
    match &stmt {
        Statement::Insert(s) => written(&s.table_name),
        Statement::Update(s) => written(&s.table_name),
        Statement::Delete(s) => written(&s.table_name),
        Statement::TruncateTable(s) => {
            for t in &s.table_names {
                written(t);
            }
        }
        Statement::DropTable(s) => cache.invalidate_table(&s.table_name),
        Statement::CreateTable(s) => cache.invalidate_table(&s.table_name),
        Statement::CreateView(s) => cache.invalidate_table(&s.view_name),
        Statement::DropView(s) => cache.invalidate_table(&s.view_name),
        _ => cache.clear(),
    }
}

/// Initial states of the lib driver: 0 = prelude; 1 = prelude + an AFTER INSERT row trigger on `t`
/// that writes `q` (trigger bodies parsed from SQL text are stored as token dumps, so the
/// statement is built as an AST with `TriggerAction::RawSql`).
pub const LIB_INITS: &[&str] = &["plain", "trigger-on-t-writes-q"];

pub fn lib_init(init: usize) -> Database {
    let mut db = exec::fresh(PRELUDE);
    if init == 1 {
        let stmt = Statement::CreateTrigger(vibesql_ast::CreateTriggerStmt {
            trigger_name: "TRG_T_Q".to_string(),
            timing: vibesql_ast::TriggerTiming::After,
            event: vibesql_ast::TriggerEvent::Insert,
            table_name: "T".to_string(),
            granularity: vibesql_ast::TriggerGranularity::Row,
            when_condition: None,
            triggered_action: vibesql_ast::TriggerAction::RawSql("INSERT INTO q VALUES (9, 9)".to_string()),
        });
        let o = exec::exec_stmt(&mut db, &stmt);
        if !o.is_ok() {
            panic!("harness prelude: CREATE TRIGGER failed: {}", o.brief());
        }
    }
    db
}

/// Sequential lib driver (confirmation, minimisation, replay).
pub struct LibRun {
    pub db: Database,
    pub cache: QueryResultCache,
    /// signature hash -> text that inserted the live entry
    pub owner: BTreeMap<u64, String>,
}

pub struct StepObs {
    pub op: String,
    pub uncached: Out,
    /// reads only
    pub served: Option<Out>,
    pub hit: bool,
    pub hit_owner: Option<String>,
}

impl LibRun {
    pub fn new(init: usize) -> Self {
        LibRun { db: lib_init(init), cache: QueryResultCache::new(100_000), owner: BTreeMap::new() }
    }
    pub fn step(&mut self, op: &str) -> StepObs {
        if is_read(op) {
            let uncached = exec::select(&self.db, op);
            let h = QuerySignature::from_sql(op).hash();
            let (served, hit, reg) = proto_read(&self.cache, &self.db, op);
            let hit_owner = if hit { self.owner.get(&h).cloned() } else { None };
            if reg.is_some() {
                self.owner.insert(h, op.to_string());
            }
            StepObs { op: op.to_string(), uncached, served: Some(served), hit, hit_owner }
        } else {
            proto_write(&self.cache, &self.db, op); // before the statement executes, like the adapter
            let uncached = exec::exec(&mut self.db, op);
            StepObs { op: op.to_string(), uncached, served: None, hit: false, hit_owner: None }
        }
    }
}

/// Do the served and the uncached result of one read differ? (bag of rows by value; a served
/// result for a text that no longer executes differs; two errors do not.)
pub fn differs(served: &Out, uncached: &Out) -> bool {
    match (served, uncached) {
        (Out::Rows(a), Out::Rows(b)) => !val::same_bag(a, b),
        (Out::Rows(_), Out::Err(..)) => true,
        (Out::Err(..), Out::Rows(_)) => true,
        _ => false,
    }
}

/// Lib driver: does the *last* step of `hist` serve a result different from the uncached one?
fn lib_last_differs(init: usize, hist: &[String]) -> Option<String> {
    let mut r = LibRun::new(init);
    let mut last = None;
    for op in hist {
        last = Some(r.step(op));
    }
    let o = last?;
    let served = o.served.as_ref()?;
    if differs(served, &o.uncached) {
        Some(format!(
            "`{}` served {} ({}) but an uncached execution returns {}",
            o.op,
            served.brief(),
            match (&o.hit, &o.hit_owner) {
                (true, Some(t)) if *t != o.op => format!("cache hit on the entry of `{}`", t),
                (true, _) => "cache hit".to_string(),
                _ => "miss".to_string(),
            },
            o.uncached.brief()
        ))
    } else {
        None
    }
}

fn signature_of(driver: &str, minimal: &[String]) -> Vec<(&'static str, String)> {
    let last = minimal.last().cloned().unwrap_or_default();
    let mut via: Vec<String> = vec![];
    let mut cause: Vec<String> = vec![];
    for op in &minimal[..minimal.len().saturating_sub(1)] {
        if is_read(op) {
            if *op != last {
                via.push(label_of(op));
            }
        } else {
            cause.push(label_of(op));
        }
    }
    let kind = if !via.is_empty() && cause.is_empty() { "foreign" } else { "stale" };
    vec![
        ("driver", driver.to_string()),
        ("kind", kind.to_string()),
        ("read", label_of(&last)),
        ("via", if via.is_empty() { "-".into() } else { via.join("+") }),
        ("cause", if cause.is_empty() { "-".into() } else { cause.join("+") }),
    ]
}

/// Confirm twice from scratch, minimise, record.
fn report_case<F: Fn(&[String]) -> Option<String>>(driver: &str, init: usize, hist: &[String], fails: F, rep: &Report) {
    let a = fails(hist);
    let b = fails(hist);
    if a.is_none() || b.is_none() {
        rep.machinery_error(format!("C25 {}: case did not reproduce from scratch ({:?} / {:?}): {:?}", driver, a, b, hist));
        return;
    }
    let minimal = common::minimise(hist, |h| fails(h).is_some());
    let what = fails(&minimal).unwrap_or_else(|| a.clone().unwrap());
    let sig = signature_of(driver, &minimal);
    rep.violation(
        &sig,
        format!("[{} driver] {}", driver, what),
        json!({"driver": driver, "init": init, "prelude": PRELUDE, "steps": minimal, "found_as": hist}),
    );
}

// ------------------------------------------------------------------------------------------------
// lib driver: explicit-state search
// ------------------------------------------------------------------------------------------------

#[derive(Clone)]
pub struct Entry {
    text: String,
    rows: Vec<Vec<SqlValue>>,
    tables: Vec<String>,
    /// length of the history when the entry was inserted (label only; not part of the state key)
    born: usize,
}

#[derive(Default)]
struct Counters {
    reads: AtomicU64,
    hits: AtomicU64,
    hits_other_text: AtomicU64,
    misses_inserted: AtomicU64,
    read_errors: AtomicU64,
    writes: AtomicU64,
    entries_invalidated: AtomicU64,
    entries_surviving_a_write: AtomicU64,
    pair_checks: AtomicU64,
}

struct LibSpec {
    init: usize,
    alphabet: Vec<String>,
    /// classes of alphabet reads with equal signature (size >= 2)
    classes: Vec<Vec<String>>,
    c: Counters,
    outcomes: Mutex<BTreeSet<u64>>,
    ok_reads: Mutex<BTreeSet<String>>,
    /// failing cases already confirmed + minimised, by (read, entry owner, writes since the entry was inserted)
    seen_cases: Mutex<BTreeSet<String>>,
    failing: AtomicU64,
}

fn rebuild(m: &[Entry]) -> QueryResultCache {
    let cache = QueryResultCache::new(100_000);
    for e in m {
        let rows: Vec<Row> = e.rows.iter().map(|v| Row::new(v.clone())).collect();
        let schema = result_schema(&rows);
        cache.insert(QuerySignature::from_sql(&e.text), rows, schema, e.tables.iter().cloned().collect());
    }
    cache
}

impl LibSpec {
    fn new(init: usize, alphabet: Vec<String>) -> Self {
        let mut by_sig: BTreeMap<u64, Vec<String>> = BTreeMap::new();
        for op in alphabet.iter().filter(|o| is_read(o)) {
            by_sig.entry(QuerySignature::from_sql(op).hash()).or_default().push(op.clone());
        }
        let classes = by_sig.into_values().filter(|v| v.len() >= 2).collect();
        LibSpec {
            init,
            alphabet,
            classes,
            c: Counters::default(),
            outcomes: Mutex::new(BTreeSet::new()),
            ok_reads: Mutex::new(BTreeSet::new()),
            seen_cases: Mutex::new(BTreeSet::new()),
            failing: AtomicU64::new(0),
        }
    }

    /// every two texts with equal signature must have equal uncached results in this state
    fn pair_check(&self, db: &Database, hist: &[String], rep: &Report) {
        for class in &self.classes {
            let outs: Vec<Out> = class.iter().map(|q| exec::select(db, q)).collect();
            self.c.pair_checks.fetch_add(1, Ordering::Relaxed);
            for i in 0..class.len() {
                for j in i + 1..class.len() {
                    if let (Out::Rows(a), Out::Rows(b)) = (&outs[i], &outs[j]) {
                        if !val::same_bag(a, b) {
                            self.failing.fetch_add(1, Ordering::Relaxed);
                            let mut ws: Vec<String> = hist.iter().filter(|o| !is_read(o)).map(|o| label_of(o)).collect();
                            ws.sort();
                            ws.dedup();
                            let key = format!("pair|{}|{}|{}", class[i], class[j], ws.join(","));
                            if !self.seen_cases.lock().unwrap().insert(key) {
                                continue;
                            }
                            // witness: the writes of the history (empty cache), then the two reads one
                            // after the other: the second is served from the entry of the first
                            let mut h: Vec<String> = hist.iter().filter(|o| !is_read(o)).cloned().collect();
                            h.push(class[i].clone());
                            h.push(class[j].clone());
                            report_case("lib", self.init, &h, |x| lib_last_differs(self.init, x), rep);
                        }
                    }
                }
            }
        }
    }
}

impl Spec for LibSpec {
    type M = Arc<Vec<Entry>>;

    fn init(&self) -> Vec<Node<Self::M>> {
        vec![Node { db: lib_init(self.init), model: Arc::new(vec![]), hist: vec![] }]
    }

    fn alphabet(&self, _db: &Database, _m: &Self::M, _h: &[String]) -> Vec<String> {
        self.alphabet.clone()
    }

    fn apply(&self, db: &mut Database, op: &str) -> Out {
        if is_read(op) {
            exec::select(db, op) // the uncached execution on the current database
        } else {
            exec::exec(db, op)
        }
    }

    fn step(&self, _pre: &Database, m: &Self::M, op: &str, post: &Database, out: &Out, hist: &[String], rep: &Report) -> Option<Self::M> {
        let cache = rebuild(m);
        if is_read(op) {
            self.c.reads.fetch_add(1, Ordering::Relaxed);
            let (served, hit, reg) = proto_read(&cache, post, op);
            if hit {
                self.c.hits.fetch_add(1, Ordering::Relaxed);
                let h = QuerySignature::from_sql(op).hash();
                if m.iter().any(|e| QuerySignature::from_sql(&e.text).hash() == h && e.text != op) {
                    self.c.hits_other_text.fetch_add(1, Ordering::Relaxed);
                }
            }
            if let Out::Rows(r) = &served {
                self.outcomes.lock().unwrap().insert(vcore::util::hash64(format!("{:?}", val::bag(r)).as_bytes()));
                let mut ok = self.ok_reads.lock().unwrap();
                if !ok.contains(op) {
                    ok.insert(op.to_string());
                }
            } else {
                self.c.read_errors.fetch_add(1, Ordering::Relaxed);
            }
            if differs(&served, out) {
                self.failing.fetch_add(1, Ordering::Relaxed);
                let h = QuerySignature::from_sql(op).hash();
                let owner = m.iter().find(|e| QuerySignature::from_sql(&e.text).hash() == h);
                let born = owner.map(|e| e.born).unwrap_or(0);
                let mut ws: Vec<String> = hist[born.min(hist.len())..].iter().filter(|o| !is_read(o)).map(|o| label_of(o)).collect();
                ws.sort();
                ws.dedup();
                let key = format!("read|{}|{}|{}", op, owner.map(|e| e.text.as_str()).unwrap_or("-"), ws.join(","));
                if self.seen_cases.lock().unwrap().insert(key) {
                    report_case("lib", self.init, hist, |x| lib_last_differs(self.init, x), rep);
                }
                return None; // the state holds a wrong entry: reported, not expanded
            }
            if let (Some(tables), Out::Rows(rows)) = (reg, &served) {
                self.c.misses_inserted.fetch_add(1, Ordering::Relaxed);
                let mut v: Vec<Entry> = (**m).clone();
                v.push(Entry { text: op.to_string(), rows: rows.clone(), tables, born: hist.len() });
                v.sort_by(|a, b| a.text.cmp(&b.text));
                return Some(Arc::new(v));
            }
            Some(m.clone())
        } else {
            self.c.writes.fetch_add(1, Ordering::Relaxed);
            proto_write(&cache, _pre, op); // the catalog before the statement executes, like the adapter
            let v: Vec<Entry> = m.iter().filter(|e| cache.contains(&QuerySignature::from_sql(&e.text))).cloned().collect();
            self.c.entries_invalidated.fetch_add((m.len() - v.len()) as u64, Ordering::Relaxed);
            self.c.entries_surviving_a_write.fetch_add(v.len() as u64, Ordering::Relaxed);
            let n0 = rep.n_signatures();
            self.pair_check(post, hist, rep);
            let _ = n0;
            Some(Arc::new(v))
        }
    }

    fn model_key(&self, m: &Self::M) -> String {
        let mut s = String::new();
        for e in m.iter() {
            s.push_str(&e.text);
            s.push('\u{2}');
            s.push_str(&format!("{:?}", val::exact_bag(&e.rows)));
            s.push('\u{2}');
            s.push_str(&e.tables.join(","));
            s.push('\u{3}');
        }
        s
    }
}

fn reads_of(groups: &[&str]) -> Vec<String> {
    READS.iter().filter(|(g, _, _)| groups.is_empty() || groups.contains(g)).map(|(_, _, s)| s.to_string()).collect()
}

fn writes_all() -> Vec<String> {
    WRITES.iter().map(|(_, s)| s.to_string()).collect()
}

fn writes_fk() -> Vec<String> {
    FK_WRITES.iter().map(|(_, s)| s.to_string()).collect()
}

fn groups() -> Vec<&'static str> {
    let mut g: Vec<&'static str> = vec![];
    for (x, _, _) in READS {
        if !g.contains(x) {
            g.push(x);
        }
    }
    g
}

#[derive(Default)]
struct Totals {
    states: u64,
    transitions: u64,
    ok: u64,
    err: u64,
    panic: u64,
    capped: bool,
    samples: Vec<Vec<String>>,
    searches: Vec<Value>,
    counters: BTreeMap<&'static str, u64>,
    outcomes: BTreeSet<u64>,
    ok_reads: BTreeSet<String>,
    failing: u64,
}

fn run_lib_search(name: &str, alphabet: Vec<String>, depth: usize, dedup: bool, caps: &Caps, rep: &Report, tot: &mut Totals) {
    run_lib_search_from(0, name, alphabet, depth, dedup, caps, rep, tot)
}

fn run_lib_search_from(init: usize, name: &str, alphabet: Vec<String>, depth: usize, dedup: bool, caps: &Caps, rep: &Report, tot: &mut Totals) {
    if let Ok(f) = std::env::var("CACHEACL_ONLY") {
        // development aid: run only the searches whose name contains the filter
        if !name.contains(&f) {
            return;
        }
    }
    let spec = LibSpec::new(init, alphabet);
    let t0 = std::time::Instant::now();
    let st = histmc::bfs(&spec, depth, dedup, rep, caps);
    let secs = t0.elapsed().as_secs_f64();
    tot.failing += spec.failing.load(Ordering::Relaxed);
    tot.states += st.states;
    tot.transitions += st.transitions;
    tot.ok += st.ok_transitions;
    tot.err += st.err_transitions;
    tot.panic += st.panic_transitions;
    tot.capped |= st.capped || st.depth_completed < depth;
    if tot.samples.len() < 8 {
        // the deepest recorded history of this search
        if let Some(h) = st.samples.iter().max_by_key(|h| h.len()) {
            tot.samples.push(h.clone());
        }
    }
    tot.searches.push(json!({
        "search": name, "init": LIB_INITS[init], "alphabet": spec.alphabet.len(), "depth": depth, "dedup": dedup,
        "depth_completed": st.depth_completed, "states": st.states, "transitions": st.transitions,
        "states_per_depth": st.per_depth_states, "capped": st.capped,
        "signature_classes_with_several_texts": spec.classes.len(), "wall_s": (secs * 10.0).round() / 10.0,
    }));
    eprintln!("  lib search {:<40} depth {} states {:>8} transitions {:>9} {:.1}s", name, depth, st.states, st.transitions, secs);
    let c = &spec.c;
    for (k, v) in [
        ("reads", &c.reads),
        ("hits", &c.hits),
        ("hits_served_from_an_entry_of_another_text", &c.hits_other_text),
        ("misses_inserted", &c.misses_inserted),
        ("read_errors", &c.read_errors),
        ("writes", &c.writes),
        ("entries_invalidated_by_writes", &c.entries_invalidated),
        ("entries_surviving_a_write", &c.entries_surviving_a_write),
        ("equal_signature_class_checks", &c.pair_checks),
    ] {
        *tot.counters.entry(k).or_default() += v.load(Ordering::Relaxed);
    }
    tot.outcomes.extend(spec.outcomes.lock().unwrap().iter().cloned());
    tot.ok_reads.extend(spec.ok_reads.lock().unwrap().iter().cloned());
}

// ------------------------------------------------------------------------------------------------
// adapter driver
// ------------------------------------------------------------------------------------------------

mod adapter {
    use super::*;
    use crate::slt::db_adapter::VibeSqlDB;
    use sqllogictest::{AsyncDB, DBOutput};

    #[derive(Debug, Clone, PartialEq)]
    pub enum AOut {
        Rows(Vec<Vec<String>>),
        Done(u64),
        Err(String),
    }

    impl AOut {
        pub fn brief(&self) -> String {
            match self {
                AOut::Rows(r) => format!("rows{:?}", r),
                AOut::Done(n) => format!("ok({})", n),
                AOut::Err(e) => format!("err: {}", vcore::util::trunc(e, 120)),
            }
        }
    }

    static ENV_LOCK: Mutex<()> = Mutex::new(());

    pub fn own_environment() {
        for k in ["SQLLOGICTEST_VERBOSE", "SQLLOGICTEST_WORKER_ID", "SQLLOGICTEST_PROFILE", "SQLLOGICTEST_QUERY_TIMEOUT_MS", "SQLLOGICTEST_CACHE_SIZE", "SQLLOGICTEST_LOG_QUERY_INTERVAL"] {
            std::env::remove_var(k);
        }
        std::env::set_var("SQLLOGICTEST_TIMING", "0");
        std::env::set_var("SQLLOGICTEST_QUERY_TIMEOUT_MS", "600000");
    }

    /// (adapter with the cache, adapter without): the environment is read by `VibeSqlDB::new`.
    fn twins(batching: bool) -> (VibeSqlDB, VibeSqlDB) {
        let _g = ENV_LOCK.lock().unwrap();
        std::env::set_var("SQLLOGICTEST_INSERT_BATCHING", if batching { "1" } else { "0" });
        std::env::set_var("SQLLOGICTEST_CACHE_ENABLED", "1");
        let a = VibeSqlDB::new();
        std::env::set_var("SQLLOGICTEST_CACHE_ENABLED", "0");
        let b = VibeSqlDB::new();
        (a, b)
    }

    fn run_one(rt: &tokio::runtime::Runtime, db: &mut VibeSqlDB, sql: &str) -> AOut {
        match catch_unwind(AssertUnwindSafe(|| rt.block_on(db.run(sql)))) {
            Ok(Ok(DBOutput::Rows { rows, .. })) => {
                let mut r = rows;
                r.sort();
                AOut::Rows(r)
            }
            Ok(Ok(DBOutput::StatementComplete(n))) => AOut::Done(n),
            Ok(Ok(_)) => AOut::Err("unknown DBOutput variant".into()),
            Ok(Err(e)) => AOut::Err(format!("{}", e)),
            Err(p) => AOut::Err(format!("PANIC {}", exec::panic_msg(p))),
        }
    }

    pub fn differs(cached: &AOut, plain: &AOut) -> bool {
        match (cached, plain) {
            (AOut::Rows(a), AOut::Rows(b)) => a != b,
            (AOut::Rows(_), AOut::Err(_)) | (AOut::Err(_), AOut::Rows(_)) => true,
            _ => false,
        }
    }

    /// Runs prelude + history on both twins (fresh thread: the adapter pools its Database in a
    /// thread-local and would hand a recycled one to the next instance). Returns per history step
    /// (with cache, without cache).
    pub fn run(batching: bool, init: &[&str], hist: &[String]) -> Vec<(AOut, AOut)> {
        common::on_fresh_thread(|| {
            let rt = tokio::runtime::Builder::new_current_thread().enable_time().build().expect("tokio runtime");
            let (mut a, mut b) = twins(batching);
            for s in init {
                let x = run_one(&rt, &mut a, s);
                let y = run_one(&rt, &mut b, s);
                if matches!(x, AOut::Err(_)) || matches!(y, AOut::Err(_)) {
                    panic!("adapter prelude statement failed: {} => {:?} / {:?}", s, x, y);
                }
            }
            let mut out = vec![];
            for s in hist {
                let x = run_one(&rt, &mut a, s);
                let y = run_one(&rt, &mut b, s);
                out.push((x, y));
            }
            out
        })
    }
}

const ADAPTER_INITS: &[(&str, &[&str])] =
    &[("plain", &[]), ("in-transaction", &["BEGIN"]), ("in-transaction-after-a-write", &["BEGIN", "INSERT INTO u VALUES (9, 90)"])];

fn adapter_init(idx: usize) -> Vec<&'static str> {
    let mut v: Vec<&'static str> = PRELUDE.to_vec();
    v.extend(ADAPTER_INITS[idx].1.iter());
    v
}

/// Adapter driver: does the last step (a read) differ between the twin with and without cache?
/// `Err` = the twins disagree on a *write* (machinery problem: the cache must not influence writes).
fn adapter_last_differs(batching: bool, init: usize, hist: &[String]) -> Result<Option<String>, String> {
    let obs = adapter::run(batching, &adapter_init(init), hist);
    for (i, (x, y)) in obs.iter().enumerate() {
        if !is_read(&hist[i]) && x != y {
            let both_err = matches!(x, adapter::AOut::Err(_)) && matches!(y, adapter::AOut::Err(_));
            if !both_err {
                return Err(format!("twins disagree on `{}`: {} vs {}", hist[i], x.brief(), y.brief()));
            }
        }
    }
    let Some((x, y)) = obs.last() else { return Ok(None) };
    let last = hist.last().unwrap();
    if is_read(last) && adapter::differs(x, y) {
        Ok(Some(format!("`{}` served {} by the adapter with its result cache, {} by the same adapter with the cache disabled", last, x.brief(), y.brief())))
    } else {
        Ok(None)
    }
}

struct AdapterStats {
    histories: u64,
    statements_executed: u64,
    failing: u64,
    per_depth: Vec<u64>,
    samples: Vec<Vec<String>>,
}

/// Plain tree of histories (the adapter's state cannot be cloned): every history of length
/// <= `full_depth` that ends in a read; for lengths up to `focus_depth` every history that ends in
/// a read and contains an earlier read with the same `QuerySignature` (a read without such a
/// predecessor can only be a miss). Every history is run from scratch on both twins.
fn run_adapter_search(alphabet: &[String], full_depth: usize, focus_depth: usize, batching: bool, init: usize, rep: &Report) -> AdapterStats {
    let mut st = AdapterStats { histories: 0, statements_executed: 0, failing: 0, per_depth: vec![], samples: vec![] };
    let seen: Mutex<BTreeSet<String>> = Mutex::new(BTreeSet::new());
    let n = alphabet.len();
    let reads: Vec<bool> = alphabet.iter().map(|o| is_read(o)).collect();
    let sigs: Vec<u64> = alphabet.iter().map(|o| if is_read(o) { QuerySignature::from_sql(o).hash() } else { 0 }).collect();
    let init_len = adapter_init(init).len() as u64;
    for d in 1..=focus_depth.max(full_depth) {
        let mut cand: Vec<Vec<u16>> = vec![];
        let mut idx = vec![0usize; d];
        'outer: loop {
            let last = idx[d - 1];
            if reads[last] && (d <= full_depth || idx[..d - 1].iter().any(|i| reads[*i] && sigs[*i] == sigs[last])) {
                cand.push(idx.iter().map(|i| *i as u16).collect());
            }
            let mut k = d;
            loop {
                if k == 0 {
                    break 'outer;
                }
                k -= 1;
                idx[k] += 1;
                if idx[k] < n {
                    break;
                }
                idx[k] = 0;
            }
        }
        let res: Vec<bool> = vcore::util::par_map(&cand, |_, h| {
            let hist: Vec<String> = h.iter().map(|i| alphabet[*i as usize].clone()).collect();
            match adapter_last_differs(batching, init, &hist) {
                Ok(None) => false,
                Ok(Some(_)) => {
                    let mut ls: Vec<String> = hist.iter().map(|o| label_of(o)).collect();
                    ls.sort();
                    ls.dedup();
                    let key = format!("{}|{}", label_of(hist.last().unwrap()), ls.join(","));
                    if seen.lock().unwrap().insert(key) {
                        report_case(
                            if batching { "adapter" } else { "adapter-nobatch" },
                            init,
                            &hist,
                            |h| adapter_last_differs(batching, init, h).ok().flatten(),
                            rep,
                        );
                    }
                    true
                }
                Err(e) => {
                    rep.machinery_error(format!("C25 adapter: {} in {:?}", e, hist));
                    false
                }
            }
        });
        st.histories += cand.len() as u64;
        st.statements_executed += cand.len() as u64 * 2 * (d as u64 + init_len);
        st.failing += res.iter().filter(|x| **x).count() as u64;
        st.per_depth.push(cand.len() as u64);
        if let Some(h) = cand.last() {
            if st.samples.len() < 2 {
                st.samples.push(h.iter().map(|i| alphabet[*i as usize].clone()).collect());
            }
        }
    }
    st
}

// ------------------------------------------------------------------------------------------------
// entry points
// ------------------------------------------------------------------------------------------------

pub fn run(tier: &str) -> i32 {
    let mut rep = Report::new("C25", tier, "model_checking");
    let thorough = tier == "thorough";
    adapter::own_environment();

    // ---- lib driver
    let mut tot = Totals::default();
    // bounds are fixed by design, not by the clock (the time cap is a safety net and is reported)
    let (d_full, d_slice, d_guard) = if thorough { (0, 5, 2) } else { (0, 3, 2) };
    let caps = Caps { max_states: 4_000_000, max_secs: if thorough { 1500.0 } else { 600.0 } };
    // stateless guard first (plain tree, no dedup)
    let mut full: Vec<String> = reads_of(&[]);
    full.extend(writes_all());
    full.extend(writes_fk());
    if thorough {
        run_lib_search("guard:all-reads+all-writes (no dedup)", full.clone(), d_guard, false, &caps, &rep, &mut tot);
    } else {
        // quick: two reads per group (the first and the last) and all writes
        let mut g: Vec<String> = vec![];
        for grp in groups() {
            let r = reads_of(&[grp]);
            g.push(r[0].clone());
            if r.len() > 1 {
                g.push(r[r.len() - 1].clone());
            }
        }
        g.extend(writes_all());
        g.extend(writes_fk());
        run_lib_search("guard:two-reads-per-group+all-writes (no dedup)", g, d_guard, false, &caps, &rep, &mut tot);
    }
    if d_full > 0 {
        run_lib_search("full:all-reads+all-writes", full, d_full, true, &caps, &rep, &mut tot);
    }
    for g in groups() {
        let mut a = reads_of(&[g]);
        if g == "fk" {
            a.extend(writes_fk());
        } else if thorough {
            a.extend(writes_all());
        } else {
            // quick: the writes on the tables the slice's texts read
            let scope: &[&str] = match g {
                "lit" | "litws" | "num" | "comment" => &[":t"],
                "sellit" | "qident" => &[":q", ":t"],
                _ => &[":u", ":v"],
            };
            a.extend(WRITES.iter().filter(|(l, _)| scope.iter().any(|x| l.ends_with(x))).map(|(_, s)| s.to_string()));
        }
        run_lib_search(&format!("slice:{}+writes", g), a, d_slice + if g == "fk" { 1 } else { 0 }, true, &caps, &rep, &mut tot);
    }
    {
        // a table written by a trigger of the statement's target
        let mut a: Vec<String> = READS.iter().filter(|(_, l, _)| ["qid-k", "sel-x", "lit-a"].contains(l)).map(|(_, _, s)| s.to_string()).collect();
        a.extend(WRITES.iter().filter(|(l, _)| ["insert:t", "update:t", "insert:q", "insert-select:t"].contains(l)).map(|(_, s)| s.to_string()));
        run_lib_search_from(1, "slice:trigger(t writes q)", a, d_slice + 1, true, &caps, &rep, &mut tot);
    }
    let never_ok: Vec<String> = READS.iter().filter(|(_, _, s)| !tot.ok_reads.contains(*s)).map(|(_, l, _)| l.to_string()).collect();

    // ---- adapter driver
    let mut aalpha: Vec<String> = vec![];
    let adapter_reads: &[&str] = if thorough {
        &["lit-a", "lit-A", "lit-a-kwcase", "qid-k", "qid-K", "comment-newline", "comment-space", "scan", "star", "qualified", "join", "derived", "union-right", "cte", "view", "in-subquery", "exists", "scalar-select-list", "scalar-binop", "having", "fk-child"]
    } else {
        &["lit-a", "lit-A", "qid-k", "qid-K", "star", "join", "union-right", "cte", "view", "in-subquery", "scalar-select-list", "fk-child"]
    };
    for (_, l, s) in READS {
        if adapter_reads.contains(l) {
            aalpha.push(s.to_string());
        }
    }
    let adapter_writes: &[&str] = if thorough {
        &["insert:t", "update:t", "insert:u", "update:u", "delete:u", "truncate:u", "drop:u", "create:u", "insert:q", "drop-view:v", "create-view:v"]
    } else {
        &["insert:t", "insert:u", "update:u", "delete:u", "drop:u", "create:u", "drop-view:v", "create-view:v"]
    };
    for (l, s) in WRITES {
        if adapter_writes.contains(l) {
            aalpha.push(s.to_string());
        }
    }
    for (_, s) in ADAPTER_EXTRA_WRITES {
        aalpha.push(s.to_string());
    }
    for (l, s) in FK_WRITES {
        if ["delete-parent:p", "update-parent-key:p"].contains(l) {
            aalpha.push(s.to_string());
        }
    }
    // both tiers: every history of <= 2 statements, and every history of 3 statements that ends in a
    // read and contains an earlier read with the same signature; thorough has the larger alphabet
    // and all five (insert batching, initial state) configurations
    let (a_full, a_focus) = (2, 3);
    let mut a_searches = vec![];
    let mut a_hist = 0u64;
    let mut a_steps = 0u64;
    let mut a_failing = 0u64;
    let a_capped = false;
    let mut a_samples: Vec<Vec<String>> = vec![];
    // (insert batching, initial state, full depth, focused depth)
    let configs: Vec<(bool, usize, usize, usize)> = if thorough {
        vec![(true, 0, a_full, a_focus), (true, 2, a_full, a_focus), (true, 1, a_full, a_focus), (false, 0, a_full, a_focus), (false, 2, a_full, a_focus)]
    } else {
        vec![(true, 0, a_full, a_focus), (true, 2, a_full, a_focus)]
    };
    for (batching, init, a_full, a_focus) in configs {
        let t0 = std::time::Instant::now();
        let st = run_adapter_search(&aalpha, a_full, a_focus, batching, init, &rep);
        eprintln!(
            "  adapter search batching={} init={} full depth {} focused depth {} histories {} {:.1}s",
            batching, ADAPTER_INITS[init].0, a_full, a_focus, st.histories, t0.elapsed().as_secs_f64()
        );
        a_hist += st.histories;
        a_steps += st.statements_executed;
        a_failing += st.failing;
        a_samples.extend(st.samples.iter().take(1).cloned());
        a_searches.push(json!({
            "insert_batching": batching, "init": ADAPTER_INITS[init].0, "alphabet": aalpha.len(),
            "all_histories_ending_in_a_read_up_to_depth": a_full, "histories_with_an_earlier_equal_signature_read_up_to_depth": a_focus,
            "histories_executed_on_both_twins": st.histories, "per_depth": st.per_depth, "statements_executed": st.statements_executed,
            "failing": st.failing,
        }));
    }
    let a_reads = a_hist;

    // ---- evidence
    rep.set("states", json!(tot.states));
    rep.set("transitions", json!(tot.transitions));
    rep.set("traces_validated_against_impl", json!(tot.transitions + a_reads));
    rep.set("transition_outcomes", json!({"ok": tot.ok, "err": tot.err, "panic": tot.panic}));
    rep.set("lib_searches", json!(tot.searches));
    rep.set("lib_protocol_counters", json!(tot.counters));
    rep.set("distinct_read_results", json!(tot.outcomes.len()));
    rep.set("lib_failing_cases_observed", json!(tot.failing));
    rep.set("reads_that_never_executed_ok", json!(never_ok));
    rep.set("adapter_searches", json!(a_searches));
    rep.set("adapter_histories", json!(a_hist));
    rep.set("adapter_statements_executed", json!(a_steps));
    rep.set("adapter_reads_checked", json!(a_reads));
    rep.set("adapter_failing_cases_observed", json!(a_failing));
    rep.set("alphabet_reads", json!(READS.len()));
    rep.set("alphabet_writes", json!(WRITES.len() + FK_WRITES.len()));
    rep.set("exhaustive", json!(!tot.capped && !a_capped));
    let mut samples = tot.samples.clone();
    samples.extend(a_samples);
    rep.set("samples", json!(samples));
    let mut vac: Vec<String> = vec![];
    for k in ["hits", "hits_served_from_an_entry_of_another_text", "entries_invalidated_by_writes", "entries_surviving_a_write"] {
        if tot.counters.get(k).copied().unwrap_or(0) == 0 {
            vac.push(k.to_string());
        }
    }
    rep.set("vacuous_mechanisms", json!(vac));
    rep.set(
        "rule",
        json!("lib driver: BFS over all histories of reads and writes on (real Database, real QueryResultCache contents), states merged on Database fingerprint + cache entries; at every read the served bag must equal the uncached execution on the current database, after every write all alphabet texts with equal QuerySignature must have equal uncached results. adapter driver: every history (plain tree) is run through tests/sqllogictest/db_adapter.rs twice, with and without its cache; every read must agree"),
    );
    rep.assume("the adapter's Database is private: adapter histories are explored by replay without state merging");
    rep.assume("SET SCHEMA / session state changes are not part of the alphabet (the property quantifies over reads and writes)");
    println!(
        "C25 lib: states={} transitions={} (ok={} err={}) distinct_read_results={} counters={:?}",
        tot.states, tot.transitions, tot.ok, tot.err, tot.outcomes.len(), tot.counters
    );
    println!("C25 lib: reads that never executed ok: {:?}", never_ok);
    println!("C25 adapter: histories={} reads_checked_on_both_twins={} statements={}", a_hist, a_reads, a_steps);
    rep.finish()
}

pub fn replay(case: &Value) -> i32 {
    adapter::own_environment();
    let driver = case["driver"].as_str().unwrap_or("lib");
    let steps: Vec<String> = case["steps"].as_array().map(|a| a.iter().filter_map(|x| x.as_str().map(|s| s.to_string())).collect()).unwrap_or_default();
    println!("driver: {}", driver);
    for s in PRELUDE {
        println!("prelude: {}", s);
    }
    if driver == "lib" {
        let init = case["init"].as_u64().unwrap_or(0) as usize;
        println!("initial state: {}", LIB_INITS[init.min(LIB_INITS.len() - 1)]);
        let mut r = LibRun::new(init.min(LIB_INITS.len() - 1));
        for op in &steps {
            let o = r.step(op);
            match &o.served {
                Some(s) => println!(
                    "{}\n   served   => {}{}\n   uncached => {}{}",
                    op,
                    s.brief(),
                    if o.hit { format!("  [hit{}]", o.hit_owner.as_ref().filter(|t| *t != op).map(|t| format!(" on the entry of `{}`", t)).unwrap_or_default()) } else { "  [miss]".into() },
                    o.uncached.brief(),
                    if differs(s, &o.uncached) { "   <-- DIFFERS" } else { "" }
                ),
                None => println!("{}\n   => {}", op, o.uncached.brief()),
            }
        }
    } else {
        let batching = driver != "adapter-nobatch";
        let init = case["init"].as_u64().unwrap_or(0) as usize;
        let obs = adapter::run(batching, &adapter_init(init.min(ADAPTER_INITS.len() - 1)), &steps);
        for (op, (x, y)) in steps.iter().zip(obs.iter()) {
            println!(
                "{}\n   with cache    => {}\n   without cache => {}{}",
                op,
                x.brief(),
                y.brief(),
                if is_read(op) && adapter::differs(x, y) { "   <-- DIFFERS" } else { "" }
            );
        }
    }
    0
}
