//! The repository's own sqllogictest adapter (`tests/sqllogictest/*.rs`), compiled in from the
//! current working tree by `#[path]` inclusion. Nothing here is the harness' code: the modules are
//! the files the repository's `tests/compliance/sqllogictest_suite.rs` includes as `mod sqllogictest`.
#![allow(dead_code, unused_imports, unused_variables)]

#[path = "/repo/tests/sqllogictest/db_adapter.rs"]
pub mod db_adapter;
#[path = "/repo/tests/sqllogictest/execution.rs"]
pub mod execution;
#[path = "/repo/tests/sqllogictest/formatting.rs"]
pub mod formatting;
#[path = "/repo/tests/sqllogictest/preprocessing.rs"]
pub mod preprocessing;
#[path = "/repo/tests/sqllogictest/scheduler.rs"]
pub mod scheduler;
#[path = "/repo/tests/sqllogictest/stats.rs"]
pub mod stats;
