//! `cacheaclcheck` — checks C25, C26.
//!   cacheaclcheck check <ID> <quick|thorough>
//!   cacheaclcheck replay <path>

mod c25;
mod c26;
mod common;
mod slt;

// Every SelectExecutor allocates a zeroed 10 MiB arena per query; pool those blocks (see vcore::bigalloc)
#[global_allocator]
static GLOBAL: vcore::bigalloc::ArenaCache = vcore::bigalloc::ArenaCache;

fn usage() -> ! {
    eprintln!("usage: cacheaclcheck check <C25|C26> <quick|thorough> | cacheaclcheck replay <path>");
    std::process::exit(2)
}

fn replay(path: &str) -> i32 {
    let text = match std::fs::read_to_string(path) {
        Ok(t) => t,
        Err(e) => {
            eprintln!("cannot read {}: {}", path, e);
            return 2;
        }
    };
    let v: serde_json::Value = match serde_json::from_str(&text) {
        Ok(v) => v,
        Err(e) => {
            eprintln!("bad replay file: {}", e);
            return 2;
        }
    };
    println!("property: {}", v["property"].as_str().unwrap_or("?"));
    println!("signature: {}", v["signature"]);
    println!("recorded: {}", v["what"].as_str().unwrap_or(""));
    println!("-- re-execution");
    match v["property"].as_str() {
        Some("C25") => c25::replay(&v["case"]),
        Some("C26") => c26::replay(&v["case"]),
        _ => {
            eprintln!("not a replay file of this package");
            2
        }
    }
}

fn main() {
    let args: Vec<String> = std::env::args().collect();
    if args.len() < 2 {
        usage();
    }
    if std::env::var("PARALLEL_THRESHOLD").is_err() {
        std::env::set_var("PARALLEL_THRESHOLD", "max");
    }
    vcore::exec::silence_panics();
    let code = match args[1].as_str() {
        "check" if args.len() >= 4 => match args[2].as_str() {
            "C25" => c25::run(&args[3]),
            "C26" => c26::run(&args[3]),
            other => {
                eprintln!("cacheaclcheck does not implement {}", other);
                2
            }
        },
        "replay" if args.len() >= 3 => replay(&args[2]),
        // development aid: execute statements, `#SECURITY` enables security, `#ROLE x` switches role
        "sql" => {
            let mut db = vibesql_storage::Database::new();
            vibesql_types::verif::reset();
            for s in &args[2..] {
                if s == "#SECURITY" {
                    db.enable_security();
                } else if let Some(r) = s.strip_prefix("#ROLE ") {
                    db.set_role(Some(r.to_string()));
                } else {
                    let before: std::collections::BTreeMap<_, _> = vibesql_types::verif::snapshot().into_iter().collect();
                    let o = vcore::exec::exec(&mut db, s);
                    let after = vibesql_types::verif::snapshot();
                    let d: Vec<String> = after.into_iter().filter(|(k, v)| *v > *before.get(k).unwrap_or(&0)).map(|(k, _)| k.to_string()).collect();
                    println!("{}\n   => {}   reach: {:?}", s, o.brief(), d);
                }
            }
            0
        }
        _ => usage(),
    };
    std::process::exit(code);
}
