//! C01 — SELECT results agree with reference SQL semantics on the common subset (DESIGN §5 C01).
//!
//! Small-scope exhaustive enumeration: every database of a family's database space × every program of
//! the family, vibesql (real parser + SelectExecutor) against bundled SQLite on the same data.
//! The (database, program) grid is sharded over worker processes (see `shard.rs`); the parent merges
//! their counters, re-executes every failing case from scratch and decides.

use std::collections::{BTreeMap, HashMap, HashSet};
use std::time::Instant;

use rusqlite::Connection;
use serde_json::{json, Value};

use crate::dbs::{self, Db};
use crate::fam::{self, Family};
use crate::oracle::{self, Flat, Verdict};
use crate::q::{self, Q};
use crate::shard;
use vcore::report::Report;

pub struct Prog {
    pub q: Q,
    pub flat: Flat,
    pub stmt: Option<vibesql_ast::SelectStmt>,
    pub parse_err: Option<String>,
}

pub fn schema_conn() -> Connection {
    let c = Connection::open_in_memory().expect("sqlite open");
    for s in dbs::SCHEMA {
        c.execute_batch(s).expect("sqlite schema");
    }
    c
}

/// Programs of a family, flattened and parsed once. Errors = family bugs (machinery), returned as text.
fn prepare(f: &Family) -> (Vec<Prog>, Vec<String>) {
    let schema = schema_conn();
    let mut out = vec![];
    let mut errs = vec![];
    let mut seen = HashSet::new();
    for q in &f.progs {
        let flat = match Flat::build(q, &schema) {
            Ok(x) => x,
            Err(e) => {
                errs.push(format!("family {}: {}", f.name, e));
                continue;
            }
        };
        if !seen.insert(flat.vibe.clone()) {
            continue; // the same text generated twice by overlapping menus
        }
        let (stmt, parse_err) = match vcore::exec::parse(&flat.vibe) {
            Ok(vibesql_ast::Statement::Select(s)) => (Some(*s), None),
            Ok(_) => (None, Some("not parsed as SELECT".to_string())),
            Err(e) => (None, Some(e)),
        };
        out.push(Prog { q: q.clone(), flat, stmt, parse_err });
    }
    (out, errs)
}

fn families(tier: &str) -> Vec<Family> {
    let only: Option<Vec<String>> = std::env::var("VERIF_C01_FAMILIES").ok().map(|s| s.split(',').map(|x| x.to_string()).collect());
    fam::all(tier == "thorough").into_iter().filter(|f| only.as_ref().map(|o| o.iter().any(|x| x == f.name)).unwrap_or(true)).collect()
}

fn budget(tier: &str) -> f64 {
    std::env::var("VERIF_C01_BUDGET_S").ok().and_then(|s| s.parse().ok()).unwrap_or(if tier == "thorough" { 1200.0 } else { 300.0 })
}

// ------------------------------------------------------------------------------------------------
// worker

#[derive(Default)]
struct Acc {
    dbs_done: u64,
    cases: u64,
    agree: u64,
    agree_seq: u64,
    nonempty: u64,
    vibe_err: u64,
    vibe_panic: u64,
    skip_ties: u64,
    classes: [u64; 3],
    outcomes: Vec<u64>,
    /// (db index, program index, kind, expected, got)
    bad: Vec<(usize, usize, String, String, String)>,
    ref_err: Vec<String>,
    /// program index -> (databases on which vibesql failed, first message)
    prog_err: BTreeMap<usize, (u64, String)>,
}

fn run_db(db_idx: usize, db: &Db, progs: &[Prog], o: &mut Acc) {
    let vdb = dbs::vibe_db(db);
    let mut vibe = oracle::Vibe::new(&vdb);
    let (n, d, e) = db.class();
    o.dbs_done += 1;
    o.classes[0] += n as u64;
    o.classes[1] += d as u64;
    o.classes[2] += e as u64;
    dbs::with_lite(db, |c| {
        for (i, p) in progs.iter().enumerate() {
            let Some(stmt) = &p.stmt else { continue };
            let r = oracle::run_case(&p.flat, stmt, &mut vibe, c);
            o.cases += 1;
            o.outcomes.push(vcore::util::hash64(&[&(i as u64).to_le_bytes()[..], &r.outcome.to_le_bytes()[..]].concat()));
            if r.nonempty {
                o.nonempty += 1;
            }
            match r.verdict {
                Verdict::Agree { seq } => {
                    o.agree += 1;
                    if seq {
                        o.agree_seq += 1;
                    }
                }
                Verdict::Mismatch { kind, expected, got } => o.bad.push((db_idx, i, kind.to_string(), expected, got)),
                Verdict::VibeErr(m) => {
                    o.vibe_err += 1;
                    o.prog_err.entry(i).or_insert((0, m)).0 += 1;
                }
                Verdict::VibePanic(m) => {
                    o.vibe_panic += 1;
                    o.prog_err.entry(i).or_insert((0, format!("PANIC {}", m))).0 += 1;
                }
                Verdict::SkipTies => o.skip_ties += 1,
                Verdict::RefErr(e) => {
                    if o.ref_err.len() < 3 {
                        o.ref_err.push(e)
                    }
                }
            }
        }
    });
}

/// `sqlspacecheck shard C01 <tier> <i> <k>`: databases with index ≡ i (mod k) of every family.
pub fn shard_main(tier: &str, i: usize, k: usize) -> i32 {
    let start = Instant::now();
    let budget_s = budget(tier);
    let _ = q::probe_null_placement();
    let mut fams_out = vec![];
    for f in families(tier) {
        let (progs, errs) = prepare(&f);
        let dbsv = f.dbs.all();
        let mut acc = Acc::default();
        let mut assigned = 0u64;
        for (idx, db) in dbsv.iter().enumerate() {
            if idx % k != i {
                continue;
            }
            assigned += 1;
            if start.elapsed().as_secs_f64() > budget_s {
                continue;
            }
            run_db(idx, db, &progs, &mut acc);
        }
        // a failing program fails on many databases: keep the smallest witnesses only
        let mut per_prog: HashMap<(usize, String), usize> = HashMap::new();
        let total_bad = acc.bad.len();
        acc.bad.retain(|(_, p, kind, _, _)| {
            let c = per_prog.entry((*p, kind.clone())).or_insert(0);
            *c += 1;
            *c <= 2
        });
        fams_out.push(json!({
            "family": f.name, "prepare_errors": errs, "assigned": assigned, "dbs_done": acc.dbs_done, "cases": acc.cases, "agree": acc.agree,
            "agree_seq": acc.agree_seq, "nonempty": acc.nonempty, "vibe_err": acc.vibe_err, "vibe_panic": acc.vibe_panic, "skip_ties": acc.skip_ties,
            "classes": acc.classes, "outcomes": acc.outcomes, "bad": acc.bad, "bad_total": total_bad, "ref_err": acc.ref_err,
            "prog_err": acc.prog_err.iter().map(|(p, (n, m))| json!([p, n, m])).collect::<Vec<_>>(),
        }));
    }
    let snap: BTreeMap<String, u64> = vibesql_types::verif::snapshot().into_iter().filter(|(_, v)| *v > 0).map(|(k, v)| (k.to_string(), v)).collect();
    println!("{}", json!({"families": fams_out, "reach": snap}));
    0
}

// ------------------------------------------------------------------------------------------------
// parent

fn case_json(family: &str, db: &Db, p: &Prog) -> Value {
    json!({"family": family, "db": db.statements(), "program": p.flat.json()})
}

fn u(v: &Value) -> u64 {
    v.as_u64().unwrap_or(0)
}

pub fn run(tier: &str) -> i32 {
    let mut rep = Report::new("C01", tier, "model_checking");
    let start = Instant::now();
    match q::probe_null_placement() {
        Ok((a, d)) => rep.set("null_placement_probed", json!({"asc_nulls_last": a, "desc_nulls_last": d})),
        Err(e) => {
            // a plain ORDER BY that loses or misplaces rows: keep the defaults, the SORT family will report it
            rep.set("null_placement_probed", json!({"failed": e}));
        }
    }
    let k = shard::n_shards();
    let docs = match shard::run_shards("C01", tier, k) {
        Ok(d) => d,
        Err(e) => {
            rep.machinery_error(format!("worker processes: {}", e));
            rep.set("exhaustive", json!(false));
            rep.set("states", json!(0));
            rep.set("transitions", json!(0));
            rep.set("samples", json!([]));
            return rep.finish();
        }
    };
    let explore_s = start.elapsed().as_secs_f64();

    let fams = families(tier);
    let mut fam_cov = vec![];
    let (mut total_cases, mut total_dbs, mut total_progs, mut nonempty_total, mut err_total, mut panic_total) = (0u64, 0u64, 0u64, 0u64, 0u64, 0u64);
    let mut all_outcomes: HashSet<u64> = HashSet::new();
    let mut samples: Vec<Value> = vec![];
    let mut exhaustive = true;
    let mut rejected_programs: Vec<Value> = vec![];
    let mut confirmed: HashMap<String, bool> = Default::default();
    let mut reach: BTreeMap<String, u64> = BTreeMap::new();
    for d in &docs {
        if let Some(m) = d["reach"].as_object() {
            for (k, v) in m {
                *reach.entry(k.clone()).or_insert(0) += u(v);
            }
        }
    }

    for (fi, f) in fams.iter().enumerate() {
        let (progs, errs) = prepare(f);
        for e in errs {
            rep.machinery_error(e);
        }
        let dbsv = f.dbs.all();
        let n_parse_rej = progs.iter().filter(|p| p.stmt.is_none()).count();
        for p in progs.iter().filter(|p| p.stmt.is_none()).take(5) {
            rejected_programs.push(json!({"family": f.name, "sql": p.flat.vibe, "error": vcore::util::trunc(p.parse_err.as_deref().unwrap_or(""), 120)}));
        }
        let mut c = [0u64; 8]; // dbs_done cases agree agree_seq nonempty vibe_err vibe_panic skip_ties
        let mut classes = [0u64; 3];
        let mut bad: Vec<(usize, usize, String, String, String)> = vec![];
        let mut bad_total = 0u64;
        let mut prog_err: BTreeMap<usize, (u64, String)> = BTreeMap::new();
        for d in &docs {
            let x = &d["families"][fi];
            if x["family"].as_str() != Some(f.name) {
                rep.machinery_error(format!("worker document out of step at family {}", f.name));
                continue;
            }
            for (slot, key) in ["dbs_done", "cases", "agree", "agree_seq", "nonempty", "vibe_err", "vibe_panic", "skip_ties"].iter().enumerate() {
                c[slot] += u(&x[*key]);
            }
            for j in 0..3 {
                classes[j] += u(&x["classes"][j]);
            }
            if u(&x["dbs_done"]) < u(&x["assigned"]) {
                exhaustive = false;
            }
            bad_total += u(&x["bad_total"]);
            if let Some(a) = x["outcomes"].as_array() {
                all_outcomes.extend(a.iter().map(u));
            }
            for e in x["ref_err"].as_array().map(|a| a.as_slice()).unwrap_or(&[]) {
                rep.machinery_error(format!("family {}: reference failure: {}", f.name, vcore::util::trunc(e.as_str().unwrap_or(""), 400)));
            }
            for b in x["bad"].as_array().map(|a| a.as_slice()).unwrap_or(&[]) {
                bad.push((u(&b[0]) as usize, u(&b[1]) as usize, b[2].as_str().unwrap_or("").to_string(), b[3].as_str().unwrap_or("").to_string(), b[4].as_str().unwrap_or("").to_string()));
            }
            for e in x["prog_err"].as_array().map(|a| a.as_slice()).unwrap_or(&[]) {
                let ent = prog_err.entry(u(&e[0]) as usize).or_insert((0, e[2].as_str().unwrap_or("").to_string()));
                ent.0 += u(&e[1]);
            }
        }
        // smallest database first, then simplest program first: the first witness of a signature is minimal
        bad.sort_by_key(|(d, p, ..)| (*d, *p));
        let extra_failing = bad_total.saturating_sub(bad.len() as u64);
        for (di, pi, kind, expected, got) in &bad {
            let (Some(db), Some(p)) = (dbsv.get(*di), progs.get(*pi)) else {
                rep.machinery_error(format!("family {}: worker reported an unknown case ({}, {})", f.name, di, pi));
                continue;
            };
            let mut sig = q::signature(f.name, &p.q);
            sig.push(("kind", kind.clone()));
            let local_key = format!("{:?}", sig);
            if let Some(stab) = confirmed.get(&local_key) {
                // same signature already confirmed on a smaller database: only counted
                if *stab {
                    sig.push(("stability", "varies_between_runs".to_string()));
                }
                rep.violation(&sig, String::new(), Value::Null);
                continue;
            }
            // R3: re-execute from scratch (fresh engines, fresh parse) before reporting. The reference
            // side must answer identically every time. vibesql's hash maps are randomly seeded, so a
            // wrong answer may come and go between runs: it is reported when the same kind of
            // mismatch reproduces in at least two fresh re-executions, otherwise it is a machinery error.
            let stmts = db.statements();
            let mut repro = 0;
            let mut tries = 0;
            let mut refs: Vec<String> = vec![];
            let mut seen: Vec<Verdict> = vec![];
            while tries < 12 && repro < 2 {
                tries += 1;
                let (vx, rx, _) = oracle::rerun(&stmts, &p.flat);
                if matches!(&vx, Verdict::Mismatch { kind: k, .. } if k == kind) {
                    repro += 1;
                }
                refs.push(rx);
                seen.push(vx);
            }
            refs.dedup();
            if repro < 2 || refs.len() != 1 {
                rep.machinery_error(format!(
                    "family {}: `{}` on {:?}: {} mismatch (expected {}, got {}) not reproducible in {} fresh re-executions ({:?}; reference answers {:?})",
                    f.name,
                    p.flat.vibe,
                    db.inserts(),
                    kind,
                    expected,
                    got,
                    tries,
                    seen,
                    refs
                ));
                continue;
            }
            confirmed.insert(local_key, tries > 2);
            if tries > 2 {
                sig.push(("stability", "varies_between_runs".to_string()));
            }
            rep.violation(&sig, format!("`{}` on {} — SQLite ({}): {} ; vibesql: {}", p.flat.vibe, db.inserts().join("; "), kind, expected, got), case_json(f.name, db, p));
        }
        rep.total_failing_cases.fetch_add(extra_failing, std::sync::atomic::Ordering::Relaxed);

        if samples.len() < 40 {
            for p in progs.iter().filter(|p| p.stmt.is_some()).step_by((progs.len() / 4).max(1)).take(4) {
                samples.push(json!({"family": f.name, "vibesql": p.flat.vibe, "sqlite": p.flat.lite, "db": dbsv.last().map(|d| d.inserts())}));
            }
        }
        for (i, (n, m)) in prog_err.iter().take(6) {
            rejected_programs.push(json!({"family": f.name, "sql": progs[*i].flat.vibe, "error": vcore::util::trunc(m, 120), "databases": n}));
        }
        total_cases += c[1];
        total_dbs += c[0];
        total_progs += progs.len() as u64;
        nonempty_total += c[4];
        err_total += c[5];
        panic_total += c[6];
        println!(
            "C01 {:9} programs={} (rejected by vibesql's parser: {}) dbs={}/{} cases={} agree={} (sequence-checked {}) nonempty={} vibesql_err={} panic={} skipped_ties={} failing={}",
            f.name,
            progs.len(),
            n_parse_rej,
            c[0],
            dbsv.len(),
            c[1],
            c[2],
            c[3],
            c[4],
            c[5],
            c[6],
            c[7],
            bad_total
        );
        fam_cov.push(json!({
            "family": f.name, "mechanism": f.mechanism, "programs": progs.len(), "programs_rejected_by_vibesql_parser": n_parse_rej,
            "databases": c[0], "databases_in_space": dbsv.len(), "database_space": f.dbs.describe(),
            "databases_with_null": classes[0], "databases_with_duplicate_rows": classes[1], "databases_with_an_empty_table": classes[2],
            "cases": c[1], "agree": c[2], "agree_sequence_checked": c[3], "nonempty_reference_result": c[4],
            "vibesql_error_not_a_case": c[5], "vibesql_panic_not_a_case": c[6], "skipped_ties_under_limit": c[7], "failing_cases": bad_total,
        }));
    }
    println!("C01 explored by {} worker processes in {:.1}s wall / {:.0} CPU-s, failing cases confirmed by {:.1}s", k, explore_s, crate::shard::children_cpu_s(), start.elapsed().as_secs_f64());

    rep.set("families", json!(fam_cov));
    rep.set("worker_processes", json!(k));
    rep.set("worker_cpu_seconds", json!(crate::shard::children_cpu_s()));
    rep.set("states", json!(total_dbs));
    rep.set("transitions", json!(total_cases));
    rep.set("traces_validated_against_impl", json!(total_cases));
    rep.set("evaluations", json!(total_cases));
    rep.set("programs", json!(total_progs));
    rep.set("distinct_nontrivial", json!(all_outcomes.len()));
    rep.set("nonempty_reference_results", json!(nonempty_total));
    rep.set("vibesql_errors_not_cases", json!(err_total));
    rep.set("vibesql_panics_not_cases", json!(panic_total));
    rep.set("programs_vibesql_rejects_samples", json!(rejected_programs));
    rep.set("exhaustive", json!(exhaustive));
    if !exhaustive {
        rep.set("capped", json!(format!("time budget {} s reached: some databases of the later families were not run (see families[].databases vs databases_in_space)", budget(tier))));
    }
    rep.set("rule", json!("a state is a database (all bags / insertion sequences of <= n rows over the family's row menu); a transition executes one program of the family on it through Parser::parse_sql + SelectExecutor::execute and compares with SQLite (bag; sequence when ORDER BY determines it; key order otherwise). distinct_nontrivial = distinct (program, normalised reference result) pairs"));
    rep.set("samples", json!(samples));
    rep.set("reach", json!(reach));
    rep.assume("bundled SQLite 3.46 implements the shared subset correctly (NULL placement requested explicitly as probed from vibesql's plain ORDER BY; LIMIT -1 OFFSET n for a bare OFFSET)");
    rep.assume("INTERSECT ALL / EXCEPT ALL: operands by SQLite, combination by a 20-line bag reference that is itself compared with SQLite on every chain SQLite can run");
    rep.finish()
}

pub fn replay(case: &Value) -> i32 {
    let _ = q::probe_null_placement();
    let Some(flat) = Flat::from_json(&case["program"]) else {
        eprintln!("bad case: program");
        return 2;
    };
    let stmts: Vec<String> = case["db"].as_array().map(|a| a.iter().filter_map(|x| x.as_str().map(|s| s.to_string())).collect()).unwrap_or_default();
    for s in &stmts {
        println!("{};", s);
    }
    println!("vibesql> {}", flat.vibe);
    if let Some(l) = &flat.lite {
        println!("sqlite > {}", l);
    }
    let (v, r, g) = oracle::rerun(&stmts, &flat);
    println!("reference: {}", r);
    println!("vibesql  : {}", g);
    match v {
        Verdict::Mismatch { kind, .. } => {
            println!("verdict: MISMATCH ({})", kind);
            1
        }
        Verdict::RefErr(e) => {
            eprintln!("MACHINERY-ERROR {}", e);
            2
        }
        other => {
            println!("verdict: {:?}", other);
            0
        }
    }
}
