//! Differential oracle: one program on one database, vibesql against SQLite (plus a tiny bag-semantics
//! reference for the set operations, which SQLite lacks in their ALL form for INTERSECT / EXCEPT).

use std::collections::BTreeMap;

use rusqlite::Connection;
use serde_json::{json, Value};
use vibesql_storage::Database;
use vibesql_types::SqlValue;

use crate::dbs;
use crate::q::{Body, Dialect, SetOp, Q};
use vcore::exec::{self, Out};
use vcore::val::{self, NV};

pub type Rows = Vec<Vec<SqlValue>>;

/// Everything needed to execute and judge one program, independent of the AST (so that a replay file
/// carries exactly this).
#[derive(Clone, Debug)]
pub struct Flat {
    pub vibe: String,
    /// SQLite text of the whole program (None when the chain uses INTERSECT ALL / EXCEPT ALL)
    pub lite: Option<String>,
    pub n_out: usize,
    /// key-augmented SQLite text (no LIMIT/OFFSET) and, per ORDER BY key, its output column
    pub aug: Option<(String, Vec<usize>)>,
    pub has_order: bool,
    pub has_limit: bool,
    /// compound programs: SQLite text of each operand and the operator joining it to what is left of it
    pub chain: Option<Vec<(Option<(SetOp, bool)>, String)>>,
}

fn op_name(op: SetOp, all: bool) -> String {
    op.text(all)
}

fn op_parse(s: &str) -> Option<(SetOp, bool)> {
    let all = s.ends_with(" ALL");
    let base = s.trim_end_matches(" ALL");
    let op = match base {
        "UNION" => SetOp::Union,
        "INTERSECT" => SetOp::Intersect,
        "EXCEPT" => SetOp::Except,
        _ => return None,
    };
    Some((op, all))
}

impl Flat {
    /// Build from the AST. `schema` is a SQLite connection holding the (empty) schema: it tells the
    /// number of output columns and proves that SQLite accepts every text we are going to send.
    pub fn build(q: &Q, schema: &Connection) -> Result<Flat, String> {
        let vibe = q.render(Dialect::Vibe);
        let bag_only = q.has_bag_only_ops();
        let chain = if q.is_compound() {
            let mut leaves = vec![];
            fn walk(b: &Body, out: &mut Vec<(Option<(SetOp, bool)>, String)>) {
                match b {
                    Body::Select(s) => out.push((None, s.render(Dialect::Sqlite))),
                    Body::SetOp(l, op, all, r) => {
                        walk(l, out);
                        out.push((Some((*op, *all)), r.render(Dialect::Sqlite)));
                    }
                }
            }
            walk(&q.body, &mut leaves);
            Some(leaves)
        } else {
            None
        };
        let ncols = |sql: &str| -> Result<usize, String> { schema.prepare(sql).map(|s| s.column_count()).map_err(|e| format!("SQLite rejects `{}`: {}", sql, e)) };
        let (lite, n_out) = if bag_only {
            if !q.order_by.is_empty() || q.limit.is_some() || q.offset.is_some() {
                return Err("family bug: INTERSECT ALL / EXCEPT ALL programs carry no ORDER BY / LIMIT tail".into());
            }
            let mut n = 0;
            for (_, leaf) in chain.as_ref().unwrap() {
                n = ncols(leaf)?;
            }
            (None, n)
        } else {
            let l = q.render(Dialect::Sqlite);
            let n = ncols(&l)?;
            if let Some(ch) = &chain {
                for (_, leaf) in ch {
                    ncols(leaf)?;
                }
            }
            (Some(l), n)
        };
        let aug = if !q.order_by.is_empty() {
            match q.key_augmented(n_out) {
                Some((aq, cols)) => {
                    let s = aq.render(Dialect::Sqlite);
                    let n = ncols(&s)?;
                    if cols.iter().any(|c| *c >= n) {
                        return Err(format!("family bug: ORDER BY key column out of range in `{}`", s));
                    }
                    Some((s, cols))
                }
                None => None,
            }
        } else {
            None
        };
        Ok(Flat { vibe, lite, n_out, aug, has_order: !q.order_by.is_empty(), has_limit: q.limit.is_some() || q.offset.is_some(), chain })
    }

    pub fn json(&self) -> Value {
        json!({
            "vibesql": self.vibe,
            "sqlite": self.lite,
            "n_out": self.n_out,
            "sqlite_keys": self.aug.as_ref().map(|(s, c)| json!({"sql": s, "key_cols": c})),
            "has_order": self.has_order,
            "has_limit": self.has_limit,
            "chain": self.chain.as_ref().map(|ch| ch.iter().map(|(op, leaf)| json!({"op": op.map(|(o, a)| op_name(o, a)), "sqlite": leaf})).collect::<Vec<_>>()),
        })
    }

    pub fn from_json(v: &Value) -> Option<Flat> {
        let aug = match &v["sqlite_keys"] {
            Value::Null => None,
            k => Some((k["sql"].as_str()?.to_string(), k["key_cols"].as_array()?.iter().filter_map(|x| x.as_u64().map(|u| u as usize)).collect())),
        };
        let chain = match &v["chain"] {
            Value::Null => None,
            c => {
                let mut out = vec![];
                for x in c.as_array()? {
                    let op = match &x["op"] {
                        Value::Null => None,
                        s => Some(op_parse(s.as_str()?)?),
                    };
                    out.push((op, x["sqlite"].as_str()?.to_string()));
                }
                Some(out)
            }
        };
        Some(Flat {
            vibe: v["vibesql"].as_str()?.to_string(),
            lite: v["sqlite"].as_str().map(|s| s.to_string()),
            n_out: v["n_out"].as_u64()? as usize,
            aug,
            has_order: v["has_order"].as_bool()?,
            has_limit: v["has_limit"].as_bool()?,
            chain,
        })
    }
}

// ------------------------------------------------------------------------------------------------
// bag-semantics reference for set operations (SQL:1999 7.12): on normalised rows, NULLs are not distinct

pub fn bag_setop(left: Vec<Vec<NV>>, right: Vec<Vec<NV>>, op: SetOp, all: bool) -> Vec<Vec<NV>> {
    let count = |rows: &Vec<Vec<NV>>| {
        let mut m: BTreeMap<Vec<NV>, usize> = BTreeMap::new();
        for r in rows {
            *m.entry(r.clone()).or_insert(0) += 1;
        }
        m
    };
    let l = count(&left);
    let r = count(&right);
    let mut keys: Vec<&Vec<NV>> = l.keys().chain(r.keys()).collect();
    keys.sort();
    keys.dedup();
    let mut out = vec![];
    for k in keys {
        let m = *l.get(k).unwrap_or(&0);
        let n = *r.get(k).unwrap_or(&0);
        let times = match (op, all) {
            (SetOp::Union, true) => m + n,
            (SetOp::Union, false) => usize::from(m + n > 0),
            (SetOp::Intersect, true) => m.min(n),
            (SetOp::Intersect, false) => usize::from(m > 0 && n > 0),
            (SetOp::Except, true) => m.saturating_sub(n),
            (SetOp::Except, false) => usize::from(m > 0 && n == 0),
        };
        for _ in 0..times {
            out.push(k.clone());
        }
    }
    out
}

fn eval_chain(c: &Connection, chain: &[(Option<(SetOp, bool)>, String)]) -> Result<Vec<Vec<NV>>, String> {
    let mut acc: Vec<Vec<NV>> = vec![];
    for (op, leaf) in chain {
        let rows = val::bag(&dbs::lite_rows(c, leaf)?);
        acc = match op {
            None => rows,
            Some((o, a)) => bag_setop(acc, rows, *o, *a),
        };
    }
    acc.sort();
    Ok(acc)
}

// ------------------------------------------------------------------------------------------------

#[derive(Clone, Debug, PartialEq)]
pub enum Mode {
    Bag,
    Seq,
    /// bag equality + the ORDER BY key columns (all visible) must form the same sequence
    BagKeys(Vec<usize>),
    /// LIMIT/OFFSET over an ordering with ties between different rows: any answer is valid; not a case
    SkipTies,
}

pub struct Reference {
    pub rows: Rows,
    /// normalised sorted bag when the rows come from the bag reference (no SQLite text exists)
    pub bag: Vec<Vec<NV>>,
    pub mode: Mode,
}

/// What the reference says. `Err` = the reference machinery failed (never a verdict).
pub fn reference(f: &Flat, c: &Connection) -> Result<Reference, String> {
    let Some(lite) = &f.lite else {
        let bag = eval_chain(c, f.chain.as_ref().ok_or("bag-only program without chain")?)?;
        return Ok(Reference { rows: vec![], bag, mode: Mode::Bag });
    };
    let rows = dbs::lite_rows(c, lite)?;
    let bag = val::bag(&rows);
    if let Some(ch) = &f.chain {
        // binding of the bag reference to SQLite: on every chain SQLite defines, both must agree
        if !f.has_limit {
            let b2 = eval_chain(c, ch)?;
            if b2 != bag {
                return Err(format!("bag reference and SQLite disagree on `{}`: {} vs {}", lite, val::fmt_bag(&b2), val::fmt_bag(&bag)));
            }
        }
    }
    let mode = if f.has_order {
        match &f.aug {
            Some((augsql, keycols)) => {
                let full = dbs::lite_rows(c, augsql)?;
                let nf = val::seq(&full);
                let mut determined = true;
                for w in nf.windows(2) {
                    let same_keys = keycols.iter().all(|k| w[0][*k] == w[1][*k]);
                    if same_keys && w[0][..f.n_out] != w[1][..f.n_out] {
                        determined = false;
                        break;
                    }
                }
                if determined {
                    Mode::Seq
                } else if f.has_limit {
                    Mode::SkipTies
                } else if keycols.iter().all(|k| *k < f.n_out) {
                    Mode::BagKeys(keycols.clone())
                } else {
                    Mode::Bag
                }
            }
            None => {
                if f.has_limit {
                    Mode::SkipTies
                } else {
                    Mode::Bag
                }
            }
        }
    } else if f.has_limit {
        Mode::SkipTies
    } else {
        Mode::Bag
    };
    Ok(Reference { rows, bag, mode })
}

#[derive(Clone, Debug, PartialEq)]
pub enum Verdict {
    Agree { seq: bool },
    /// kind ∈ bag | sequence | key_order
    Mismatch { kind: &'static str, expected: String, got: String },
    VibeErr(String),
    VibePanic(String),
    SkipTies,
    /// reference machinery failure
    RefErr(String),
}

pub struct CaseResult {
    pub verdict: Verdict,
    /// hash of the normalised reference result (for distinct-outcome counting)
    pub outcome: u64,
    pub nonempty: bool,
}

pub fn judge(f: &Flat, r: &Reference, out: &Out) -> Verdict {
    if r.mode == Mode::SkipTies {
        return Verdict::SkipTies;
    }
    let rows = match out {
        Out::Rows(rows) => rows,
        Out::Err(_, m) => return Verdict::VibeErr(m.clone()),
        Out::Panic(m) => return Verdict::VibePanic(m.clone()),
        other => return Verdict::VibeErr(format!("unexpected outcome {}", other.brief())),
    };
    let got_bag = val::bag(rows);
    if got_bag != r.bag {
        return Verdict::Mismatch { kind: "bag", expected: val::fmt_bag(&r.bag), got: val::fmt_bag(&got_bag) };
    }
    match &r.mode {
        Mode::Seq => {
            let (a, b) = (val::seq(&r.rows), val::seq(rows));
            if a != b {
                return Verdict::Mismatch { kind: "sequence", expected: val::fmt_bag(&a), got: val::fmt_bag(&b) };
            }
            Verdict::Agree { seq: true }
        }
        Mode::BagKeys(keys) => {
            let proj = |rows: &Rows| -> Vec<Vec<NV>> { val::seq(rows).into_iter().map(|r| keys.iter().map(|k| r[*k].clone()).collect()).collect() };
            let (a, b) = (proj(&r.rows), proj(rows));
            if a != b {
                return Verdict::Mismatch { kind: "key_order", expected: val::fmt_bag(&val::seq(&r.rows)), got: val::fmt_bag(&val::seq(rows)) };
            }
            let _ = f;
            Verdict::Agree { seq: true }
        }
        _ => Verdict::Agree { seq: false },
    }
}

/// One case: reference on `c` (already holding the database), vibesql on `vdb`.
pub static T_REF: std::sync::atomic::AtomicU64 = std::sync::atomic::AtomicU64::new(0);
pub static T_VIBE: std::sync::atomic::AtomicU64 = std::sync::atomic::AtomicU64::new(0);
pub static T_JUDGE: std::sync::atomic::AtomicU64 = std::sync::atomic::AtomicU64::new(0);

/// vibesql side of a case. The executor is reused across the programs run on one database (it owns a
/// 10 MB arena that is allocated on construction); after a panic it is rebuilt.
pub struct Vibe<'a> {
    db: &'a Database,
    ex: Option<vibesql_executor::SelectExecutor<'a>>,
}

impl<'a> Vibe<'a> {
    pub fn new(db: &'a Database) -> Self {
        Vibe { db, ex: None }
    }
    pub fn select(&mut self, stmt: &vibesql_ast::SelectStmt) -> Out {
        let db = self.db;
        let ex = self.ex.get_or_insert_with(|| vibesql_executor::SelectExecutor::new(db));
        match std::panic::catch_unwind(std::panic::AssertUnwindSafe(|| ex.execute(stmt))) {
            Ok(Ok(rows)) => Out::Rows(rows.into_iter().map(|r| r.values).collect()),
            Ok(Err(e)) => Out::Err(exec::ErrClass::Other, format!("{}", e)),
            Err(p) => {
                self.ex = None;
                Out::Panic(exec::panic_msg(p))
            }
        }
    }
}

/// One case: reference on `c` (already holding the database), vibesql on `vdb`.
pub fn run_case(f: &Flat, stmt: &vibesql_ast::SelectStmt, vdb: &mut Vibe, c: &Connection) -> CaseResult {
    let r = match reference(f, c) {
        Ok(r) => r,
        Err(e) => return CaseResult { verdict: Verdict::RefErr(e), outcome: 0, nonempty: false },
    };
    let outcome = vcore::util::hash64(format!("{:?}", r.bag).as_bytes());
    let nonempty = !r.bag.is_empty();
    if r.mode == Mode::SkipTies {
        return CaseResult { verdict: Verdict::SkipTies, outcome, nonempty };
    }
    let out = vdb.select(stmt);
    CaseResult { verdict: judge(f, &r, &out), outcome, nonempty }
}

/// From-scratch re-execution (fresh engines, fresh parse) used before reporting and by `replay`.
pub fn rerun(db_stmts: &[String], f: &Flat) -> (Verdict, String, String) {
    let c = Connection::open_in_memory().expect("sqlite open");
    for s in db_stmts {
        if let Err(e) = c.execute_batch(s) {
            return (Verdict::RefErr(format!("sqlite load `{}`: {}", s, e)), String::new(), String::new());
        }
    }
    let mut vdb = Database::new();
    for s in db_stmts {
        let o = exec::exec(&mut vdb, s);
        if !o.is_ok() {
            return (Verdict::RefErr(format!("vibesql load `{}`: {}", s, o.brief())), String::new(), String::new());
        }
    }
    let r = match reference(f, &c) {
        Ok(r) => r,
        Err(e) => return (Verdict::RefErr(e), String::new(), String::new()),
    };
    let out = exec::select(&vdb, &f.vibe);
    let refs = if f.lite.is_some() && r.mode != Mode::Bag { val::fmt_bag(&val::seq(&r.rows)) } else { val::fmt_bag(&r.bag) };
    (judge(f, &r, &out), format!("{} ({:?})", refs, r.mode), out.brief())
}
