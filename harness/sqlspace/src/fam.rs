//! C01 grammar families: each is a finite product of slot menus, enumerated completely, simplest first,
//! together with the database space it is run on. Carved so that vibesql and SQLite are *defined* to
//! agree: INTEGER/VARCHAR/NULL data, no `/`, no LIKE, no mixed-type comparison, grouped select lists
//! contain only keys and aggregates, scalar subqueries are aggregate queries without GROUP BY.

use crate::dbs::{rows_of, DbSpace, TableSpace, DI, DI2, DI3, DS, V};
use crate::q::*;

pub struct Family {
    pub name: &'static str,
    pub progs: Vec<Q>,
    pub dbs: DbSpace,
    /// anchor mechanism this family drives (for the reach table)
    pub mechanism: &'static str,
}

fn lits() -> Vec<E> {
    vec![int(0), int(1), int(2)]
}
const CMP: [&str; 6] = ["=", "<>", "<", "<=", ">", ">="];

fn between(e: E, neg: bool, l: E, h: E) -> E {
    E::Between(Box::new(e), neg, Box::new(l), Box::new(h))
}
fn inl(e: E, neg: bool, l: Vec<E>) -> E {
    E::InList(Box::new(e), neg, l)
}
fn isnull(e: E, neg: bool) -> E {
    E::IsNull(Box::new(e), neg)
}
fn case1(w: E, t: E, e: Option<E>) -> E {
    E::Case(vec![(w, t)], e.map(Box::new))
}

/// Integer-column predicate atoms over `a`, `b`.
pub fn int_atoms(full: bool) -> Vec<E> {
    let mut v = vec![];
    for op in CMP {
        for l in lits() {
            v.push(bin(op, col("a"), l));
        }
    }
    for op in CMP {
        v.push(bin(op, col("b"), int(1)));
        v.push(bin(op, int(1), col("a")));
        v.push(bin(op, col("a"), col("b")));
    }
    v.push(bin("=", col("a"), E::Null));
    v.push(bin("<>", col("a"), E::Null));
    for c in ["a", "b"] {
        v.push(isnull(col(c), false));
        v.push(isnull(col(c), true));
    }
    for neg in [false, true] {
        v.push(between(col("a"), neg, int(0), int(1)));
        v.push(between(col("a"), neg, int(1), int(0)));
        v.push(between(col("a"), neg, col("b"), int(2)));
        v.push(between(col("a"), neg, E::Null, int(1)));
        v.push(between(col("a"), neg, int(1), E::Null));
        v.push(inl(col("a"), neg, vec![int(0)]));
        v.push(inl(col("a"), neg, vec![int(0), int(2)]));
        v.push(inl(col("a"), neg, vec![int(1), E::Null]));
        v.push(inl(col("a"), neg, vec![col("b"), int(2)]));
        v.push(inl(col("a"), neg, vec![E::Null]));
    }
    // bare truth values
    v.push(int(1));
    v.push(int(0));
    v.push(E::Null);
    v.push(col("a"));
    // arithmetic inside comparisons
    v.push(bin("=", bin("+", col("a"), col("b")), int(2)));
    v.push(bin(">", bin("*", col("a"), col("b")), int(0)));
    v.push(bin("<", bin("-", col("a"), col("b")), int(0)));
    v.push(bin("=", bin("+", col("a"), int(1)), col("b")));
    v.push(bin("=", bin("*", col("a"), int(0)), int(0)));
    if full {
        for op in CMP {
            v.push(bin(op, col("b"), int(0)));
            v.push(bin(op, col("b"), col("a")));
            v.push(bin(op, int(2), col("b")));
        }
        v.push(isnull(bin("+", col("a"), col("b")), false));
        v.push(bin("=", E::Coalesce(vec![col("a"), col("b")]), int(1)));
        v.push(bin("=", case1(bin(">", col("a"), int(0)), col("b"), Some(int(0))), int(1)));
    }
    v
}

pub fn str_atoms() -> Vec<E> {
    let mut v = vec![];
    for op in CMP {
        v.push(bin(op, col("c"), st("ab")));
        v.push(bin(op, st("b"), col("c")));
    }
    v.push(isnull(col("c"), false));
    v.push(isnull(col("c"), true));
    for neg in [false, true] {
        v.push(inl(col("c"), neg, vec![st("a"), st("ab")]));
        v.push(inl(col("c"), neg, vec![st("b"), E::Null]));
        v.push(between(col("c"), neg, st("a"), st("ab")));
        v.push(between(col("c"), neg, st("ab"), st("b")));
    }
    v.push(bin("=", col("c"), E::Null));
    v.push(bin("=", col("c"), st("")));
    v
}

/// A small core used as operands of AND / OR (truth values T, F, U all reachable per row).
fn core_atoms() -> Vec<E> {
    vec![
        bin("=", col("a"), int(1)),
        bin("<", col("a"), int(1)),
        bin("<>", col("b"), int(1)),
        bin(">=", col("b"), int(1)),
        bin("=", col("a"), col("b")),
        bin("<", col("a"), col("b")),
        isnull(col("a"), false),
        isnull(col("b"), true),
        inl(col("a"), false, vec![int(0), E::Null]),
        inl(col("b"), true, vec![int(1), E::Null]),
        between(col("a"), false, int(1), int(2)),
        bin("=", col("a"), E::Null),
        int(1),
        int(0),
        E::Null,
    ]
}

fn t_ab(n: usize, ordered: bool, dom: &'static [V]) -> TableSpace {
    TableSpace { menu: rows_of(&[dom, dom, &[V::S("a")]]), max_rows: n, ordered }
}
fn u_fixed() -> TableSpace {
    TableSpace::fixed(vec![vec![V::I(1), V::I(0)], vec![V::Null, V::I(1)]])
}
fn star_t() -> Vec<Item> {
    vec![item(col("a")), item(col("b"))]
}

pub fn pred(thorough: bool) -> Vec<Family> {
    let mut progs = vec![];
    let atoms = int_atoms(thorough);
    for a in &atoms {
        progs.push(sel(star_t(), table("t")).wher(a.clone()).q());
    }
    for a in &atoms {
        progs.push(sel(star_t(), table("t")).wher(not(a.clone())).q());
    }
    // depth 2
    let core = core_atoms();
    let k = if thorough { core.len() } else { 9 };
    for op in ["AND", "OR"] {
        for x in core.iter().take(k) {
            for y in core.iter().take(k) {
                progs.push(sel(star_t(), table("t")).wher(bin(op, x.clone(), y.clone())).q());
            }
        }
    }
    for op in ["AND", "OR"] {
        for x in core.iter().take(if thorough { core.len() } else { 5 }) {
            for y in core.iter().take(if thorough { core.len() } else { 5 }) {
                progs.push(sel(star_t(), table("t")).wher(not(bin(op, x.clone(), y.clone()))).q());
                if thorough {
                    progs.push(sel(star_t(), table("t")).wher(bin(op, not(x.clone()), y.clone())).q());
                }
            }
        }
    }
    if thorough {
        // depth 3 over a 5-atom core: (x op1 y) op2 z
        for op1 in ["AND", "OR"] {
            for op2 in ["AND", "OR"] {
                for x in core.iter().take(5) {
                    for y in core.iter().skip(4).take(4) {
                        for z in core.iter().skip(8).take(5) {
                            progs.push(sel(star_t(), table("t")).wher(bin(op2, bin(op1, x.clone(), y.clone()), z.clone())).q());
                        }
                    }
                }
            }
        }
    }
    let int_f = Family {
        name: "PRED",
        progs,
        dbs: DbSpace { t: t_ab(2, false, &DI), u: TableSpace::fixed(vec![]) },
        mechanism: "eval_binary_op NULL short-circuit / 3VL AND OR NOT / WHERE filter paths",
    };
    let mut sp = vec![];
    for a in str_atoms() {
        sp.push(sel(vec![item(col("c"))], table("t")).wher(a.clone()).q());
        sp.push(sel(vec![item(col("c"))], table("t")).wher(not(a)).q());
    }
    let str_f = Family {
        name: "PRED_STR",
        progs: sp,
        dbs: DbSpace { t: TableSpace { menu: rows_of(&[&[V::I(0)], &[V::I(0)], &DS]), max_rows: 3, ordered: false }, u: TableSpace::fixed(vec![]) },
        mechanism: "comparison of VARCHAR values",
    };
    vec![int_f, str_f]
}

pub fn proj(thorough: bool) -> Vec<Family> {
    let a = || col("a");
    let b = || col("b");
    let mut es: Vec<E> = vec![
        a(),
        bin("+", a(), b()),
        bin("-", a(), b()),
        bin("*", a(), b()),
        bin("+", a(), int(1)),
        bin("-", int(0), a()),
        bin("*", bin("+", a(), int(1)), bin("-", b(), int(1))),
        bin("+", a(), E::Null),
        case1(bin(">", a(), int(0)), b(), Some(int(0))),
        case1(bin(">", a(), int(0)), b(), None),
        case1(isnull(a(), false), int(7), Some(a())),
        case1(bin("=", a(), b()), E::Null, Some(int(1))),
        E::Case(vec![(bin("=", a(), int(0)), int(10)), (bin("=", a(), int(1)), int(11))], Some(Box::new(int(12)))),
        E::Case(vec![(bin("=", a(), E::Null), int(10)), (E::Null, int(11))], Some(Box::new(b()))),
        E::Coalesce(vec![a(), b()]),
        E::Coalesce(vec![a(), b(), int(5)]),
        E::Coalesce(vec![E::Null, a()]),
        E::Coalesce(vec![bin("+", a(), b()), int(9)]),
        // predicates as values
        bin("=", a(), b()),
        bin("<", a(), int(1)),
        isnull(a(), false),
        isnull(a(), true),
        not(bin(">", a(), int(1))),
        inl(a(), false, vec![int(0), E::Null]),
        inl(a(), true, vec![int(0), E::Null]),
        between(a(), false, int(0), b()),
        between(a(), true, int(0), b()),
        bin("AND", bin("=", a(), int(1)), bin("=", b(), int(1))),
        bin("OR", bin("=", a(), int(1)), bin("=", b(), int(1))),
        bin("AND", bin("=", a(), int(1)), E::Null),
        bin("OR", bin("=", a(), int(1)), E::Null),
        not(bin("AND", bin("=", a(), int(1)), bin("=", b(), int(1)))),
        not(bin("OR", isnull(a(), false), bin("=", b(), int(1)))),
        int(3),
        E::Null,
        st("x"),
    ];
    if thorough {
        for op in CMP {
            es.push(bin(op, a(), b()));
            es.push(bin(op, bin("+", a(), int(1)), b()));
        }
        es.push(bin("*", a(), a()));
        es.push(bin("-", bin("-", a(), b()), int(1)));
        es.push(bin("-", a(), bin("-", b(), int(1))));
        es.push(case1(bin("OR", isnull(a(), false), isnull(b(), false)), int(0 - 1), Some(bin("*", a(), b()))));
    }
    let mut progs = vec![];
    for e in &es {
        progs.push(sel(vec![item(a()), item(b()), item(e.clone())], table("t")).q());
    }
    // two expressions in one list, with WHERE
    for e in es.iter().take(12) {
        progs.push(sel(vec![item_as(e.clone(), "x"), item(a())], table("t")).wher(isnull(b(), true)).q());
    }
    // FROM-less
    for e in [bin("+", int(1), int(2)), E::Null, bin("=", int(1), E::Null), bin("OR", bin("=", int(1), int(1)), E::Null), E::Coalesce(vec![E::Null, int(4)]), case1(E::Null, int(1), Some(int(2)))] {
        progs.push(Sel { items: vec![item(e)], ..Default::default() }.q());
    }
    let f = Family {
        name: "PROJ",
        progs,
        dbs: DbSpace { t: if thorough { t_ab(3, false, &DI) } else { t_ab(2, false, &DI) }, u: TableSpace::fixed(vec![]) },
        mechanism: "expression evaluation in the select list (arithmetic, CASE, COALESCE, predicates as values)",
    };
    let c = || col("c");
    let ses = vec![
        c(),
        E::Coalesce(vec![c(), st("z")]),
        case1(bin("=", c(), st("a")), st("A"), Some(c())),
        case1(bin("<", c(), st("b")), int(1), None),
        bin("=", c(), st("ab")),
        bin("<", c(), st("ab")),
        isnull(c(), false),
        inl(c(), false, vec![st("a"), E::Null]),
    ];
    let sf = Family {
        name: "PROJ_STR",
        progs: ses.into_iter().map(|e| sel(vec![item(c()), item(e)], table("t")).q()).collect(),
        dbs: DbSpace { t: TableSpace { menu: rows_of(&[&[V::I(0)], &[V::I(0)], &DS]), max_rows: 3, ordered: false }, u: TableSpace::fixed(vec![]) },
        mechanism: "expression evaluation over VARCHAR",
    };
    vec![f, sf]
}

pub fn joins(thorough: bool) -> Vec<Family> {
    let ta = || col("t.a");
    let tb = || col("t.b");
    let ua = || col("u.a");
    let ud = || col("u.d");
    let list = || vec![item(ta()), item(tb()), item(ua()), item(ud())];
    let ons: Vec<E> = vec![
        bin("=", ta(), ua()),
        bin("<", ta(), ua()),
        bin("AND", bin("=", ta(), ua()), bin("=", tb(), ud())),
        // a filter conjunct written *before* the equi-join conjunct (local, and across both tables)
        bin("AND", bin(">", tb(), int(0)), bin("=", ta(), ua())),
        bin("AND", bin("<", tb(), ud()), bin("=", ta(), ua())),
        bin("=", int(1), int(1)),
        bin("OR", bin("=", ta(), ua()), bin("=", tb(), ud())),
        bin("=", ta(), int(1)),
        isnull(ud(), false),
        bin("=", ua(), ta()),
        bin("AND", bin("=", ta(), ua()), bin(">", tb(), int(0))),
        bin("=", bin("+", ta(), int(1)), ua()),
        bin("<>", ta(), ua()),
        bin("=", int(0), int(1)),
    ];
    let wheres: Vec<Option<E>> = vec![
        None,
        Some(bin("=", tb(), int(1))),
        Some(isnull(ud(), false)),
        Some(isnull(ua(), false)),
        Some(bin("<", tb(), ud())),
        Some(isnull(ta(), true)),
        Some(bin("OR", isnull(ua(), false), bin("=", tb(), int(1)))),
    ];
    let (ons, wheres) = if thorough { (ons, wheres) } else { (ons.into_iter().take(10).collect::<Vec<_>>(), wheres.into_iter().take(4).collect::<Vec<_>>()) };
    let mut progs = vec![];
    for kind in ["JOIN", "LEFT JOIN", "RIGHT JOIN", "FULL JOIN"] {
        for on in &ons {
            for w in &wheres {
                progs.push(sel(list(), join(kind, table("t"), table("u"), Some(on.clone()))).wher_opt(w.clone()).q());
            }
        }
    }
    // CROSS JOIN / comma with the condition in WHERE
    for kind in ["CROSS JOIN", ","] {
        progs.push(sel(list(), join(kind, table("t"), table("u"), None)).q());
        for on in &ons {
            progs.push(sel(list(), join(kind, table("t"), table("u"), None)).wher(on.clone()).q());
            progs.push(sel(list(), join(kind, table("u"), table("t"), None)).wher(on.clone()).q());
        }
    }
    // star lists, swapped sides, self joins, aliases
    for kind in ["JOIN", "LEFT JOIN", "RIGHT JOIN", "FULL JOIN"] {
        progs.push(sel(vec![Item::Star], join(kind, table("t"), table("u"), Some(bin("=", ta(), ua())))).q());
        progs.push(sel(vec![Item::QStar("u".into()), item(tb())], join(kind, table("t"), table("u"), Some(bin("=", ta(), ua())))).q());
        progs.push(sel(list(), join(kind, table("u"), table("t"), Some(bin("=", ta(), ua())))).q());
        for on in [bin("=", col("x.a"), col("y.b")), bin("<", col("x.a"), col("y.a")), bin("AND", bin("=", col("x.a"), col("y.a")), bin("=", col("x.b"), col("y.b")))] {
            progs.push(sel(vec![item(col("x.a")), item(col("x.b")), item(col("y.a")), item(col("y.b"))], join(kind, table_as("t", "x"), table_as("t", "y"), Some(on))).q());
        }
        // DISTINCT / aggregate over a join
        progs.push(sel(vec![item(ta()), item(ua())], join(kind, table("t"), table("u"), Some(bin("=", tb(), ud())))).dist(true).q());
        progs.push(sel(vec![item(count_star()), item(agg("SUM", ud())), item(agg("COUNT", ua()))], join(kind, table("t"), table("u"), Some(bin("=", ta(), ua())))).q());
        progs.push(sel(vec![item(ta()), item(count_star()), item(agg("COUNT", ud()))], join(kind, table("t"), table("u"), Some(bin("=", ta(), ua())))).group(vec![ta()]).q());
    }
    // three tables: t, u, t AS w — comma joins in all 6 orders (join reordering), and chains of JOIN
    let w3 = bin("AND", bin("=", ta(), ua()), bin("=", ud(), col("w.b")));
    let l3 = || vec![item(ta()), item(ua()), item(ud()), item(col("w.a")), item(col("w.b"))];
    let tabs = [table("t"), table("u"), table_as("t", "w")];
    for p in [[0, 1, 2], [0, 2, 1], [1, 0, 2], [1, 2, 0], [2, 0, 1], [2, 1, 0]] {
        let f = join(",", join(",", tabs[p[0]].clone(), tabs[p[1]].clone(), None), tabs[p[2]].clone(), None);
        progs.push(sel(l3(), f.clone()).wher(w3.clone()).q());
        progs.push(sel(l3(), f.clone()).wher(bin("AND", w3.clone(), bin(">", tb(), int(0)))).q());
        progs.push(sel(l3(), f).wher(bin("AND", bin("=", ta(), ua()), bin("<", ud(), col("w.b")))).q());
    }
    for (k1, k2) in [("JOIN", "JOIN"), ("LEFT JOIN", "JOIN"), ("JOIN", "LEFT JOIN"), ("LEFT JOIN", "LEFT JOIN"), ("LEFT JOIN", "RIGHT JOIN"), ("FULL JOIN", "LEFT JOIN")] {
        let f = join(k2, join(k1, table("t"), table("u"), Some(bin("=", ta(), ua()))), table_as("t", "w"), Some(bin("=", ud(), col("w.b"))));
        progs.push(sel(l3(), f).q());
    }
    // join against a derived table
    let dq = sel(vec![item_as(col("a"), "k"), item_as(count_star(), "n")], table("u")).group(vec![col("a")]).q();
    for kind in ["JOIN", "LEFT JOIN"] {
        progs.push(sel(vec![item(ta()), item(col("g.k")), item(col("g.n"))], join(kind, table("t"), From::Derived(Box::new(dq.clone()), "g".into()), Some(bin("=", ta(), col("g.k"))))).q());
    }
    let (dt, du, nt, nu): (&'static [V], &'static [V], usize, usize) = if thorough { (&DI3, &DI2, 2, 2) } else { (&DI3, &DI2, 2, 1) };
    vec![Family {
        name: "JOIN",
        progs,
        dbs: DbSpace {
            t: TableSpace { menu: rows_of(&[dt, du, &[V::S("a")]]), max_rows: nt, ordered: false },
            u: TableSpace { menu: rows_of(&[dt, du]), max_rows: nu, ordered: false },
        },
        mechanism: "hash join (equi ON) / nested loop (non-equi ON) / outer joins / join reordering",
    }]
}

pub fn aggs(thorough: bool) -> Vec<Family> {
    let a = || col("a");
    let b = || col("b");
    let mut fs: Vec<E> = vec![
        count_star(),
        agg("COUNT", a()),
        aggd("COUNT", a()),
        agg("SUM", a()),
        aggd("SUM", a()),
        agg("AVG", a()),
        agg("MIN", a()),
        agg("MAX", a()),
        agg("SUM", bin("*", a(), b())),
        agg("COUNT", bin("+", a(), b())),
        agg("MAX", bin("+", a(), b())),
        agg("SUM", b()),
        agg("MIN", b()),
        bin("+", agg("SUM", a()), count_star()),
        E::Coalesce(vec![agg("SUM", a()), int(0)]),
    ];
    if thorough {
        fs.push(aggd("AVG", a()));
        fs.push(agg("AVG", b()));
        fs.push(agg("MAX", b()));
        fs.push(agg("COUNT", b()));
        fs.push(aggd("COUNT", bin("+", a(), b())));
        fs.push(bin("-", agg("MAX", a()), agg("MIN", a())));
        fs.push(case1(bin(">", count_star(), int(1)), agg("SUM", a()), Some(int(0))));
    }
    let wheres: Vec<Option<E>> = vec![None, Some(bin(">", b(), int(0))), Some(isnull(a(), true)), Some(bin("=", int(0), int(1))), Some(isnull(b(), false))];
    let havings: Vec<Option<E>> = vec![None, Some(bin(">", count_star(), int(1))), Some(isnull(agg("SUM", b()), false)), Some(bin("=", agg("MIN", a()), int(0)))];
    let mut progs = vec![];
    // no GROUP BY: single aggregates and pairs × WHERE
    for w in &wheres {
        for f in &fs {
            progs.push(sel(vec![item(f.clone())], table("t")).wher_opt(w.clone()).q());
        }
        progs.push(sel(vec![item(count_star()), item(agg("SUM", a())), item(agg("MIN", b())), item(agg("AVG", a()))], table("t")).wher_opt(w.clone()).q());
        progs.push(sel(vec![item(agg("COUNT", a())), item(agg("MAX", a())), item(agg("SUM", b()))], table("t")).wher_opt(w.clone()).q());
    }
    // HAVING without GROUP BY
    for h in havings.iter().skip(1) {
        progs.push(sel(vec![item(count_star()), item(agg("SUM", a()))], table("t")).hav(h.clone()).q());
    }
    // GROUP BY a
    for w in &wheres {
        for h in &havings {
            for f in &fs {
                if !thorough && w.is_some() && h.is_some() {
                    continue;
                }
                progs.push(sel(vec![item(a()), item(f.clone())], table("t")).wher_opt(w.clone()).group(vec![a()]).hav(h.clone()).q());
            }
        }
    }
    // key not in the select list; key expression; two keys
    for f in fs.iter().take(if thorough { fs.len() } else { 8 }) {
        progs.push(sel(vec![item(f.clone())], table("t")).group(vec![a()]).q());
        progs.push(sel(vec![item(bin("+", a(), b())), item(f.clone())], table("t")).group(vec![bin("+", a(), b())]).q());
        progs.push(sel(vec![item(a()), item(b()), item(f.clone())], table("t")).group(vec![a(), b()]).q());
        progs.push(sel(vec![item(b()), item(a()), item(f.clone())], table("t")).group(vec![a(), b()]).hav(Some(bin(">", count_star(), int(1)))).q());
    }
    // ORDER BY / LIMIT tails over grouped results
    for f in [count_star(), agg("SUM", b()), agg("MIN", b())] {
        let base = sel(vec![item(a()), item_as(f.clone(), "x")], table("t")).group(vec![a()]);
        for desc in [false, true] {
            progs.push(base.clone().q().order(vec![(Key::Pos(1), desc)]));
            progs.push(base.clone().q().order(vec![(Key::Expr(a()), desc)]).lim(Some(1), None));
            progs.push(base.clone().q().order(vec![(Key::Alias("x".into()), desc), (Key::Pos(1), false)]));
            progs.push(base.clone().q().order(vec![(Key::Expr(f.clone()), desc), (Key::Expr(a()), desc)]).lim(Some(2), Some(1)));
        }
    }
    // DISTINCT with aggregates / grouped
    progs.push(sel(vec![item(count_star())], table("t")).group(vec![a()]).dist(true).q());
    progs.push(sel(vec![item(agg("SUM", b()))], table("t")).group(vec![a()]).dist(true).q());
    progs.push(sel(vec![item(a())], table("t")).group(vec![a()]).q());
    progs.push(sel(vec![item(a()), item(b())], table("t")).group(vec![a(), b()]).q());
    let f = Family {
        name: "AGG",
        progs,
        dbs: DbSpace { t: if thorough { t_ab(3, true, &DI3) } else { t_ab(2, true, &DI3) }, u: TableSpace::fixed(vec![]) },
        mechanism: "execute_with_aggregation (GROUP BY / HAVING / empty input / all-NULL groups) and the columnar aggregate gate",
    };
    let c = || col("c");
    let sprogs = vec![
        sel(vec![item(agg("MIN", c())), item(agg("MAX", c())), item(agg("COUNT", c())), item(aggd("COUNT", c()))], table("t")).q(),
        sel(vec![item(c()), item(count_star())], table("t")).group(vec![c()]).q(),
        sel(vec![item(c()), item(count_star())], table("t")).group(vec![c()]).hav(Some(bin(">", count_star(), int(1)))).q(),
        sel(vec![item(agg("MIN", c()))], table("t")).wher(bin("<>", c(), st("a"))).q(),
        sel(vec![item(agg("MAX", c()))], table("t")).wher(isnull(c(), false)).q(),
    ];
    let sf = Family {
        name: "AGG_STR",
        progs: sprogs,
        dbs: DbSpace { t: TableSpace { menu: rows_of(&[&[V::I(0)], &[V::I(0)], &DS]), max_rows: 3, ordered: true }, u: TableSpace::fixed(vec![]) },
        mechanism: "aggregates over VARCHAR",
    };
    vec![f, sf]
}

pub fn sorts(thorough: bool) -> Vec<Family> {
    let a = || col("a");
    let b = || col("b");
    let limits: Vec<Option<usize>> = if thorough { vec![None, Some(0), Some(1), Some(2), Some(5)] } else { vec![None, Some(1), Some(2)] };
    let offsets: Vec<Option<usize>> = if thorough { vec![None, Some(0), Some(1), Some(5)] } else { vec![None, Some(1)] };
    // (select list, distinct allowed, key lists)
    let mut shapes: Vec<(Vec<Item>, Vec<Vec<(Key, bool)>>)> = vec![];
    let dirs = [false, true];
    let mut ab_keys = vec![];
    for d1 in dirs {
        ab_keys.push(vec![(Key::Expr(a()), d1)]);
        ab_keys.push(vec![(Key::Pos(2), d1)]);
        for d2 in dirs {
            ab_keys.push(vec![(Key::Expr(a()), d1), (Key::Expr(b()), d2)]);
            ab_keys.push(vec![(Key::Pos(2), d1), (Key::Pos(1), d2)]);
        }
        ab_keys.push(vec![(Key::Expr(bin("+", a(), b())), d1), (Key::Expr(a()), d1)]);
    }
    shapes.push((vec![item(a()), item(b())], ab_keys));
    let mut a_keys = vec![];
    for d1 in dirs {
        a_keys.push(vec![(Key::Expr(a()), d1)]);
        a_keys.push(vec![(Key::Pos(1), d1)]);
        a_keys.push(vec![(Key::Expr(b()), d1)]); // hidden key
        a_keys.push(vec![(Key::Expr(b()), d1), (Key::Expr(a()), !d1)]);
    }
    shapes.push((vec![item(a())], a_keys));
    let mut s_keys = vec![];
    for d1 in dirs {
        s_keys.push(vec![(Key::Alias("s".into()), d1)]);
        s_keys.push(vec![(Key::Alias("s".into()), d1), (Key::Expr(a()), d1)]);
        s_keys.push(vec![(Key::Expr(bin("+", a(), b())), d1), (Key::Pos(2), false)]);
        s_keys.push(vec![(Key::Pos(1), d1), (Key::Pos(2), true)]);
    }
    shapes.push((vec![item_as(bin("+", a(), b()), "s"), item(a())], s_keys));
    let mut progs = vec![];
    for (items, keylists) in &shapes {
        for distinct in [false, true] {
            for keys in keylists {
                // DISTINCT requires visible keys (otherwise the query is not well defined)
                let visible = keys.iter().all(|(k, _)| match k {
                    Key::Pos(_) | Key::Alias(_) => true,
                    Key::Expr(e) => items.iter().any(|it| matches!(it, Item::Expr(x, _) if x == e)),
                });
                if distinct && !visible {
                    continue;
                }
                for l in &limits {
                    for o in &offsets {
                        progs.push(Sel { distinct, items: items.clone(), from: Some(table("t")), ..Default::default() }.q().order(keys.clone()).lim(*l, *o));
                    }
                }
            }
        }
    }
    // ORDER BY with WHERE, and DISTINCT without ORDER BY
    for d1 in dirs {
        progs.push(sel(vec![item(a()), item(b())], table("t")).wher(isnull(b(), true)).q().order(vec![(Key::Expr(a()), d1), (Key::Expr(b()), d1)]).lim(Some(2), None));
        progs.push(sel(vec![Item::Star], table("t")).q().order(vec![(Key::Expr(b()), d1), (Key::Expr(a()), d1)]));
    }
    progs.push(sel(vec![item(a())], table("t")).dist(true).q());
    progs.push(sel(vec![item(a()), item(b())], table("t")).dist(true).q());
    progs.push(sel(vec![item(bin("+", a(), b()))], table("t")).dist(true).q());
    progs.push(sel(vec![item(isnull(a(), false))], table("t")).dist(true).q());
    let f = Family {
        name: "SORT",
        progs,
        dbs: DbSpace { t: if thorough { t_ab(3, true, &DI3) } else { t_ab(2, true, &DI3) }, u: TableSpace::fixed(vec![]) },
        mechanism: "apply_order_by / apply_limit_offset / apply_distinct",
    };
    let c = || col("c");
    let mut sp = vec![];
    for d1 in dirs {
        sp.push(sel(vec![item(c())], table("t")).q().order(vec![(Key::Expr(c()), d1)]));
        sp.push(sel(vec![item(c())], table("t")).q().order(vec![(Key::Pos(1), d1)]).lim(Some(2), Some(1)));
        sp.push(sel(vec![item(c())], table("t")).dist(true).q().order(vec![(Key::Expr(c()), d1)]));
    }
    let sf = Family {
        name: "SORT_STR",
        progs: sp,
        dbs: DbSpace { t: TableSpace { menu: rows_of(&[&[V::I(0)], &[V::I(0)], &DS]), max_rows: 3, ordered: true }, u: TableSpace::fixed(vec![]) },
        mechanism: "ORDER BY over VARCHAR",
    };
    vec![f, sf]
}

pub fn setops(thorough: bool) -> Vec<Family> {
    let a = || col("a");
    // one-column operands
    let ops1: Vec<Sel> = vec![
        sel(vec![item(a())], table("t")),
        sel(vec![item(col("b"))], table("t")),
        sel(vec![item(a())], table("u")),
        sel(vec![item(a())], table("t")).wher(bin(">", a(), int(0))),
        sel(vec![item(a())], table("u")).dist(true),
        Sel { items: vec![item(int(1))], ..Default::default() },
        Sel { items: vec![item(E::Null)], ..Default::default() },
        sel(vec![item(agg("MAX", a()))], table("u")),
    ];
    let all_ops: Vec<(SetOp, bool)> = vec![(SetOp::Union, false), (SetOp::Union, true), (SetOp::Intersect, false), (SetOp::Intersect, true), (SetOp::Except, false), (SetOp::Except, true)];
    let mut progs = vec![];
    let n1 = if thorough { ops1.len() } else { 6 };
    for (op, all) in &all_ops {
        for l in ops1.iter().take(n1) {
            for r in ops1.iter().take(n1) {
                progs.push(Q::body(Body::SetOp(Box::new(Body::Select(l.clone())), *op, *all, r.clone())));
            }
        }
    }
    // two-column operands
    let ops2: Vec<Sel> = vec![sel(vec![item(a()), item(col("b"))], table("t")), sel(vec![item(a()), item(col("d"))], table("u")), sel(vec![item(col("b")), item(a())], table("t"))];
    for (op, all) in &all_ops {
        for l in &ops2 {
            for r in &ops2 {
                progs.push(Q::body(Body::SetOp(Box::new(Body::Select(l.clone())), *op, *all, r.clone())));
            }
        }
    }
    // chains of three (left to right in both engines)
    let k3 = if thorough { 3 } else { 2 };
    for (op1, all1) in &all_ops {
        for (op2, all2) in &all_ops {
            for x in ops1.iter().take(k3) {
                for y in ops1.iter().take(k3) {
                    for z in ops1.iter().take(k3) {
                        let b = Body::SetOp(Box::new(Body::SetOp(Box::new(Body::Select(x.clone())), *op1, *all1, y.clone())), *op2, *all2, z.clone());
                        progs.push(Q::body(b));
                    }
                }
            }
        }
    }
    // ORDER BY / LIMIT tails (only chains SQLite can run)
    for (op, all) in all_ops.iter().filter(|(o, a)| !(*a && *o != SetOp::Union)) {
        for l in ops1.iter().take(if thorough { 4 } else { 3 }) {
            for r in ops1.iter().take(if thorough { 4 } else { 3 }) {
                let b = Body::SetOp(Box::new(Body::Select(l.clone())), *op, *all, r.clone());
                for desc in [false, true] {
                    progs.push(Q::body(b.clone()).order(vec![(Key::Pos(1), desc)]));
                    progs.push(Q::body(b.clone()).order(vec![(Key::Pos(1), desc)]).lim(Some(2), None));
                    progs.push(Q::body(b.clone()).order(vec![(Key::Pos(1), desc)]).lim(Some(1), Some(1)));
                }
            }
        }
        let b2 = Body::SetOp(Box::new(Body::Select(ops2[0].clone())), *op, *all, ops2[1].clone());
        for desc in [false, true] {
            progs.push(Q::body(b2.clone()).order(vec![(Key::Alias("a".into()), desc), (Key::Pos(2), desc)]));
            progs.push(Q::body(b2.clone()).order(vec![(Key::Pos(2), desc), (Key::Pos(1), !desc)]).lim(Some(2), None));
        }
    }
    let dbs = if thorough {
        DbSpace {
            t: TableSpace { menu: rows_of(&[&DI3, &DI3, &[V::S("a")]]), max_rows: 2, ordered: false },
            u: TableSpace { menu: rows_of(&[&DI3, &DI2]), max_rows: 1, ordered: false },
        }
    } else {
        DbSpace {
            t: TableSpace { menu: rows_of(&[&DI3, &DI2, &[V::S("a")]]), max_rows: 2, ordered: false },
            u: TableSpace { menu: rows_of(&[&DI3, &[V::I(1)]]), max_rows: 1, ordered: false },
        }
    };
    vec![Family {
        name: "SETOP",
        progs,
        dbs,
        mechanism: "apply_set_operation (bag semantics, chains), ORDER BY / LIMIT over a compound",
    }]
}

pub fn subqs(thorough: bool) -> Vec<Family> {
    let ta = || col("t.a");
    let tb = || col("t.b");
    let ua = || col("u.a");
    let ud = || col("u.d");
    let inner_w: Vec<Option<E>> = vec![None, Some(bin("=", ua(), ta())), Some(bin("<", ud(), tb())), Some(isnull(ud(), true)), Some(bin("AND", bin("=", ua(), ta()), bin(">", ud(), int(0)))), Some(bin("=", int(0), int(1)))];
    let sub = |items: Vec<Item>, w: &Option<E>| -> Box<Q> { Box::new(sel(items, table("u")).wher_opt(w.clone()).q()) };
    let list = || vec![item(ta()), item(tb())];
    let mut progs = vec![];
    // scalar aggregate subqueries in the select list and in WHERE
    let sc: Vec<E> = vec![count_star(), agg("SUM", ud()), agg("MAX", ua()), agg("MIN", ud()), agg("COUNT", ua())];
    for w in &inner_w {
        for f in &sc {
            progs.push(sel(vec![item(ta()), item(tb()), item(E::Sub(sub(vec![item(f.clone())], w)))], table("t")).q());
            for op in ["=", "<", ">="] {
                progs.push(sel(list(), table("t")).wher(bin(op, ta(), E::Sub(sub(vec![item(f.clone())], w)))).q());
            }
        }
    }
    // [NOT] IN (SELECT …)
    for neg in [false, true] {
        for w in &inner_w {
            for lhs in [ta(), tb(), bin("+", ta(), int(1))] {
                for rhs in [ua(), ud()] {
                    progs.push(sel(list(), table("t")).wher(E::InSub(Box::new(lhs.clone()), neg, sub(vec![item(rhs.clone())], w))).q());
                }
            }
            // as a value
            progs.push(sel(vec![item(ta()), item(E::InSub(Box::new(ta()), neg, sub(vec![item(ua())], w)))], table("t")).q());
            // combined with another conjunct / under OR
            progs.push(sel(list(), table("t")).wher(bin("AND", E::InSub(Box::new(ta()), neg, sub(vec![item(ua())], w)), bin(">", tb(), int(0)))).q());
            progs.push(sel(list(), table("t")).wher(bin("OR", E::InSub(Box::new(ta()), neg, sub(vec![item(ua())], w)), isnull(tb(), false))).q());
        }
        // IN over an aggregate / DISTINCT / set-operation subquery
        progs.push(sel(list(), table("t")).wher(E::InSub(Box::new(ta()), neg, Box::new(sel(vec![item(agg("MAX", ua()))], table("u")).q()))).q());
        progs.push(sel(list(), table("t")).wher(E::InSub(Box::new(ta()), neg, Box::new(sel(vec![item(ua())], table("u")).dist(true).q()))).q());
        progs.push(sel(list(), table("t")).wher(E::InSub(Box::new(ta()), neg, Box::new(sel(vec![item(ua())], table("u")).group(vec![ua()]).hav(Some(bin(">", count_star(), int(1)))).q()))).q());
        progs.push(
            sel(list(), table("t"))
                .wher(E::InSub(Box::new(ta()), neg, Box::new(Q::body(Body::SetOp(Box::new(Body::Select(sel(vec![item(ua())], table("u")))), SetOp::Union, false, sel(vec![item(ud())], table("u")))))))
                .q(),
        );
    }
    // [NOT] EXISTS
    for neg in [false, true] {
        for w in &inner_w {
            progs.push(sel(list(), table("t")).wher(E::Exists(neg, sub(vec![item(int(1))], w))).q());
            progs.push(sel(list(), table("t")).wher(E::Exists(neg, sub(vec![Item::Star], w))).q());
            progs.push(sel(vec![item(ta()), item(E::Exists(neg, sub(vec![item(ua())], w)))], table("t")).q());
            progs.push(sel(list(), table("t")).wher(bin("AND", E::Exists(neg, sub(vec![item(int(1))], w)), isnull(tb(), true))).q());
            progs.push(sel(list(), table("t")).wher(bin("OR", E::Exists(neg, sub(vec![item(int(1))], w)), bin("=", tb(), int(1)))).q());
        }
        // EXISTS over an aggregate subquery (always one row)
        progs.push(sel(list(), table("t")).wher(E::Exists(neg, Box::new(sel(vec![item(count_star())], table("u")).wher(bin("=", ua(), ta())).q()))).q());
    }
    // subquery in HAVING and in a grouped select list; nested subquery
    progs.push(sel(vec![item(ta()), item(count_star())], table("t")).group(vec![ta()]).hav(Some(bin(">", count_star(), E::Sub(Box::new(sel(vec![item(count_star())], table("u")).q()))))).q());
    progs.push(sel(vec![item(ta()), item(E::Sub(Box::new(sel(vec![item(count_star())], table("u")).q())))], table("t")).group(vec![ta()]).q());
    progs.push(
        sel(list(), table("t"))
            .wher(E::InSub(
                Box::new(ta()),
                false,
                Box::new(sel(vec![item(ua())], table("u")).wher(E::Exists(false, Box::new(sel(vec![item(int(1))], table_as("t", "w")).wher(bin("=", col("w.b"), ud())).q()))).q()),
            ))
            .q(),
    );
    // derived table in FROM
    progs.push(sel(vec![item(col("g.k")), item(col("g.n"))], From::Derived(Box::new(sel(vec![item_as(ua(), "k"), item_as(count_star(), "n")], table("u")).group(vec![ua()]).q()), "g".into())).q());
    progs.push(sel(vec![item(col("g.a"))], From::Derived(Box::new(sel(vec![item(ta()), item(tb())], table("t")).wher(bin(">", tb(), int(0))).q()), "g".into())).wher(isnull(col("g.a"), true)).q());
    let (dt, du, nt, nu): (&'static [V], &'static [V], usize, usize) = if thorough { (&DI3, &DI2, 2, 2) } else { (&DI3, &DI2, 1, 2) };
    vec![Family {
        name: "SUBQ",
        progs,
        dbs: DbSpace {
            t: TableSpace { menu: rows_of(&[dt, du, &[V::S("a")]]), max_rows: nt, ordered: false },
            u: TableSpace { menu: rows_of(&[dt, du]), max_rows: nu, ordered: false },
        },
        mechanism: "evaluator/combined/subqueries.rs (scalar, IN, EXISTS; correlated or not) and the semi/anti-join rewrite",
    }]
}

pub fn all(thorough: bool) -> Vec<Family> {
    let mut v = vec![];
    v.extend(pred(thorough));
    v.extend(proj(thorough));
    v.extend(joins(thorough));
    v.extend(aggs(thorough));
    v.extend(sorts(thorough));
    v.extend(setops(thorough));
    v.extend(subqs(thorough));
    v
}

#[allow(dead_code)]
pub fn unused() {
    let _ = (u_fixed(), DS.len());
}
