//! Small databases: schema `t(a INT, b INT, c VARCHAR(10))`, `u(a INT, d INT)`; all bags (or all
//! insertion sequences) of at most n rows drawn from a per-family row menu; loaders for both engines.

use std::cell::RefCell;

use rusqlite::Connection;
use vibesql_storage::Database;
use vibesql_types::SqlValue;

#[derive(Clone, Debug, PartialEq, Eq, Hash, PartialOrd, Ord)]
pub enum V {
    Null,
    I(i64),
    S(&'static str),
}

impl V {
    pub fn sql(&self) -> String {
        match self {
            V::Null => "NULL".into(),
            V::I(i) => i.to_string(),
            V::S(s) => format!("'{}'", s),
        }
    }
}

pub const DI: [V; 4] = [V::Null, V::I(0), V::I(1), V::I(2)];
pub const DI3: [V; 3] = [V::Null, V::I(0), V::I(1)];
pub const DI2: [V; 2] = [V::Null, V::I(1)];
pub const DS: [V; 4] = [V::Null, V::S("a"), V::S("b"), V::S("ab")];

pub const SCHEMA: &[&str] = &["CREATE TABLE t (a INT, b INT, c VARCHAR(10))", "CREATE TABLE u (a INT, d INT)"];

/// Cartesian product of per-column domains = the row menu of a table.
pub fn rows_of(doms: &[&[V]]) -> Vec<Vec<V>> {
    let mut out: Vec<Vec<V>> = vec![vec![]];
    for d in doms {
        let mut nxt = vec![];
        for r in &out {
            for v in d.iter() {
                let mut x = r.clone();
                x.push(v.clone());
                nxt.push(x);
            }
        }
        out = nxt;
    }
    out
}

#[derive(Clone, Debug)]
pub struct Db {
    pub t: Vec<Vec<V>>,
    pub u: Vec<Vec<V>>,
}

impl Db {
    pub fn n_rows(&self) -> usize {
        self.t.len() + self.u.len()
    }
    pub fn inserts(&self) -> Vec<String> {
        let mut out = vec![];
        for (name, rows) in [("t", &self.t), ("u", &self.u)] {
            if !rows.is_empty() {
                let vals: Vec<String> = rows.iter().map(|r| format!("({})", r.iter().map(|v| v.sql()).collect::<Vec<_>>().join(", "))).collect();
                out.push(format!("INSERT INTO {} VALUES {}", name, vals.join(", ")));
            }
        }
        out
    }
    pub fn statements(&self) -> Vec<String> {
        let mut s: Vec<String> = SCHEMA.iter().map(|x| x.to_string()).collect();
        s.extend(self.inserts());
        s
    }
    pub fn json(&self) -> serde_json::Value {
        serde_json::json!(self.statements())
    }
    /// has a NULL / has duplicate rows / has an empty table (classification for coverage numbers)
    pub fn class(&self) -> (bool, bool, bool) {
        let has_null = self.t.iter().chain(self.u.iter()).any(|r| r.contains(&V::Null));
        let dup = |rows: &Vec<Vec<V>>| {
            let mut s = rows.clone();
            s.sort();
            s.windows(2).any(|w| w[0] == w[1])
        };
        (has_null, dup(&self.t) || dup(&self.u), self.t.is_empty() || self.u.is_empty())
    }
}

/// How the contents of one table are enumerated.
#[derive(Clone, Debug)]
pub struct TableSpace {
    pub menu: Vec<Vec<V>>,
    pub max_rows: usize,
    /// false: all bags (rows inserted in menu order); true: all insertion sequences
    pub ordered: bool,
}

impl TableSpace {
    pub fn fixed(rows: Vec<Vec<V>>) -> TableSpace {
        // exactly this content: encoded as a one-element enumeration
        TableSpace { menu: rows, max_rows: usize::MAX, ordered: false }
    }
    pub fn contents(&self) -> Vec<Vec<Vec<V>>> {
        if self.max_rows == usize::MAX {
            return vec![self.menu.clone()];
        }
        let mut out = vec![];
        for k in 0..=self.max_rows {
            let idx = if self.ordered { vcore::util::sequences(self.menu.len(), k) } else { vcore::util::multisets(self.menu.len(), k) };
            for ix in idx {
                out.push(ix.iter().map(|i| self.menu[*i].clone()).collect());
            }
        }
        out
    }
}

#[derive(Clone, Debug)]
pub struct DbSpace {
    pub t: TableSpace,
    pub u: TableSpace,
}

impl DbSpace {
    /// All databases, fewest rows first (so the first witness of a signature is the smallest).
    pub fn all(&self) -> Vec<Db> {
        let ts = self.t.contents();
        let us = self.u.contents();
        let mut out = Vec::with_capacity(ts.len() * us.len());
        for t in &ts {
            for u in &us {
                out.push(Db { t: t.clone(), u: u.clone() });
            }
        }
        out.sort_by_key(|d| d.n_rows());
        out
    }
    pub fn describe(&self) -> String {
        let d = |s: &TableSpace| {
            if s.max_rows == usize::MAX {
                format!("fixed {} rows", s.menu.len())
            } else {
                format!("all {} of <= {} rows over a menu of {} rows", if s.ordered { "insertion sequences" } else { "bags" }, s.max_rows, s.menu.len())
            }
        };
        format!("t: {}; u: {}", d(&self.t), d(&self.u))
    }
}

pub fn vibe_db(db: &Db) -> Database {
    let mut d = Database::new();
    for s in db.statements() {
        vcore::exec::must(&mut d, &s);
    }
    d
}

thread_local! {
    static LITE: RefCell<Option<Connection>> = const { RefCell::new(None) };
}

/// Run `f` with this thread's SQLite connection holding exactly the contents of `db`
/// (one connection per thread, so prepared statements are cached across databases).
pub fn with_lite<R>(db: &Db, f: impl FnOnce(&Connection) -> R) -> R {
    LITE.with(|cell| {
        let mut slot = cell.borrow_mut();
        if slot.is_none() {
            let c = Connection::open_in_memory().expect("sqlite open");
            c.set_prepared_statement_cache_capacity(50_000);
            for s in SCHEMA {
                c.execute_batch(s).expect("sqlite schema");
            }
            *slot = Some(c);
        }
        let c = slot.as_ref().unwrap();
        c.execute_batch("DELETE FROM t; DELETE FROM u;").expect("sqlite clear");
        for s in db.inserts() {
            c.execute_batch(&s).expect("sqlite insert");
        }
        f(c)
    })
}

/// A fresh private SQLite database (used by C32 histories and by replays).
pub fn fresh_lite(db: &Db) -> Connection {
    let c = Connection::open_in_memory().expect("sqlite open");
    for s in db.statements() {
        c.execute_batch(&s).expect("sqlite load");
    }
    c
}

/// Execute a query on SQLite; values mapped onto `SqlValue` so that `vcore::val` normalises both sides alike.
pub fn lite_rows(c: &Connection, sql: &str) -> Result<Vec<Vec<SqlValue>>, String> {
    let mut st = c.prepare_cached(sql).map_err(|e| format!("prepare: {}", e))?;
    let n = st.column_count();
    let mut rows = st.query([]).map_err(|e| format!("query: {}", e))?;
    let mut out = vec![];
    loop {
        match rows.next() {
            Ok(Some(r)) => {
                let mut v = Vec::with_capacity(n);
                for i in 0..n {
                    v.push(match r.get_ref(i).map_err(|e| e.to_string())? {
                        rusqlite::types::ValueRef::Null => SqlValue::Null,
                        rusqlite::types::ValueRef::Integer(i) => SqlValue::Bigint(i),
                        rusqlite::types::ValueRef::Real(f) => SqlValue::Double(f),
                        rusqlite::types::ValueRef::Text(t) => SqlValue::Varchar(String::from_utf8_lossy(t).into_owned()),
                        rusqlite::types::ValueRef::Blob(_) => return Err("blob".into()),
                    });
                }
                out.push(v);
            }
            Ok(None) => break,
            Err(e) => return Err(format!("step: {}", e)),
        }
    }
    Ok(out)
}
