//! C32 — views and CTEs behave as their defining query (DESIGN §5 C32).
//!
//! Part 1 (equivalence): definitions D × outer queries O × small databases; the same outer query is
//! run three ways on vibesql — (a) against `CREATE VIEW vw AS D`, (b) `WITH cv AS (D) O[cv]`,
//! (c) `O[(D) AS cv]` — and (a), (b) must return the bag (c) returns.
//! Part 2 (freshness): for a view over base tables, after every step of every DML history of bounded
//! length, `SELECT * FROM vw` must equal the defining query executed directly on the current tables.

use std::collections::HashSet;
use std::time::Instant;

use serde_json::{json, Value};
use vibesql_storage::Database;

use crate::dbs::{self, Db, DbSpace, TableSpace, V};
use crate::q::*;
use vcore::exec::{self, Out};
use vcore::report::Report;
use vcore::val;

#[derive(Clone, Copy, PartialEq, Debug)]
enum Ty {
    I,
    S,
}

struct Def {
    name: &'static str,
    /// the defining query
    q: Q,
    /// explicit column list (`CREATE VIEW vw (x, y) AS …`, `WITH cv (x, y) AS …`)
    col_list: Option<Vec<&'static str>>,
    /// visible column names and types of the view
    cols: Vec<(&'static str, Ty)>,
    /// mechanism classes for the coverage table
    class: &'static str,
}

fn defs() -> Vec<Def> {
    let a = || col("a");
    let b = || col("b");
    let ii = |x: &'static str, y: &'static str| vec![(x, Ty::I), (y, Ty::I)];
    vec![
        Def { name: "proj", q: sel(vec![item(a()), item(b())], table("t")).q(), col_list: None, cols: ii("a", "b"), class: "projection" },
        Def { name: "star", q: sel(vec![Item::Star], table("u")).q(), col_list: None, cols: ii("a", "d"), class: "projection" },
        Def { name: "filter", q: sel(vec![item(a()), item(b())], table("t")).wher(bin(">", b(), int(0))).q(), col_list: None, cols: ii("a", "b"), class: "filter" },
        Def { name: "empty", q: sel(vec![item(a()), item(b())], table("t")).wher(bin("=", int(0), int(1))).q(), col_list: None, cols: ii("a", "b"), class: "empty result" },
        Def { name: "alias", q: sel(vec![item_as(a(), "x"), item_as(b(), "y")], table("t")).q(), col_list: None, cols: ii("x", "y"), class: "projection" },
        Def { name: "collist", q: sel(vec![item(a()), item(b())], table("t")).q(), col_list: Some(vec!["x", "y"]), cols: ii("x", "y"), class: "explicit column list" },
        // an explicit column list over a wildcard body, with fresh names and with the base names permuted
        Def { name: "collist_star", q: sel(vec![Item::Star], table("u")).q(), col_list: Some(vec!["x", "y"]), cols: ii("x", "y"), class: "explicit column list" },
        Def { name: "collist_star_swap", q: sel(vec![Item::Star], table("u")).q(), col_list: Some(vec!["d", "a"]), cols: ii("d", "a"), class: "explicit column list" },
        Def { name: "swapnames", q: sel(vec![item_as(b(), "a"), item_as(a(), "b")], table("t")).q(), col_list: None, cols: ii("a", "b"), class: "projection" },
        Def { name: "expr", q: sel(vec![item_as(bin("+", a(), b()), "s"), item(a())], table("t")).q(), col_list: None, cols: ii("s", "a"), class: "expression columns" },
        Def { name: "const", q: sel(vec![item_as(int(1), "one"), item(a())], table("t")).q(), col_list: None, cols: ii("one", "a"), class: "constant column" },
        Def { name: "nullcol", q: sel(vec![item(a()), item_as(E::Null, "z")], table("t")).q(), col_list: None, cols: ii("a", "z"), class: "constant column" },
        Def { name: "group", q: sel(vec![item(a()), item_as(count_star(), "n")], table("t")).group(vec![a()]).q(), col_list: None, cols: ii("a", "n"), class: "aggregate" },
        Def { name: "agg", q: sel(vec![item_as(count_star(), "n"), item_as(agg("SUM", b()), "s")], table("t")).q(), col_list: None, cols: ii("n", "s"), class: "aggregate" },
        Def { name: "aggmin", q: sel(vec![item_as(agg("MIN", a()), "m"), item_as(agg("COUNT", b()), "n")], table("t")).wher(bin(">", b(), int(0))).q(), col_list: None, cols: ii("m", "n"), class: "aggregate" },
        Def { name: "distinct", q: sel(vec![item(a())], table("t")).dist(true).q(), col_list: None, cols: vec![("a", Ty::I)], class: "distinct" },
        Def {
            name: "join",
            q: sel(vec![item_as(col("t.a"), "a"), item_as(col("u.d"), "d")], join("JOIN", table("t"), table("u"), Some(bin("=", col("t.a"), col("u.a"))))).q(),
            col_list: None,
            cols: ii("a", "d"),
            class: "join",
        },
        Def {
            name: "leftjoin",
            q: sel(vec![item_as(col("t.b"), "b"), item_as(col("u.d"), "d")], join("LEFT JOIN", table("t"), table("u"), Some(bin("=", col("t.a"), col("u.a"))))).q(),
            col_list: None,
            cols: ii("b", "d"),
            class: "join",
        },
        Def { name: "strfirst", q: sel(vec![item(col("c")), item(a())], table("t")).q(), col_list: None, cols: vec![("c", Ty::S), ("a", Ty::I)], class: "projection" },
        Def {
            name: "union",
            q: Q::body(Body::SetOp(Box::new(Body::Select(sel(vec![item(a())], table("t")))), SetOp::Union, false, sel(vec![item(a())], table("u")))),
            col_list: None,
            cols: vec![("a", Ty::I)],
            class: "set operation",
        },
        Def {
            name: "subq",
            q: sel(vec![item(a()), item(b())], table("t")).wher(E::InSub(Box::new(a()), false, Box::new(sel(vec![item(col("u.a"))], table("u")).q()))).q(),
            col_list: None,
            cols: ii("a", "b"),
            class: "filter",
        },
        Def {
            name: "case",
            q: sel(vec![item_as(E::Case(vec![(E::IsNull(Box::new(a()), false), int(0 - 1))], Some(Box::new(a()))), "k"), item(b())], table("t")).q(),
            col_list: None,
            cols: ii("k", "b"),
            class: "expression columns",
        },
    ]
}

/// Outer-query shapes over a relation called `rel` with the given columns.
fn outers(rel: &str, cols: &[(&'static str, Ty)], thorough: bool) -> Vec<(&'static str, Q)> {
    let k1 = cols[0].0;
    let t1 = cols[0].1;
    let c1 = || col(k1);
    let lit = |t: Ty| if t == Ty::I { int(1) } else { st("a") };
    let two = cols.len() > 1;
    let k2 = if two { cols[1].0 } else { cols[0].0 };
    let t2 = if two { cols[1].1 } else { cols[0].1 };
    let c2 = || col(k2);
    let r = || table(rel);
    let qual = |c: &str| col(&format!("{}.{}", rel, c));
    let isnull = |e: E, neg: bool| E::IsNull(Box::new(e), neg);
    let mut v: Vec<(&'static str, Q)> = vec![];
    v.push(("star", sel(vec![Item::Star], r()).q()));
    v.push(("col", sel(vec![item(c1())], r()).q()));
    if two {
        v.push(("cols_swapped", sel(vec![item(c2()), item(c1())], r()).q()));
    }
    for (n, op) in [("where_eq", "="), ("where_ne", "<>"), ("where_lt", "<"), ("where_le", "<="), ("where_gt", ">"), ("where_ge", ">=")] {
        v.push((n, sel(vec![Item::Star], r()).wher(bin(op, c1(), lit(t1))).q()));
    }
    v.push(("where_is_null", sel(vec![Item::Star], r()).wher(isnull(c1(), false)).q()));
    v.push(("where_and", sel(vec![Item::Star], r()).wher(bin("AND", isnull(c2(), true), bin("=", c1(), lit(t1)))).q()));
    v.push(("where_or", sel(vec![Item::Star], r()).wher(bin("OR", isnull(c2(), false), bin("<>", c1(), lit(t1)))).q()));
    v.push(("where_in", sel(vec![Item::Star], r()).wher(E::InList(Box::new(c1()), false, vec![lit(t1), E::Null])).q()));
    v.push(("where_qualified", sel(vec![item(qual(k1))], r()).wher(bin("=", qual(k1), lit(t1))).q()));
    v.push(("alias", sel(vec![item(col(&format!("w.{}", k1)))], table_as(rel, "w")).wher(bin("=", col(&format!("w.{}", k1)), lit(t1))).q()));
    v.push(("count", sel(vec![item(count_star())], r()).q()));
    let mut aggs = vec![item(agg("COUNT", c1())), item(agg("MIN", c2())), item(agg("MAX", c1()))];
    if t1 == Ty::I {
        aggs.push(item(agg("SUM", c1())));
    }
    v.push(("aggregates", sel(aggs, r()).q()));
    v.push(("count_where", sel(vec![item(count_star())], r()).wher(bin("=", c1(), lit(t1))).q()));
    v.push(("group_by", sel(vec![item(c1()), item(count_star())], r()).group(vec![c1()]).q()));
    v.push(("distinct", sel(vec![item(c1())], r()).dist(true).q()));
    v.push(("order_limit", sel(vec![item(c1())], r()).q().order(vec![(Key::Expr(c1()), false)]).lim(Some(1), None)));
    v.push(("order_desc_limit", sel(vec![item(c1())], r()).q().order(vec![(Key::Expr(c1()), true)]).lim(Some(2), None)));
    if t1 == Ty::I {
        v.push(("expr_where", sel(vec![item(bin("+", c1(), int(1)))], r()).wher(bin(">", c1(), int(0))).q()));
        v.push(("join_table", sel(vec![item(qual(k1)), item(col("u.d"))], join("JOIN", r(), table("u"), Some(bin("=", qual(k1), col("u.a"))))).q()));
        v.push(("table_left_join", sel(vec![item(col("u.a")), item(qual(k1))], join("LEFT JOIN", table("u"), r(), Some(bin("=", qual(k1), col("u.a"))))).q()));
        v.push(("in_subquery", sel(vec![item(col("u.a"))], table("u")).wher(E::InSub(Box::new(col("u.a")), false, Box::new(sel(vec![item(qual(k1))], r()).q()))).q()));
        v.push((
            "exists_subquery",
            sel(vec![item(col("u.a"))], table("u")).wher(E::Exists(false, Box::new(sel(vec![item(int(1))], r()).wher(bin("=", qual(k1), col("u.a"))).q()))).q(),
        ));
        v.push(("union_all", Q::body(Body::SetOp(Box::new(Body::Select(sel(vec![item(c1())], r()))), SetOp::Union, true, sel(vec![item(col("a"))], table("u"))))));
    }
    v.push(("scalar_subquery", sel(vec![item(col("u.a")), item(E::Sub(Box::new(sel(vec![item(count_star())], r()).q())))], table("u")).q()));
    v.push((
        "self_join",
        sel(vec![item(col(&format!("x.{}", k1))), item(col(&format!("y.{}", k1)))], join("JOIN", table_as(rel, "x"), table_as(rel, "y"), Some(bin("=", col(&format!("x.{}", k1)), col(&format!("y.{}", k1)))))).q(),
    ));
    if two && t1 == t2 {
        v.push(("where_col_col", sel(vec![Item::Star], r()).wher(bin("=", c1(), c2())).q()));
    }
    if thorough {
        v.push(("where_not", sel(vec![Item::Star], r()).wher(not(bin("=", c1(), lit(t1)))).q()));
        v.push(("where_between", sel(vec![Item::Star], r()).wher(E::Between(Box::new(c1()), false, Box::new(lit(t1)), Box::new(lit(t1)))).q()));
        v.push(("having", sel(vec![item(c1()), item(count_star())], r()).group(vec![c1()]).hav(Some(bin(">", count_star(), int(1)))).q()));
        v.push(("order_all", sel(vec![item(c1())], r()).q().order(vec![(Key::Pos(1), true)])));
        v.push(("nested_derived", sel(vec![item(col(&format!("g.{}", k1)))], From::Derived(Box::new(sel(vec![item(c1())], r()).wher(isnull(c1(), true)).q()), "g".into())).q()));
    }
    v
}

const VIEW: &str = "vw";
const CTE: &str = "cv";

struct Triple {
    def: usize,
    outer: &'static str,
    /// O[vw]
    a: String,
    /// WITH cv AS (D) O[cv]
    b: String,
    /// O[(D) AS cv]
    c: String,
    c_lite: String,
    stmts: [Option<vibesql_ast::SelectStmt>; 3],
}

fn create_view_sql(d: &Def) -> String {
    let cols = match &d.col_list {
        Some(c) => format!(" ({})", c.join(", ")),
        None => String::new(),
    };
    format!("CREATE VIEW {}{} AS {}", VIEW, cols, d.q.render(Dialect::Vibe))
}

/// D with the explicit column list folded into aliases (what the derived-table form needs).
fn def_for_derived(d: &Def) -> Q {
    match &d.col_list {
        None => d.q.clone(),
        Some(names) => {
            let mut q = d.q.clone();
            if let Body::Select(s) = &mut q.body {
                // a wildcard body: spell the base table's columns out so that they can be renamed
                if s.items.len() == 1 && matches!(s.items[0], Item::Star) {
                    let base: &[&str] = match &s.from {
                        Some(From::Table(t, _)) if t == "u" => &["a", "d"],
                        Some(From::Table(t, _)) if t == "t" => &["a", "b", "c"],
                        _ => &[],
                    };
                    if base.len() == names.len() {
                        s.items = base.iter().map(|c| Item::Expr(col(c), None)).collect();
                    }
                }
                for (it, n) in s.items.iter_mut().zip(names.iter()) {
                    if let Item::Expr(e, _) = it {
                        *it = Item::Expr(e.clone(), Some(n.to_string()));
                    }
                }
            }
            q
        }
    }
}

fn triples(ds: &[Def], thorough: bool) -> Vec<Triple> {
    let mut out = vec![];
    for (di, d) in ds.iter().enumerate() {
        for (oname, o) in outers(VIEW, &d.cols, thorough) {
            let a = o.render(Dialect::Vibe);
            let ocv = o.subst_table(VIEW, CTE, &|alias| From::Table(CTE.to_string(), alias.cloned()));
            let mut b = ocv.clone();
            b.with = vec![Cte { name: CTE.to_string(), cols: d.col_list.as_ref().map(|c| c.iter().map(|x| x.to_string()).collect()), q: d.q.clone() }];
            let dq = def_for_derived(d);
            let c = o.subst_table(VIEW, CTE, &|alias| From::Derived(Box::new(dq.clone()), alias.cloned().unwrap_or_else(|| CTE.to_string())));
            let texts = [a, b.render(Dialect::Vibe), c.render(Dialect::Vibe)];
            let stmts = [0, 1, 2].map(|i| match exec::parse(&texts[i]) {
                Ok(vibesql_ast::Statement::Select(s)) => Some(*s),
                _ => None,
            });
            let [a, b, cc] = texts;
            out.push(Triple { def: di, outer: oname, a, b, c: cc, c_lite: c.render(Dialect::Sqlite), stmts });
        }
    }
    out
}

fn db_space(thorough: bool) -> DbSpace {
    // insertion sequences matter (column metadata is derived from the first result row);
    // c follows a so that a VARCHAR column varies without enlarging the menu
    if thorough {
        let mut menu = vec![];
        for (a, c) in [(V::Null, V::Null), (V::I(0), V::S("a")), (V::I(1), V::S("b"))] {
            for b in [V::Null, V::I(1)] {
                menu.push(vec![a.clone(), b, c.clone()]);
            }
        }
        DbSpace { t: TableSpace { menu, max_rows: 2, ordered: true }, u: TableSpace { menu: vec![vec![V::I(1), V::I(1)], vec![V::Null, V::I(1)]], max_rows: 1, ordered: false } }
    } else {
        let menu = vec![vec![V::Null, V::Null, V::Null], vec![V::I(0), V::I(1), V::S("a")], vec![V::I(1), V::Null, V::S("b")]];
        DbSpace { t: TableSpace { menu, max_rows: 2, ordered: true }, u: TableSpace { menu: vec![vec![V::I(1), V::I(1)]], max_rows: 1, ordered: false } }
    }
}

#[derive(Default)]
struct Out1 {
    cases: u64,
    agree: u64,
    nonempty: u64,
    view_rejected: u64,
    derived_err: u64,
    all_err: u64,
    outcomes: Vec<u64>,
    bad: Vec<(usize, &'static str, String)>, // (triple idx, kind, what)
    /// triples whose derived-table form vibesql rejects (triple idx, message)
    derived_rejected: Vec<(usize, String)>,
}

fn bag_of(o: &Out) -> Option<Vec<Vec<val::NV>>> {
    o.rows().map(|r| val::bag(r))
}

fn run_equiv_db(db: &Db, ds: &[Def], ts: &[Triple]) -> Out1 {
    let base = dbs::vibe_db(db);
    let mut o = Out1::default();
    // one database (base + the view) per definition; the executor is reused for all its triples
    let mut start = 0;
    while start < ts.len() {
        let def = ts[start].def;
        let end = start + ts[start..].iter().take_while(|t| t.def == def).count();
        let mut d = base.clone();
        let r = exec::exec(&mut d, &create_view_sql(&ds[def]));
        if !r.is_ok() {
            o.view_rejected += (end - start) as u64;
        } else {
            run_equiv_def(&d, &ts[start..end], start, &mut o);
        }
        start = end;
    }
    o
}

fn run_equiv_def(d: &Database, ts: &[Triple], offset: usize, o: &mut Out1) {
    let mut vibe = crate::oracle::Vibe::new(d);
    for (k, t) in ts.iter().enumerate() {
        let ti = offset + k;
        let mut run = |i: usize| -> Out {
            match &t.stmts[i] {
                Some(s) => vibe.select(s),
                None => Out::Err(exec::ErrClass::Parse, "parse error".into()),
            }
        };
        let rc = run(2);
        let ra = run(0);
        let rb = run(1);
        o.cases += 1;
        let Some(bc) = bag_of(&rc) else {
            if o.derived_rejected.len() < 400 && !o.derived_rejected.iter().any(|(i, _)| *i == ti) {
                o.derived_rejected.push((ti, rc.brief()));
            }
            if ra.is_ok() || rb.is_ok() {
                o.derived_err += 1;
            } else {
                o.all_err += 1;
            }
            continue;
        };
        o.outcomes.push(vcore::util::hash64(format!("{}:{:?}", ti, bc).as_bytes()));
        if !bc.is_empty() {
            o.nonempty += 1;
        }
        let mut ok = true;
        for (form, r) in [("view", &ra), ("cte", &rb)] {
            match bag_of(r) {
                Some(b) if b == bc => {}
                Some(b) => {
                    ok = false;
                    o.bad.push((ti, if form == "view" { "view_differs" } else { "cte_differs" }, format!("{} form returns {} but the derived-table form returns {}", form, val::fmt_bag(&b), val::fmt_bag(&bc))));
                }
                None => {
                    ok = false;
                    o.bad.push((ti, if form == "view" { "view_fails" } else { "cte_fails" }, format!("{} form fails ({}) but the derived-table form returns {}", form, r.brief(), val::fmt_bag(&bc))));
                }
            }
        }
        if ok {
            o.agree += 1;
        }
    }
}

fn equiv_case(db: &Db, d: &Def, t: &Triple) -> Value {
    json!({"part": "equivalence", "db": db.statements(), "create_view": create_view_sql(d), "view_query": t.a, "cte_query": t.b, "derived_query": t.c, "derived_query_sqlite": t.c_lite})
}

/// Fresh re-execution of an equivalence case from its JSON; returns a description per form.
fn rerun_equiv(case: &Value) -> Result<[Out; 3], String> {
    let mut db = Database::new();
    for s in case["db"].as_array().ok_or("db")? {
        let s = s.as_str().ok_or("db stmt")?;
        let o = exec::exec(&mut db, s);
        if !o.is_ok() {
            return Err(format!("load `{}`: {}", s, o.brief()));
        }
    }
    let cv = exec::exec(&mut db, case["create_view"].as_str().ok_or("create_view")?);
    if !cv.is_ok() {
        return Err(format!("CREATE VIEW rejected on replay: {}", cv.brief()));
    }
    let run = |k: &str| -> Out { exec::select(&db, case[k].as_str().unwrap_or("")) };
    Ok([run("view_query"), run("cte_query"), run("derived_query")])
}

fn sqlite_says(case: &Value) -> String {
    let c = match rusqlite::Connection::open_in_memory() {
        Ok(c) => c,
        Err(_) => return "?".into(),
    };
    for s in case["db"].as_array().map(|a| a.as_slice()).unwrap_or(&[]) {
        if c.execute_batch(s.as_str().unwrap_or("")).is_err() {
            return "?".into();
        }
    }
    match dbs::lite_rows(&c, case["derived_query_sqlite"].as_str().unwrap_or("")) {
        Ok(r) => val::fmt_bag(&val::bag(&r)),
        Err(e) => format!("(SQLite: {})", vcore::util::trunc(&e, 80)),
    }
}

// ------------------------------------------------------------------------------------------------
// part 2: freshness

const DML: &[&str] = &[
    "INSERT INTO t VALUES (1, 1, 'b')",
    "INSERT INTO t VALUES (NULL, 2, NULL)",
    "INSERT INTO t VALUES (2, 0, 'ab'), (0, 1, 'a')",
    "INSERT INTO u VALUES (1, 2)",
    "UPDATE t SET b = b + 1",
    "UPDATE t SET a = NULL WHERE a = 1",
    "UPDATE u SET a = 0",
    "DELETE FROM t WHERE a = 0",
    "DELETE FROM t WHERE b IS NULL",
    "DELETE FROM t",
    "DELETE FROM u",
    "TRUNCATE TABLE t",
    "INSERT INTO t SELECT a, d, 'a' FROM u",
];

const FRESH_START: &[&[&str]] = &[&[], &["INSERT INTO t VALUES (0, 1, 'a'), (1, NULL, 'b')", "INSERT INTO u VALUES (0, 1)"], &["INSERT INTO t VALUES (NULL, NULL, NULL)", "INSERT INTO u VALUES (NULL, 1), (1, 1)"]];

struct FreshOut {
    states: u64,
    reads: u64,
    nonempty: u64,
    dml_ok: u64,
    dml_err: u64,
    outcomes: HashSet<u64>,
    bad: Vec<(String, Value, String)>, // (def name, case, what)
}

fn fresh_case(start: &[&str], create: &[String], hist: &[&str], view: &str, direct: &str) -> Value {
    json!({"part": "freshness", "schema": dbs::SCHEMA, "start": start, "create_views": create, "history": hist, "view_read": view, "direct_read": direct})
}

fn check_fresh(db: &Database, reads: &[(String, String)]) -> Vec<(usize, String, Option<Vec<Vec<val::NV>>>)> {
    // returns per read: (index, mismatch text or "", observed bag)
    let mut out = vec![];
    for (i, (view_sql, direct_sql)) in reads.iter().enumerate() {
        let v = exec::select(db, view_sql);
        let d = exec::select(db, direct_sql);
        match (bag_of(&v), bag_of(&d)) {
            (Some(a), Some(b)) if a == b => out.push((i, String::new(), Some(a))),
            (Some(a), Some(b)) => out.push((i, format!("`{}` returns {} but the tables now give {}", view_sql, val::fmt_bag(&a), val::fmt_bag(&b)), Some(a))),
            (None, Some(b)) => out.push((i, format!("`{}` fails ({}) but the defining query returns {}", view_sql, v.brief(), val::fmt_bag(&b)), None)),
            (_, None) => out.push((i, String::new(), None)), // defining query itself fails: not a case
        }
    }
    out
}

fn dml_alphabet(thorough: bool) -> Vec<&'static str> {
    if thorough {
        DML.to_vec()
    } else {
        DML.iter().copied().filter(|s| !["UPDATE u SET a = 0", "DELETE FROM t WHERE b IS NULL", "DELETE FROM u", "INSERT INTO t VALUES (2, 0, 'ab'), (0, 1, 'a')"].contains(s)).collect()
    }
}

fn run_fresh(ds: &[Def], depth: usize, shard: usize, k: usize) -> FreshOut {
    let alphabet = dml_alphabet(depth > 2);
    let mut fo = FreshOut { states: 0, reads: 0, nonempty: 0, dml_ok: 0, dml_err: 0, outcomes: HashSet::new(), bad: vec![] };
    // definitions over base tables only; a second-level view reads the first
    let jobs: Vec<(usize, usize)> = (0..ds.len()).flat_map(|d| (0..FRESH_START.len()).map(move |s| (d, s))).enumerate().filter(|(j, _)| j % k == shard).map(|(_, x)| x).collect();
    let results = vcore::util::par_map(&jobs, |_, (di, si)| {
        let d = &ds[*di];
        let start = FRESH_START[*si];
        let mut local = FreshOut { states: 0, reads: 0, nonempty: 0, dml_ok: 0, dml_err: 0, outcomes: HashSet::new(), bad: vec![] };
        let k1 = d.cols[0].0;
        let create = vec![create_view_sql(d), format!("CREATE VIEW vw2 AS SELECT {} FROM {} WHERE {} IS NOT NULL", k1, VIEW, k1)];
        let dq = def_for_derived(d);
        let direct = dq.render(Dialect::Vibe);
        let direct2 = sel(vec![item(col(k1))], From::Derived(Box::new(dq.clone()), "cv".into())).wher(E::IsNull(Box::new(col(k1)), true)).q().render(Dialect::Vibe);
        let reads = vec![(format!("SELECT * FROM {}", VIEW), direct), ("SELECT * FROM vw2".to_string(), direct2)];
        let mut base = Database::new();
        for s in dbs::SCHEMA.iter().chain(start.iter()) {
            exec::must(&mut base, s);
        }
        let mut views_ok = true;
        for c in &create {
            if !exec::exec(&mut base, c).is_ok() {
                views_ok = false;
            }
        }
        if !views_ok {
            return local;
        }
        // depth-first over all histories of length <= depth
        #[allow(clippy::too_many_arguments)]
        fn rec(db: &Database, hist: &mut Vec<&'static str>, depth: usize, alphabet: &[&'static str], reads: &[(String, String)], local: &mut FreshOut, mk: &dyn Fn(&[&str], &str, &str) -> Value, dname: &str) {
            local.states += 1;
            for (i, what, bag) in check_fresh(db, reads) {
                local.reads += 1;
                if let Some(b) = &bag {
                    if !b.is_empty() {
                        local.nonempty += 1;
                    }
                    local.outcomes.insert(vcore::util::hash64(format!("{}:{}:{:?}", dname, i, b).as_bytes()));
                }
                if !what.is_empty() {
                    local.bad.push((dname.to_string(), mk(hist, &reads[i].0, &reads[i].1), what));
                }
            }
            if hist.len() == depth {
                return;
            }
            for op in alphabet {
                let mut next = db.clone();
                let o = exec::exec(&mut next, op);
                if o.is_ok() {
                    local.dml_ok += 1;
                } else {
                    local.dml_err += 1;
                }
                hist.push(op);
                rec(&next, hist, depth, alphabet, reads, local, mk, dname);
                hist.pop();
            }
        }
        let mk = |h: &[&str], v: &str, dr: &str| fresh_case(start, &create, h, v, dr);
        rec(&base, &mut vec![], depth, &alphabet, &reads, &mut local, &mk, d.name);
        local
    });
    for r in results {
        fo.states += r.states;
        fo.reads += r.reads;
        fo.nonempty += r.nonempty;
        fo.dml_ok += r.dml_ok;
        fo.dml_err += r.dml_err;
        fo.outcomes.extend(r.outcomes);
        fo.bad.extend(r.bad);
    }
    fo
}

fn rerun_fresh(case: &Value, verbose: bool) -> Result<(Out, Out), String> {
    let mut db = Database::new();
    let list = |k: &str| -> Vec<String> { case[k].as_array().map(|a| a.iter().filter_map(|x| x.as_str().map(|s| s.to_string())).collect()).unwrap_or_default() };
    for s in list("schema").iter().chain(list("start").iter()).chain(list("create_views").iter()) {
        let o = exec::exec(&mut db, s);
        if !o.is_ok() {
            return Err(format!("setup `{}`: {}", s, o.brief()));
        }
    }
    for s in list("history") {
        let o = exec::exec(&mut db, &s);
        if verbose {
            println!("{}\n   => {}", s, o.brief());
        }
    }
    Ok((exec::select(&db, case["view_read"].as_str().unwrap_or("")), exec::select(&db, case["direct_read"].as_str().unwrap_or(""))))
}

fn hist_kinds(case: &Value) -> String {
    let mut k: Vec<String> = case["history"]
        .as_array()
        .map(|a| {
            a.iter()
                .filter_map(|x| x.as_str())
                .map(|s| {
                    let w: Vec<&str> = s.split_whitespace().collect();
                    if s.starts_with("INSERT INTO t SELECT") {
                        "INSERT-SELECT".to_string()
                    } else if w[0] == "DELETE" && w.len() == 3 {
                        "DELETE-all".to_string()
                    } else {
                        w[0].to_string()
                    }
                })
                .collect()
        })
        .unwrap_or_default();
    k.dedup();
    k.join("+")
}

fn fresh_defs() -> Vec<Def> {
    defs().into_iter().filter(|d| ["proj", "filter", "alias", "collist", "expr", "group", "agg", "distinct", "join", "leftjoin", "union", "subq", "nullcol"].contains(&d.name)).collect()
}

fn spaces(tier: &str) -> (Vec<Def>, Vec<Triple>, DbSpace, Vec<Db>, bool) {
    let thorough = tier == "thorough";
    let ds = defs();
    let ts = triples(&ds, thorough);
    let space = db_space(thorough);
    let mut dbsv = space.all();
    let mut exhaustive = true;
    if let Some(n) = std::env::var("VERIF_C32_MAXDBS").ok().and_then(|s| s.parse::<usize>().ok()) {
        if n < dbsv.len() {
            dbsv.truncate(n);
            exhaustive = false;
        }
    }
    (ds, ts, space, dbsv, exhaustive)
}

/// `sqlspacecheck shard C32 <tier> <i> <k>`
pub fn shard_main(tier: &str, i: usize, k: usize) -> i32 {
    let (ds, ts, _space, dbsv, _) = spaces(tier);
    let mut tot = Out1::default();
    let mut bad: Vec<Value> = vec![];
    let mut per_sig: std::collections::HashMap<(usize, &'static str), usize> = Default::default();
    let mut bad_total = 0u64;
    for (idx, db) in dbsv.iter().enumerate() {
        if idx % k != i {
            continue;
        }
        let o = run_equiv_db(db, &ds, &ts);
        tot.cases += o.cases;
        tot.agree += o.agree;
        tot.nonempty += o.nonempty;
        tot.view_rejected += o.view_rejected;
        tot.derived_err += o.derived_err;
        tot.all_err += o.all_err;
        tot.outcomes.extend(o.outcomes);
        for (ti, m) in o.derived_rejected {
            if !tot.derived_rejected.iter().any(|(i, _)| *i == ti) {
                tot.derived_rejected.push((ti, m));
            }
        }
        for (ti, kind, what) in o.bad {
            bad_total += 1;
            let c = per_sig.entry((ti, kind)).or_insert(0);
            *c += 1;
            if *c <= 2 {
                bad.push(json!([idx, ti, kind, what]));
            }
        }
    }
    let depth = if tier == "thorough" { 3 } else { 2 };
    let fo = run_fresh(&fresh_defs(), depth, i, k);
    println!(
        "{}",
        json!({
            "cases": tot.cases, "agree": tot.agree, "nonempty": tot.nonempty, "view_rejected": tot.view_rejected, "derived_err": tot.derived_err, "all_err": tot.all_err,
            "outcomes": tot.outcomes, "bad": bad, "bad_total": bad_total,
            "derived_rejected": tot.derived_rejected.iter().map(|(i, m)| json!([i, m])).collect::<Vec<_>>(),
            "fresh": {"states": fo.states, "reads": fo.reads, "nonempty": fo.nonempty, "dml_ok": fo.dml_ok, "dml_err": fo.dml_err,
                      "outcomes": fo.outcomes.iter().collect::<Vec<_>>(),
                      "bad": fo.bad.iter().map(|(d, c, w)| json!([d, c, w])).collect::<Vec<_>>()},
        })
    );
    0
}

fn u(v: &Value) -> u64 {
    v.as_u64().unwrap_or(0)
}

/// Definitions whose defining query, executed directly, does not answer the same bag every time on some
/// database of a probe set (vibesql's hash maps are randomly seeded; e.g. an unqualified column that
/// the semi-join rewrite makes ambiguous). Comparing two executions of such a query says nothing about
/// views, so its cases are skipped (and counted) for this run.
fn unstable_definitions(ds: &[Def], dbsv: &[Db]) -> Vec<&'static str> {
    let probe: Vec<&Db> = dbsv.iter().rev().step_by((dbsv.len() / 12).max(1)).take(12).collect();
    let mut out = vec![];
    for d in ds {
        let sql = def_for_derived(d).render(Dialect::Vibe);
        let mut unstable = false;
        'dbs: for db in &probe {
            let vdb = dbs::vibe_db(db);
            let first = bag_of(&exec::select(&vdb, &sql));
            for _ in 0..12 {
                if bag_of(&exec::select(&vdb, &sql)) != first {
                    unstable = true;
                    break 'dbs;
                }
            }
        }
        if unstable {
            out.push(d.name);
        }
    }
    out
}

/// The defining (derived-table / direct) form must answer the same every time, otherwise comparing two
/// executions of it says nothing about views (engine hash maps are randomly seeded).
fn stable<F: Fn() -> Option<Vec<Vec<val::NV>>>>(f: F) -> bool {
    let first = f();
    (0..5).all(|_| f() == first)
}

pub fn run(tier: &str) -> i32 {
    let mut rep = Report::new("C32", tier, "model_checking");
    let thorough = tier == "thorough";
    let start = Instant::now();
    let (ds, ts, space, dbsv, exhaustive) = spaces(tier);
    let unparsed: Vec<&Triple> = ts.iter().filter(|t| t.stmts.iter().any(|s| s.is_none())).collect();
    let k = crate::shard::n_shards();
    let docs = match crate::shard::run_shards("C32", tier, k) {
        Ok(d) => d,
        Err(e) => {
            rep.machinery_error(format!("worker processes: {}", e));
            rep.set("exhaustive", json!(false));
            rep.set("states", json!(0));
            rep.set("transitions", json!(0));
            rep.set("samples", json!([]));
            return rep.finish();
        }
    };
    let explore_s = start.elapsed().as_secs_f64();

    let mut tot = Out1::default();
    let mut outcomes: HashSet<u64> = HashSet::new();
    let mut bad: Vec<(usize, usize, String, String)> = vec![];
    let mut bad_total = 0u64;
    let mut fo = FreshOut { states: 0, reads: 0, nonempty: 0, dml_ok: 0, dml_err: 0, outcomes: HashSet::new(), bad: vec![] };
    for d in &docs {
        tot.cases += u(&d["cases"]);
        tot.agree += u(&d["agree"]);
        tot.nonempty += u(&d["nonempty"]);
        tot.view_rejected += u(&d["view_rejected"]);
        tot.derived_err += u(&d["derived_err"]);
        tot.all_err += u(&d["all_err"]);
        bad_total += u(&d["bad_total"]);
        if let Some(a) = d["outcomes"].as_array() {
            outcomes.extend(a.iter().map(u));
        }
        for b in d["derived_rejected"].as_array().map(|a| a.as_slice()).unwrap_or(&[]) {
            let ti = u(&b[0]) as usize;
            if !tot.derived_rejected.iter().any(|(i, _)| *i == ti) {
                tot.derived_rejected.push((ti, b[1].as_str().unwrap_or("").to_string()));
            }
        }
        for b in d["bad"].as_array().map(|a| a.as_slice()).unwrap_or(&[]) {
            bad.push((u(&b[0]) as usize, u(&b[1]) as usize, b[2].as_str().unwrap_or("").to_string(), b[3].as_str().unwrap_or("").to_string()));
        }
        let f = &d["fresh"];
        fo.states += u(&f["states"]);
        fo.reads += u(&f["reads"]);
        fo.nonempty += u(&f["nonempty"]);
        fo.dml_ok += u(&f["dml_ok"]);
        fo.dml_err += u(&f["dml_err"]);
        if let Some(a) = f["outcomes"].as_array() {
            fo.outcomes.extend(a.iter().map(u));
        }
        for b in f["bad"].as_array().map(|a| a.as_slice()).unwrap_or(&[]) {
            fo.bad.push((b[0].as_str().unwrap_or("").to_string(), b[1].clone(), b[2].as_str().unwrap_or("").to_string()));
        }
    }

    bad.sort_by_key(|(d, t, ..)| (*d, *t));
    let unstable = unstable_definitions(&ds, &dbsv);
    if !unstable.is_empty() {
        println!("C32 definitions whose own result varies between executions (their cases are skipped): {:?}", unstable);
    }
    rep.set("definitions_unstable_in_this_run", json!(unstable));
    let mut confirmed: HashSet<String> = HashSet::new();
    let mut unstable_defs = 0u64;
    let mut by_class: std::collections::BTreeMap<&str, u64> = Default::default();
    for (di, ti, kind, what) in &bad {
        let (Some(db), Some(t)) = (dbsv.get(*di), ts.get(*ti)) else {
            rep.machinery_error(format!("C32: worker reported an unknown case ({}, {})", di, ti));
            continue;
        };
        let d = &ds[t.def];
        if unstable.contains(&d.name) {
            unstable_defs += 1;
            continue;
        }
        let sig = vec![("part", "equivalence".to_string()), ("kind", kind.clone()), ("definition", d.name.to_string()), ("definition_class", d.class.to_string()), ("outer", t.outer.to_string())];
        let key = format!("{:?}", sig);
        let case = equiv_case(db, d, t);
        if confirmed.contains(&key) {
            rep.violation(&sig, String::new(), Value::Null);
            continue;
        }
        if !stable(|| rerun_equiv(&case).ok().and_then(|r| bag_of(&r[2]))) {
            unstable_defs += 1;
            continue;
        }
        // R3: fresh re-executions must show the same kind of difference (at least twice)
        let mut repro = 0;
        for _ in 0..8 {
            if let Ok([ra, rb, rc]) = rerun_equiv(&case) {
                let r = if kind.starts_with("view") { &ra } else { &rb };
                let differs = match (bag_of(r), bag_of(&rc)) {
                    (Some(x), Some(y)) => x != y && kind.ends_with("differs"),
                    (None, Some(_)) => kind.ends_with("fails"),
                    _ => false,
                };
                if differs {
                    repro += 1;
                }
            }
            if repro >= 2 {
                break;
            }
        }
        if repro < 2 {
            rep.machinery_error(format!("C32 equivalence: `{}` / `{}` on {:?}: {} not reproducible", t.a, t.c, db.inserts(), what));
            continue;
        }
        confirmed.insert(key);
        rep.violation(
            &sig,
            format!("{} ; {} ; view: `{}` ; cte: `{}` ; derived: `{}` on {} — {} (SQLite on the derived form: {})", create_view_sql(d), kind, t.a, t.b, t.c, db.inserts().join("; "), what, sqlite_says(&case)),
            case,
        );
    }
    for t in &ts {
        *by_class.entry(ds[t.def].class).or_insert(0) += dbsv.len() as u64;
    }
    println!(
        "C32 equivalence: definitions={} outer_shapes={} triples={} dbs={} cases={} agree={} nonempty={} create_view_rejected={} derived_form_fails={} all_forms_fail={} failing={} unstable_definition_skipped={}",
        ds.len(),
        ts.iter().map(|t| t.outer).collect::<HashSet<_>>().len(),
        ts.len(),
        dbsv.len(),
        tot.cases,
        tot.agree,
        tot.nonempty,
        tot.view_rejected,
        tot.derived_err,
        tot.all_err,
        bad_total,
        unstable_defs
    );

    // part 2
    let fresh_defs = fresh_defs();
    let depth = if thorough { 3 } else { 2 };
    let mut fconfirmed: HashSet<String> = HashSet::new();
    let mut fbad = std::mem::take(&mut fo.bad);
    fbad.sort_by_key(|(_, c, _)| c["history"].as_array().map(|a| a.len()).unwrap_or(0));
    let fresh_failing = fbad.len();
    let mut fresh_unstable = 0u64;
    for (dname, case, what) in fbad {
        if unstable.iter().any(|u| *u == dname) {
            fresh_unstable += 1;
            continue;
        }
        let reader = if case["view_read"].as_str().unwrap_or("").contains("vw2") { "view_over_view" } else { "view" };
        let sig = vec![("part", "freshness".to_string()), ("definition", dname.clone()), ("reader", reader.to_string()), ("history", hist_kinds(&case))];
        let key = format!("{:?}", sig);
        if fconfirmed.contains(&key) {
            rep.violation(&sig, String::new(), Value::Null);
            continue;
        }
        if !stable(|| rerun_fresh(&case, false).ok().and_then(|(_, d)| bag_of(&d))) {
            fresh_unstable += 1;
            continue;
        }
        let mut repro = 0;
        for _ in 0..8 {
            if let Ok((v, d)) = rerun_fresh(&case, false) {
                if let Some(bd) = bag_of(&d) {
                    if bag_of(&v).map(|bv| bv != bd).unwrap_or(true) {
                        repro += 1;
                    }
                }
            }
            if repro >= 2 {
                break;
            }
        }
        if repro < 2 {
            rep.machinery_error(format!("C32 freshness: {} not reproducible: {}", case, what));
            continue;
        }
        fconfirmed.insert(key);
        rep.violation(&sig, format!("after {} + {}: {}", case["start"], case["history"], what), case);
    }
    println!(
        "C32 freshness: definitions={} start_states={} history_depth<={} alphabet={} states={} view_reads={} nonempty={} dml ok/err={}/{} distinct_view_contents={} failing={} unstable_definition_skipped={}",
        fresh_defs.len(),
        FRESH_START.len(),
        depth,
        dml_alphabet(thorough).len(),
        fo.states,
        fo.reads,
        fo.nonempty,
        fo.dml_ok,
        fo.dml_err,
        fo.outcomes.len(),
        fresh_failing,
        fresh_unstable
    );
    println!("C32 explored by {} worker processes in {:.1}s wall / {:.0} CPU-s, failing cases confirmed by {:.1}s", k, explore_s, crate::shard::children_cpu_s(), start.elapsed().as_secs_f64());

    tot.derived_rejected.sort();
    rep.set(
        "derived_forms_vibesql_rejects",
        json!(tot.derived_rejected.iter().filter_map(|(i, m)| ts.get(*i).map(|t| json!({"definition": ds[t.def].name, "outer": t.outer, "derived": t.c, "error": vcore::util::trunc(m, 160)}))).collect::<Vec<_>>()),
    );
    if !unparsed.is_empty() {
        rep.set("forms_rejected_by_parser", json!(unparsed.iter().take(10).map(|t| json!([t.a, t.b, t.c])).collect::<Vec<_>>()));
    }
    rep.set("worker_processes", json!(k));
    rep.set("worker_cpu_seconds", json!(crate::shard::children_cpu_s()));
    rep.set("states", json!(dbsv.len() as u64 + fo.states));
    rep.set("transitions", json!(tot.cases * 3 + fo.reads * 2 + fo.dml_ok + fo.dml_err));
    rep.set("evaluations", json!(tot.cases + fo.reads));
    rep.set("distinct_nontrivial", json!(outcomes.len() + fo.outcomes.len()));
    rep.set(
        "equivalence",
        json!({
            "definitions": ds.iter().map(|d| d.name).collect::<Vec<_>>(), "triples": ts.len(), "databases": dbsv.len(), "database_space": space.describe(),
            "cases": tot.cases, "agree": tot.agree, "nonempty_derived_result": tot.nonempty, "create_view_rejected_not_a_case": tot.view_rejected,
            "derived_form_fails_not_a_case": tot.derived_err, "all_forms_fail_not_a_case": tot.all_err, "distinct_outcomes": outcomes.len(),
            "failing_cases": bad_total, "skipped_because_the_definition_itself_answers_differently_between_runs": unstable_defs,
            "cases_by_definition_class": by_class,
            "reach": {"view branch of execute_table_scan (every view-form execution)": tot.cases, "execute_ctes (every cte-form execution)": tot.cases},
        }),
    );
    rep.set(
        "freshness",
        json!({"definitions": fresh_defs.iter().map(|d| d.name).collect::<Vec<_>>(), "start_states": FRESH_START.len(), "history_depth": depth, "alphabet": dml_alphabet(thorough),
               "states": fo.states, "view_reads": fo.reads, "nonempty_reads": fo.nonempty, "dml_ok": fo.dml_ok, "dml_err": fo.dml_err, "distinct_view_contents": fo.outcomes.len(),
               "failing_reads": fresh_failing, "skipped_because_the_definition_itself_answers_differently_between_runs": fresh_unstable}),
    );
    rep.set("exhaustive", json!(exhaustive));
    rep.set("rule", json!("equivalence: every (database, definition, outer shape); a case is non-trivial/distinct by (triple, normalised derived-table result). freshness: every DML history of length <= depth from each start state, view re-read after every step; distinct by (definition, reader, view contents)"));
    let sample: Vec<Value> = ts.iter().step_by((ts.len() / 6).max(1)).take(6).map(|t| json!({"create_view": create_view_sql(&ds[t.def]), "view_form": t.a, "cte_form": t.b, "derived_form": t.c})).collect();
    rep.set("samples", json!(sample));
    rep.assume("the derived-table form is taken as the meaning of the definition (its own agreement with SQLite is C01's business; SQLite's answer is quoted in reports for orientation only)");
    rep.finish()
}

pub fn replay(case: &Value) -> i32 {
    match case["part"].as_str() {
        Some("equivalence") => {
            for s in case["db"].as_array().map(|a| a.as_slice()).unwrap_or(&[]) {
                println!("{};", s.as_str().unwrap_or(""));
            }
            println!("{};", case["create_view"].as_str().unwrap_or(""));
            match rerun_equiv(case) {
                Ok([a, b, c]) => {
                    println!("view   > {}\n   => {}", case["view_query"].as_str().unwrap_or(""), a.brief());
                    println!("cte    > {}\n   => {}", case["cte_query"].as_str().unwrap_or(""), b.brief());
                    println!("derived> {}\n   => {}", case["derived_query"].as_str().unwrap_or(""), c.brief());
                    println!("sqlite (derived form): {}", sqlite_says(case));
                    let bc = bag_of(&c);
                    if bc.is_some() && (bag_of(&a) != bc || bag_of(&b) != bc) {
                        println!("verdict: MISMATCH");
                        1
                    } else {
                        println!("verdict: agree (or derived form not executable)");
                        0
                    }
                }
                Err(e) => {
                    eprintln!("MACHINERY-ERROR {}", e);
                    2
                }
            }
        }
        Some("freshness") => match rerun_fresh(case, true) {
            Ok((v, d)) => {
                println!("view  > {}\n   => {}", case["view_read"].as_str().unwrap_or(""), v.brief());
                println!("direct> {}\n   => {}", case["direct_read"].as_str().unwrap_or(""), d.brief());
                match (bag_of(&v), bag_of(&d)) {
                    (Some(a), Some(b)) if a == b => {
                        println!("verdict: agree");
                        0
                    }
                    (_, None) => {
                        println!("verdict: defining query not executable (not a case)");
                        0
                    }
                    _ => {
                        println!("verdict: MISMATCH");
                        1
                    }
                }
            }
            Err(e) => {
                eprintln!("MACHINERY-ERROR {}", e);
                2
            }
        },
        _ => {
            eprintln!("bad C32 case");
            2
        }
    }
}
