//! `sqlspacecheck` — checks C01, C32.
//!   sqlspacecheck check <ID> <quick|thorough>
//!   sqlspacecheck replay <path>

mod c01;
mod c32;
mod dbs;
mod fam;
mod oracle;
mod q;
mod shard;

fn usage() -> ! {
    eprintln!("usage: sqlspacecheck check <C01|C32> <quick|thorough> | sqlspacecheck replay <path>");
    std::process::exit(2)
}

fn replay(path: &str) -> i32 {
    let text = match std::fs::read_to_string(path) {
        Ok(t) => t,
        Err(e) => {
            eprintln!("cannot read {}: {}", path, e);
            return 2;
        }
    };
    let v: serde_json::Value = match serde_json::from_str(&text) {
        Ok(v) => v,
        Err(e) => {
            eprintln!("bad replay file: {}", e);
            return 2;
        }
    };
    println!("property: {}", v["property"].as_str().unwrap_or("?"));
    println!("signature: {}", v["signature"]);
    println!("recorded: {}", v["what"].as_str().unwrap_or(""));
    println!("-- re-execution");
    match v["property"].as_str() {
        Some("C01") => c01::replay(&v["case"]),
        Some("C32") => c32::replay(&v["case"]),
        _ => {
            eprintln!("not a replay file of this package");
            2
        }
    }
}

fn main() {
    let args: Vec<String> = std::env::args().collect();
    if args.len() < 2 {
        usage();
    }
    if std::env::var("PARALLEL_THRESHOLD").is_err() {
        std::env::set_var("PARALLEL_THRESHOLD", "max");
    }
    // Every SelectExecutor owns a zero-initialised 10 MB arena. glibc raises its mmap threshold
    // dynamically after the first such block is freed, serves the next ones from the heap and then has
    // to memset 10 MB per executor (views, CTEs and subqueries build one each): ~1 ms per statement.
    // A fixed threshold keeps these blocks on mmap (fresh zero pages, no memset). Allocator tuning of
    // the harness process only; nothing the engine computes depends on it.
    unsafe {
        libc::mallopt(libc::M_MMAP_THRESHOLD, 1 << 20);
        // and do not give the heap top back to the kernel after every free (brk per statement)
        libc::mallopt(libc::M_TRIM_THRESHOLD, 512 << 20);
        libc::mallopt(libc::M_TOP_PAD, 16 << 20);
    }
    vcore::exec::silence_panics();
    let code = match args[1].as_str() {
        "check" if args.len() >= 4 => match args[2].as_str() {
            "C01" => c01::run(&args[3]),
            "C32" => c32::run(&args[3]),
            other => {
                eprintln!("sqlspacecheck does not implement {}", other);
                2
            }
        },
        "replay" if args.len() >= 3 => replay(&args[2]),
        "shard" if args.len() >= 6 => {
            let (i, k) = (args[4].parse::<usize>().unwrap_or(0), args[5].parse::<usize>().unwrap_or(1).max(1));
            match args[2].as_str() {
                "C01" => c01::shard_main(&args[3], i, k),
                "C32" => c32::shard_main(&args[3], i, k),
                _ => 2,
            }
        }
        _ => usage(),
    };
    std::process::exit(code);
}
