//! Harness-owned query AST with two renderers (vibesql text / SQLite text) and input-only
//! feature extraction (signatures). Deliberately small: only what the C01/C32 families use.

use std::collections::BTreeSet;

/// Where vibesql's plain `ORDER BY col [DESC]` puts NULLs (defaults: last in both directions, which is
/// what `select::order::apply_order_by` does at the pinned commit).
pub static ASC_NULLS_LAST: std::sync::atomic::AtomicBool = std::sync::atomic::AtomicBool::new(true);
pub static DESC_NULLS_LAST: std::sync::atomic::AtomicBool = std::sync::atomic::AtomicBool::new(true);

/// Ask the engine itself where a plain single-table ORDER BY puts NULLs, so that a change of that
/// (implementation-defined) convention is not reported as a wrong result; grouped and compound
/// queries are then required to follow the same convention as the plain query.
pub fn probe_null_placement() -> Result<(bool, bool), String> {
    use vcore::exec::{exec, Out};
    let mut db = vibesql_storage::Database::new();
    for s in ["CREATE TABLE p (k INT)", "INSERT INTO p VALUES (1), (NULL), (2)"] {
        let o = exec(&mut db, s);
        if !o.is_ok() {
            return Err(format!("probe setup `{}`: {}", s, o.brief()));
        }
    }
    let mut res = [true, true];
    for (i, sql) in ["SELECT k FROM p ORDER BY k", "SELECT k FROM p ORDER BY k DESC"].iter().enumerate() {
        match exec(&mut db, sql) {
            Out::Rows(r) if r.len() == 3 => {
                let nulls: Vec<bool> = r.iter().map(|x| x[0].is_null()).collect();
                if nulls == [false, false, true] {
                    res[i] = true;
                } else if nulls == [true, false, false] {
                    res[i] = false;
                } else {
                    return Err(format!("probe `{}`: NULL neither first nor last: {:?}", sql, r));
                }
            }
            other => return Err(format!("probe `{}`: {}", sql, other.brief())),
        }
    }
    ASC_NULLS_LAST.store(res[0], std::sync::atomic::Ordering::Relaxed);
    DESC_NULLS_LAST.store(res[1], std::sync::atomic::Ordering::Relaxed);
    Ok((res[0], res[1]))
}

#[derive(Clone, Copy, Debug, PartialEq, Eq)]
pub enum Dialect {
    Vibe,
    Sqlite,
}

#[derive(Clone, Debug, PartialEq, Eq, Hash)]
pub enum E {
    /// column reference as written (`a`, `t.a`, `v.x`)
    Col(String),
    Int(i64),
    Str(String),
    Null,
    /// + - * = <> < <= > >= AND OR
    Bin(&'static str, Box<E>, Box<E>),
    Not(Box<E>),
    /// (expr, negated)
    IsNull(Box<E>, bool),
    /// (expr, negated, low, high)
    Between(Box<E>, bool, Box<E>, Box<E>),
    /// (expr, negated, list)
    InList(Box<E>, bool, Vec<E>),
    /// searched CASE
    Case(Vec<(E, E)>, Option<Box<E>>),
    Coalesce(Vec<E>),
    /// (function, DISTINCT, argument; None = `*`)
    Agg(&'static str, bool, Option<Box<E>>),
    /// scalar subquery
    Sub(Box<Q>),
    /// (expr, negated, subquery)
    InSub(Box<E>, bool, Box<Q>),
    /// (negated, subquery)
    Exists(bool, Box<Q>),
}

pub fn col(s: &str) -> E {
    E::Col(s.to_string())
}
pub fn int(i: i64) -> E {
    E::Int(i)
}
pub fn st(s: &str) -> E {
    E::Str(s.to_string())
}
pub fn bin(op: &'static str, a: E, b: E) -> E {
    E::Bin(op, Box::new(a), Box::new(b))
}
pub fn not(a: E) -> E {
    E::Not(Box::new(a))
}
pub fn agg(f: &'static str, a: E) -> E {
    E::Agg(f, false, Some(Box::new(a)))
}
pub fn aggd(f: &'static str, a: E) -> E {
    E::Agg(f, true, Some(Box::new(a)))
}
pub fn count_star() -> E {
    E::Agg("COUNT", false, None)
}

#[derive(Clone, Debug, PartialEq, Eq, Hash)]
pub enum Item {
    Star,
    /// `t.*`
    QStar(String),
    Expr(E, Option<String>),
}

pub fn item(e: E) -> Item {
    Item::Expr(e, None)
}
pub fn item_as(e: E, a: &str) -> Item {
    Item::Expr(e, Some(a.to_string()))
}

#[derive(Clone, Debug, PartialEq, Eq, Hash)]
pub enum From {
    Table(String, Option<String>),
    Derived(Box<Q>, String),
    /// kind: "JOIN", "LEFT JOIN", "RIGHT JOIN", "FULL JOIN", "CROSS JOIN", ","
    Join(&'static str, Box<From>, Box<From>, Option<E>),
}

pub fn table(n: &str) -> From {
    From::Table(n.to_string(), None)
}
pub fn table_as(n: &str, a: &str) -> From {
    From::Table(n.to_string(), Some(a.to_string()))
}
pub fn join(kind: &'static str, l: From, r: From, on: Option<E>) -> From {
    From::Join(kind, Box::new(l), Box::new(r), on)
}

#[derive(Clone, Debug, PartialEq, Eq, Hash)]
pub enum Key {
    /// 1-based output position
    Pos(usize),
    /// output column alias / name
    Alias(String),
    /// arbitrary expression over the FROM columns (may be hidden from the output)
    Expr(E),
}

#[derive(Clone, Debug, PartialEq, Eq, Hash, Default)]
pub struct Sel {
    pub distinct: bool,
    pub items: Vec<Item>,
    pub from: Option<From>,
    pub where_: Option<E>,
    pub group_by: Vec<E>,
    pub having: Option<E>,
}

#[derive(Clone, Copy, Debug, PartialEq, Eq, Hash)]
pub enum SetOp {
    Union,
    Intersect,
    Except,
}

impl SetOp {
    pub fn text(self, all: bool) -> String {
        let s = match self {
            SetOp::Union => "UNION",
            SetOp::Intersect => "INTERSECT",
            SetOp::Except => "EXCEPT",
        };
        if all {
            format!("{} ALL", s)
        } else {
            s.to_string()
        }
    }
}

/// Left-deep chain: evaluated left to right by both engines (no parentheses are rendered).
#[derive(Clone, Debug, PartialEq, Eq, Hash)]
pub enum Body {
    Select(Sel),
    SetOp(Box<Body>, SetOp, bool, Sel),
}

#[derive(Clone, Debug, PartialEq, Eq, Hash)]
pub struct Cte {
    pub name: String,
    pub cols: Option<Vec<String>>,
    pub q: Q,
}

#[derive(Clone, Debug, PartialEq, Eq, Hash)]
pub struct Q {
    pub with: Vec<Cte>,
    pub body: Body,
    pub order_by: Vec<(Key, bool)>, // (key, descending)
    pub limit: Option<usize>,
    pub offset: Option<usize>,
}

impl Q {
    pub fn of(sel: Sel) -> Q {
        Q { with: vec![], body: Body::Select(sel), order_by: vec![], limit: None, offset: None }
    }
    pub fn body(body: Body) -> Q {
        Q { with: vec![], body, order_by: vec![], limit: None, offset: None }
    }
    pub fn order(mut self, keys: Vec<(Key, bool)>) -> Q {
        self.order_by = keys;
        self
    }
    pub fn lim(mut self, l: Option<usize>, o: Option<usize>) -> Q {
        self.limit = l;
        self.offset = o;
        self
    }
    pub fn first_sel(&self) -> &Sel {
        let mut b = &self.body;
        loop {
            match b {
                Body::Select(s) => return s,
                Body::SetOp(l, ..) => b = l,
            }
        }
    }
    pub fn is_compound(&self) -> bool {
        matches!(self.body, Body::SetOp(..))
    }
    /// True when the chain contains INTERSECT ALL / EXCEPT ALL (SQLite has neither).
    pub fn has_bag_only_ops(&self) -> bool {
        fn rec(b: &Body) -> bool {
            match b {
                Body::Select(_) => false,
                Body::SetOp(l, op, all, _) => (*all && *op != SetOp::Union) || rec(l),
            }
        }
        rec(&self.body)
    }
}

pub fn sel(items: Vec<Item>, from: From) -> Sel {
    Sel { items, from: Some(from), ..Default::default() }
}

impl Sel {
    pub fn wher(mut self, e: E) -> Sel {
        self.where_ = Some(e);
        self
    }
    pub fn wher_opt(mut self, e: Option<E>) -> Sel {
        self.where_ = e;
        self
    }
    pub fn group(mut self, g: Vec<E>) -> Sel {
        self.group_by = g;
        self
    }
    pub fn hav(mut self, e: Option<E>) -> Sel {
        self.having = e;
        self
    }
    pub fn dist(mut self, d: bool) -> Sel {
        self.distinct = d;
        self
    }
    pub fn q(self) -> Q {
        Q::of(self)
    }
}

// ------------------------------------------------------------------------------------------------
// rendering

fn prec(e: &E) -> u8 {
    match e {
        E::Bin("OR", ..) => 1,
        E::Bin("AND", ..) => 2,
        E::Not(_) => 3,
        E::Bin("=" | "<>" | "<" | "<=" | ">" | ">=", ..) | E::IsNull(..) | E::Between(..) | E::InList(..) | E::InSub(..) => 4,
        E::Bin("+" | "-", ..) => 5,
        E::Bin("*", ..) => 6,
        _ => 9,
    }
}

impl E {
    /// Fully parenthesised where nesting matters: both engines get the same explicit structure,
    /// so operator-precedence differences between the dialects cannot matter.
    pub fn render(&self, d: Dialect) -> String {
        let sub = |x: &E| -> String {
            if prec(x) < 9 {
                format!("({})", x.render(d))
            } else {
                x.render(d)
            }
        };
        match self {
            E::Col(c) => c.clone(),
            E::Int(i) => {
                if *i < 0 {
                    format!("(0 - {})", -i)
                } else {
                    i.to_string()
                }
            }
            E::Str(s) => format!("'{}'", s.replace('\'', "''")),
            E::Null => "NULL".into(),
            E::Bin(op, a, b) => format!("{} {} {}", sub(a), op, sub(b)),
            E::Not(a) => format!("NOT {}", sub(a)),
            E::IsNull(a, neg) => format!("{} IS {}NULL", sub(a), if *neg { "NOT " } else { "" }),
            E::Between(a, neg, l, h) => format!("{} {}BETWEEN {} AND {}", sub(a), if *neg { "NOT " } else { "" }, sub(l), sub(h)),
            E::InList(a, neg, l) => format!(
                "{} {}IN ({})",
                sub(a),
                if *neg { "NOT " } else { "" },
                l.iter().map(|x| x.render(d)).collect::<Vec<_>>().join(", ")
            ),
            E::Case(arms, els) => {
                let mut s = String::from("CASE");
                for (w, t) in arms {
                    s.push_str(&format!(" WHEN {} THEN {}", w.render(d), t.render(d)));
                }
                if let Some(e) = els {
                    s.push_str(&format!(" ELSE {}", e.render(d)));
                }
                s.push_str(" END");
                s
            }
            E::Coalesce(l) => format!("COALESCE({})", l.iter().map(|x| x.render(d)).collect::<Vec<_>>().join(", ")),
            E::Agg(f, dis, a) => match a {
                None => format!("{}(*)", f),
                Some(a) => format!("{}({}{})", f, if *dis { "DISTINCT " } else { "" }, a.render(d)),
            },
            E::Sub(q) => format!("({})", q.render(d)),
            E::InSub(a, neg, q) => format!("{} {}IN ({})", sub(a), if *neg { "NOT " } else { "" }, q.render(d)),
            E::Exists(neg, q) => format!("{}EXISTS ({})", if *neg { "NOT " } else { "" }, q.render(d)),
        }
    }
}

impl From {
    pub fn render(&self, d: Dialect) -> String {
        match self {
            From::Table(n, None) => n.clone(),
            From::Table(n, Some(a)) => format!("{} AS {}", n, a),
            From::Derived(q, a) => format!("({}) AS {}", q.render(d), a),
            From::Join(kind, l, r, on) => {
                let sep = if *kind == "," { ", ".to_string() } else { format!(" {} ", kind) };
                let mut s = format!("{}{}{}", l.render(d), sep, r.render(d));
                if let Some(e) = on {
                    s.push_str(&format!(" ON {}", e.render(d)));
                }
                s
            }
        }
    }
}

impl Sel {
    pub fn render(&self, d: Dialect) -> String {
        let mut s = String::from("SELECT ");
        if self.distinct {
            s.push_str("DISTINCT ");
        }
        let items: Vec<String> = self
            .items
            .iter()
            .map(|it| match it {
                Item::Star => "*".to_string(),
                Item::QStar(t) => format!("{}.*", t),
                Item::Expr(e, None) => e.render(d),
                Item::Expr(e, Some(a)) => format!("{} AS {}", e.render(d), a),
            })
            .collect();
        s.push_str(&items.join(", "));
        if let Some(f) = &self.from {
            s.push_str(" FROM ");
            s.push_str(&f.render(d));
        }
        if let Some(w) = &self.where_ {
            s.push_str(" WHERE ");
            s.push_str(&w.render(d));
        }
        if !self.group_by.is_empty() {
            s.push_str(" GROUP BY ");
            s.push_str(&self.group_by.iter().map(|e| e.render(d)).collect::<Vec<_>>().join(", "));
        }
        if let Some(h) = &self.having {
            s.push_str(" HAVING ");
            s.push_str(&h.render(d));
        }
        s
    }
}

impl Body {
    pub fn render(&self, d: Dialect) -> String {
        match self {
            Body::Select(s) => s.render(d),
            Body::SetOp(l, op, all, r) => format!("{} {} {}", l.render(d), op.text(*all), r.render(d)),
        }
    }
}

impl Q {
    pub fn render(&self, d: Dialect) -> String {
        let mut s = String::new();
        if !self.with.is_empty() {
            s.push_str("WITH ");
            let parts: Vec<String> = self
                .with
                .iter()
                .map(|c| {
                    let cols = match &c.cols {
                        Some(cs) => format!(" ({})", cs.join(", ")),
                        None => String::new(),
                    };
                    format!("{}{} AS ({})", c.name, cols, c.q.render(d))
                })
                .collect();
            s.push_str(&parts.join(", "));
            s.push(' ');
        }
        s.push_str(&self.body.render(d));
        if !self.order_by.is_empty() {
            s.push_str(" ORDER BY ");
            let ks: Vec<String> = self
                .order_by
                .iter()
                .map(|(k, desc)| {
                    let k = match k {
                        Key::Pos(i) => i.to_string(),
                        Key::Alias(a) => a.clone(),
                        Key::Expr(e) => e.render(d),
                    };
                    // NULL placement is implementation-defined in SQL: SQLite is told to place NULLs where
                    // vibesql's plain ORDER BY places them (probed once per run, see `probe_null_placement`)
                    let nulls = if d == Dialect::Sqlite {
                        let last = if *desc { DESC_NULLS_LAST.load(std::sync::atomic::Ordering::Relaxed) } else { ASC_NULLS_LAST.load(std::sync::atomic::Ordering::Relaxed) };
                        if last {
                            " NULLS LAST"
                        } else {
                            " NULLS FIRST"
                        }
                    } else {
                        ""
                    };
                    format!("{}{}{}", k, if *desc { " DESC" } else { "" }, nulls)
                })
                .collect();
            s.push_str(&ks.join(", "));
        }
        match (self.limit, self.offset, d) {
            (Some(l), Some(o), _) => s.push_str(&format!(" LIMIT {} OFFSET {}", l, o)),
            (Some(l), None, _) => s.push_str(&format!(" LIMIT {}", l)),
            (None, Some(o), Dialect::Vibe) => s.push_str(&format!(" OFFSET {}", o)),
            (None, Some(o), Dialect::Sqlite) => s.push_str(&format!(" LIMIT -1 OFFSET {}", o)),
            (None, None, _) => {}
        }
        s
    }

    /// The query without its LIMIT/OFFSET and with the ORDER BY key expressions appended to the
    /// select list (`None` when a key cannot be appended: DISTINCT, compound, grouped star …).
    /// Returns the augmented query and, per key, the 0-based output column that carries it.
    pub fn key_augmented(&self, n_out: usize) -> Option<(Q, Vec<usize>)> {
        let mut q = self.clone();
        q.limit = None;
        q.offset = None;
        let mut cols = vec![];
        let mut extra: Vec<E> = vec![];
        for (k, _) in &self.order_by {
            match k {
                Key::Pos(i) => cols.push(i - 1),
                Key::Alias(a) => {
                    let s = self.first_sel();
                    let mut idx = None;
                    for (i, it) in s.items.iter().enumerate() {
                        match it {
                            Item::Expr(_, Some(x)) if x == a => idx = Some(i),
                            Item::Expr(E::Col(c), None) if c == a || c.ends_with(&format!(".{}", a)) => idx = Some(i),
                            _ => {}
                        }
                    }
                    // only valid when no star precedes (positions would shift); families obey this
                    cols.push(idx?);
                }
                Key::Expr(e) => {
                    // is it literally one of the output expressions?
                    let s = self.first_sel();
                    let has_star = s.items.iter().any(|it| matches!(it, Item::Star | Item::QStar(_)));
                    let pos = if has_star { None } else { s.items.iter().position(|it| matches!(it, Item::Expr(x, _) if x == e)) };
                    match pos {
                        Some(p) => cols.push(p),
                        None => {
                            if self.is_compound() || s.distinct {
                                return None;
                            }
                            cols.push(n_out + extra.len());
                            extra.push(e.clone());
                        }
                    }
                }
            }
        }
        if !extra.is_empty() {
            if let Body::Select(s) = &mut q.body {
                for e in extra {
                    s.items.push(Item::Expr(e, None));
                }
            }
        }
        Some((q, cols))
    }
}

// ------------------------------------------------------------------------------------------------
// input-only features (signatures)

#[derive(Default, Debug)]
pub struct Feat {
    pub ops: BTreeSet<String>,
    pub aggs: BTreeSet<String>,
    pub joins: BTreeSet<String>,
    pub setops: Vec<String>,
    pub subq: BTreeSet<String>,
    pub clauses: BTreeSet<String>,
}

fn feat_e(e: &E, f: &mut Feat) {
    match e {
        E::Col(_) | E::Int(_) | E::Str(_) => {}
        E::Null => {
            f.ops.insert("NULL-literal".into());
        }
        E::Bin(op, a, b) => {
            f.ops.insert(op.to_string());
            feat_e(a, f);
            feat_e(b, f);
        }
        E::Not(a) => {
            f.ops.insert("NOT".into());
            feat_e(a, f);
        }
        E::IsNull(a, neg) => {
            f.ops.insert(if *neg { "IS NOT NULL" } else { "IS NULL" }.into());
            feat_e(a, f);
        }
        E::Between(a, neg, l, h) => {
            f.ops.insert(if *neg { "NOT BETWEEN" } else { "BETWEEN" }.into());
            feat_e(a, f);
            feat_e(l, f);
            feat_e(h, f);
        }
        E::InList(a, neg, l) => {
            f.ops.insert(if *neg { "NOT IN-list" } else { "IN-list" }.into());
            feat_e(a, f);
            for x in l {
                feat_e(x, f);
            }
        }
        E::Case(arms, els) => {
            f.ops.insert("CASE".into());
            for (w, t) in arms {
                feat_e(w, f);
                feat_e(t, f);
            }
            if let Some(x) = els {
                feat_e(x, f);
            }
        }
        E::Coalesce(l) => {
            f.ops.insert("COALESCE".into());
            for x in l {
                feat_e(x, f);
            }
        }
        E::Agg(fun, dis, a) => {
            f.aggs.insert(match (a, dis) {
                (None, _) => format!("{}(*)", fun),
                (Some(_), true) => format!("{}(DISTINCT)", fun),
                (Some(_), false) => fun.to_string(),
            });
            if let Some(a) = a {
                feat_e(a, f);
            }
        }
        E::Sub(q) => {
            f.subq.insert("scalar".into());
            feat_q(q, f);
        }
        E::InSub(a, neg, q) => {
            f.subq.insert(if *neg { "NOT IN" } else { "IN" }.into());
            feat_e(a, f);
            feat_q(q, f);
        }
        E::Exists(neg, q) => {
            f.subq.insert(if *neg { "NOT EXISTS" } else { "EXISTS" }.into());
            feat_q(q, f);
        }
    }
}

fn feat_from(fr: &From, f: &mut Feat) {
    match fr {
        From::Table(..) => {}
        From::Derived(q, _) => {
            f.clauses.insert("derived".into());
            feat_q(q, f);
        }
        From::Join(k, l, r, on) => {
            f.joins.insert(k.to_string());
            feat_from(l, f);
            feat_from(r, f);
            if let Some(e) = on {
                feat_e(e, f);
            }
        }
    }
}

fn feat_sel(s: &Sel, f: &mut Feat) {
    if s.distinct {
        f.clauses.insert("DISTINCT".into());
    }
    for it in &s.items {
        if let Item::Expr(e, _) = it {
            feat_e(e, f);
        }
    }
    if let Some(fr) = &s.from {
        feat_from(fr, f);
    }
    if let Some(w) = &s.where_ {
        f.clauses.insert("WHERE".into());
        feat_e(w, f);
    }
    if !s.group_by.is_empty() {
        f.clauses.insert("GROUP BY".into());
    }
    if let Some(h) = &s.having {
        f.clauses.insert("HAVING".into());
        feat_e(h, f);
    }
}

fn feat_body(b: &Body, f: &mut Feat) {
    match b {
        Body::Select(s) => feat_sel(s, f),
        Body::SetOp(l, op, all, r) => {
            feat_body(l, f);
            f.setops.push(op.text(*all));
            feat_sel(r, f);
        }
    }
}

pub fn feat_q(q: &Q, f: &mut Feat) {
    if !q.with.is_empty() {
        f.clauses.insert("WITH".into());
        for c in &q.with {
            feat_q(&c.q, f);
        }
    }
    feat_body(&q.body, f);
    if !q.order_by.is_empty() {
        f.clauses.insert("ORDER BY".into());
    }
    if q.limit.is_some() {
        f.clauses.insert("LIMIT".into());
    }
    if q.offset.is_some() {
        f.clauses.insert("OFFSET".into());
    }
}

fn join_set(s: &BTreeSet<String>) -> String {
    if s.is_empty() {
        "-".into()
    } else {
        s.iter().cloned().collect::<Vec<_>>().join(" ")
    }
}

/// The program with identifiers and literals abstracted: columns → `c`, integers → `n`, strings → `s`.
pub fn skeleton(text: &str) -> String {
    let mut out = String::new();
    let cs: Vec<char> = text.chars().collect();
    let mut i = 0;
    while i < cs.len() {
        let c = cs[i];
        if c == '\'' {
            i += 1;
            while i < cs.len() && cs[i] != '\'' {
                i += 1;
            }
            i += 1;
            out.push('s');
        } else if c.is_ascii_digit() {
            while i < cs.len() && cs[i].is_ascii_digit() {
                i += 1;
            }
            out.push('n');
        } else if c.is_ascii_lowercase() {
            // identifiers are written in lower case by the families, keywords in upper case
            while i < cs.len() && (cs[i].is_ascii_lowercase() || cs[i].is_ascii_digit() || cs[i] == '_' || cs[i] == '.') {
                i += 1;
            }
            out.push('c');
        } else {
            out.push(c);
            i += 1;
        }
    }
    out
}

/// Where subquery predicates sit in WHERE clauses: `IN@conjunct`, `NOT EXISTS@or`, `EXISTS@not` …
fn subq_contexts(q: &Q, out: &mut BTreeSet<String>) {
    fn walk(e: &E, ctx: &str, out: &mut BTreeSet<String>) {
        match e {
            E::Bin("AND", a, b) if ctx == "conjunct" => {
                walk(a, ctx, out);
                walk(b, ctx, out);
            }
            E::Bin("OR", a, b) => {
                walk(a, "or", out);
                walk(b, "or", out);
            }
            E::Bin(_, a, b) => {
                let c = if ctx == "or" { "or" } else { "operand" };
                walk(a, c, out);
                walk(b, c, out);
            }
            E::Not(a) => walk(a, "not", out),
            E::InSub(_, neg, q) => {
                out.insert(format!("{}@{}", if *neg { "NOT IN" } else { "IN" }, ctx));
                subq_contexts(q, out);
            }
            E::Exists(neg, q) => {
                out.insert(format!("{}@{}", if *neg { "NOT EXISTS" } else { "EXISTS" }, ctx));
                subq_contexts(q, out);
            }
            E::Sub(q) => {
                out.insert(format!("scalar@{}", ctx));
                subq_contexts(q, out);
            }
            _ => {}
        }
    }
    fn body(b: &Body, out: &mut BTreeSet<String>) {
        let sel = |s: &Sel, out: &mut BTreeSet<String>| {
            if let Some(w) = &s.where_ {
                walk(w, "conjunct", out);
            }
            if let Some(h) = &s.having {
                walk(h, "having", out);
            }
            for it in &s.items {
                if let Item::Expr(e, _) = it {
                    walk(e, "select_list", out);
                }
            }
        };
        match b {
            Body::Select(s) => sel(s, out),
            Body::SetOp(l, _, _, r) => {
                body(l, out);
                sel(r, out);
            }
        }
    }
    body(&q.body, out);
}

/// Signature of a failing program: features of the input only.
pub fn signature(family: &str, q: &Q) -> Vec<(&'static str, String)> {
    let mut f = Feat::default();
    feat_q(q, &mut f);
    vec![
        ("family", family.to_string()),
        ("shape", skeleton(&q.render(Dialect::Vibe))),
        ("ops", join_set(&f.ops)),
        ("aggs", join_set(&f.aggs)),
        ("joins", join_set(&f.joins)),
        ("setops", if f.setops.is_empty() { "-".into() } else { f.setops.join(",") }),
        ("subq", join_set(&f.subq)),
        ("subq_ctx", {
            let mut c = BTreeSet::new();
            subq_contexts(q, &mut c);
            join_set(&c)
        }),
        ("clauses", join_set(&f.clauses)),
    ]
}

// ------------------------------------------------------------------------------------------------
// substitution of table references (C32: view name → CTE name → derived table)

pub type TableSubst<'a> = &'a dyn Fn(Option<&String>) -> From;

fn subst_e(e: &E, name: &str, nq: &str, f: TableSubst) -> E {
    let b = |x: &E| Box::new(subst_e(x, name, nq, f));
    match e {
        E::Col(c) => match c.strip_prefix(name).and_then(|r| r.strip_prefix('.')) {
            // `name.col` written against the un-aliased reference follows the new correlation name
            Some(rest) => E::Col(format!("{}.{}", nq, rest)),
            None => e.clone(),
        },
        E::Int(_) | E::Str(_) | E::Null => e.clone(),
        E::Bin(op, x, y) => E::Bin(op, b(x), b(y)),
        E::Not(x) => E::Not(b(x)),
        E::IsNull(x, n) => E::IsNull(b(x), *n),
        E::Between(x, n, l, h) => E::Between(b(x), *n, b(l), b(h)),
        E::InList(x, n, l) => E::InList(b(x), *n, l.iter().map(|y| subst_e(y, name, nq, f)).collect()),
        E::Case(arms, els) => E::Case(arms.iter().map(|(w, t)| (subst_e(w, name, nq, f), subst_e(t, name, nq, f))).collect(), els.as_ref().map(|x| b(x))),
        E::Coalesce(l) => E::Coalesce(l.iter().map(|y| subst_e(y, name, nq, f)).collect()),
        E::Agg(fun, d, a) => E::Agg(fun, *d, a.as_ref().map(|x| b(x))),
        E::Sub(q) => E::Sub(Box::new(q.subst_table(name, nq, f))),
        E::InSub(x, n, q) => E::InSub(b(x), *n, Box::new(q.subst_table(name, nq, f))),
        E::Exists(n, q) => E::Exists(*n, Box::new(q.subst_table(name, nq, f))),
    }
}

fn subst_from(fr: &From, name: &str, nq: &str, f: TableSubst) -> From {
    match fr {
        From::Table(n, alias) if n == name => f(alias.as_ref()),
        From::Table(..) => fr.clone(),
        From::Derived(q, a) => From::Derived(Box::new(q.subst_table(name, nq, f)), a.clone()),
        From::Join(k, l, r, on) => From::Join(k, Box::new(subst_from(l, name, nq, f)), Box::new(subst_from(r, name, nq, f)), on.as_ref().map(|e| subst_e(e, name, nq, f))),
    }
}

fn subst_sel(s: &Sel, name: &str, nq: &str, f: TableSubst) -> Sel {
    Sel {
        distinct: s.distinct,
        items: s
            .items
            .iter()
            .map(|it| match it {
                Item::Expr(e, a) => Item::Expr(subst_e(e, name, nq, f), a.clone()),
                other => other.clone(),
            })
            .collect(),
        from: s.from.as_ref().map(|fr| subst_from(fr, name, nq, f)),
        where_: s.where_.as_ref().map(|e| subst_e(e, name, nq, f)),
        group_by: s.group_by.iter().map(|e| subst_e(e, name, nq, f)).collect(),
        having: s.having.as_ref().map(|e| subst_e(e, name, nq, f)),
    }
}

fn subst_body(b: &Body, name: &str, nq: &str, f: TableSubst) -> Body {
    match b {
        Body::Select(s) => Body::Select(subst_sel(s, name, nq, f)),
        Body::SetOp(l, op, all, r) => Body::SetOp(Box::new(subst_body(l, name, nq, f)), *op, *all, subst_sel(r, name, nq, f)),
    }
}

impl Q {
    /// Every reference `name [AS alias]` in a FROM clause (at any depth) replaced by `f(alias)`;
    /// column references qualified with `name` are re-qualified with `nq`.
    pub fn subst_table(&self, name: &str, nq: &str, f: TableSubst) -> Q {
        Q {
            with: self.with.iter().map(|c| Cte { name: c.name.clone(), cols: c.cols.clone(), q: c.q.subst_table(name, nq, f) }).collect(),
            body: subst_body(&self.body, name, nq, f),
            order_by: self.order_by.clone(),
            limit: self.limit,
            offset: self.offset,
        }
    }
}
