//! Process-level parallelism. Every SelectExecutor maps and unmaps a 10 MB arena; threads of one process
//! serialise on the address-space lock while doing so, so the exploration is sharded over worker
//! *processes* (`sqlspacecheck shard <ID> <tier> <i> <k>`), each single-threaded, each printing one JSON
//! document. The parent merges the documents; verdicts are decided by the parent only.

use std::io::Read;
use std::process::{Command, Stdio};

use serde_json::Value;

pub fn n_shards() -> usize {
    vcore::util::n_threads().clamp(1, 32)
}

/// Spawn `k` workers and return their documents in shard order. `Err` = a worker died or printed
/// something that is not JSON (machinery failure, never a verdict).
pub fn run_shards(id: &str, tier: &str, k: usize) -> Result<Vec<Value>, String> {
    let exe = std::env::current_exe().map_err(|e| format!("current_exe: {}", e))?;
    let mut kids = vec![];
    for i in 0..k {
        let child = Command::new(&exe)
            .args(["shard", id, tier, &i.to_string(), &k.to_string()])
            .env("VERIF_THREADS", "1")
            .stdin(Stdio::null())
            .stdout(Stdio::piped())
            .stderr(Stdio::inherit())
            .spawn()
            .map_err(|e| format!("spawn shard {}: {}", i, e))?;
        kids.push(child);
    }
    // read all pipes concurrently (a worker blocks when its pipe is full)
    let outs: Vec<Result<Value, String>> = std::thread::scope(|s| {
        let hs: Vec<_> = kids
            .into_iter()
            .enumerate()
            .map(|(i, mut c)| {
                s.spawn(move || {
                    let mut text = String::new();
                    if let Some(mut o) = c.stdout.take() {
                        o.read_to_string(&mut text).map_err(|e| format!("read shard {}: {}", i, e))?;
                    }
                    let st = c.wait().map_err(|e| format!("wait shard {}: {}", i, e))?;
                    if !st.success() {
                        return Err(format!("shard {} exited with {}", i, st));
                    }
                    serde_json::from_str::<Value>(&text).map_err(|e| format!("shard {} output is not JSON ({}): {}", i, e, vcore::util::trunc(&text, 200)))
                })
            })
            .collect();
        hs.into_iter().map(|h| h.join().unwrap_or_else(|_| Err("shard reader panicked".into()))).collect()
    });
    outs.into_iter().collect()
}

/// CPU seconds (user + system) consumed so far by terminated worker processes.
pub fn children_cpu_s() -> f64 {
    unsafe {
        let mut ru: libc::rusage = std::mem::zeroed();
        if libc::getrusage(libc::RUSAGE_CHILDREN, &mut ru) != 0 {
            return 0.0;
        }
        let t = |tv: libc::timeval| tv.tv_sec as f64 + tv.tv_usec as f64 / 1e6;
        t(ru.ru_utime) + t(ru.ru_stime)
    }
}
