//! C23 — the SQL parser is total (DESIGN §5 C23; style D, engine E4 with worker subprocesses).
//!
//! Space (all of it enumerated, nothing sampled):
//!   seed      every seed of `corpus::SEEDS` unchanged (0 edits)
//!   trunc     every proper prefix (char boundary) of every seed
//!   char1     every single char edit (substitute / insert / delete over `mutate::SIGMA_C`) of every seed
//!   tok1      every single token edit (delete / duplicate / swap-adjacent / replace-by-word /
//!             insert-word over `mutate::VOCAB`) of every seed
//!   tokstr    every word string of length <= 3 (quick, 24 words) / <= 4 (thorough, all words) over `mutate::VOCAB`
//!   nest      nesting families x depth in {1,10,100,1000,10000,100000}
//!   size      size families (1 MiB tokens, 10^5-element lists, ...)
//!   char2     (thorough) every pair of char edits of every seed of <= CHAR2_MAX_CHARS chars
//!   tok2      (thorough) every pair of token edits of every seed of <= TOK2_MAX_TOKS tokens
//! Oracle: `Parser::parse_sql(input)` returns Ok or Err (and the returned statement can be dropped)
//! on a thread with a 2 MiB stack, within the CPU deadline; a panic, a dead worker process (stack
//! overflow → SIGSEGV/abort) or a blown deadline is a violation attributed to the in-flight case.

use std::collections::BTreeMap;
use std::panic::{catch_unwind, AssertUnwindSafe};
use std::time::Duration;

use serde_json::{json, Value};
use vcore::report::Report;

use crate::corpus;
use crate::iso::{self, ChunkOut, Progress, Space};
use crate::mutate as mu;

/// Stack of the thread that calls the parser: Rust's default for spawned threads (what a
/// `cargo test` thread or a tokio worker of vibesql-server has).
pub const STACK: usize = 2 << 20;
pub const DEPTHS: &[usize] = &[1, 10, 100, 1_000, 10_000, 100_000];
const CHAR2_MAX_CHARS: usize = 30;
const TOK2_MAX_TOKS: usize = 9;

struct Seed {
    name: &'static str,
    text: &'static str,
    chars: Vec<char>,
    toks: Vec<String>,
}

#[derive(Debug, Clone)]
enum GK {
    Seed,
    Trunc,
    Char1,
    Tok1,
    /// words string of length `len` whose first `fixed.len()` words are fixed
    TokStr { len: usize, fixed: Vec<usize> },
    Nest { fam: &'static str, depth: usize },
    Size { fam: &'static str },
    Char2 { first: u64 },
    Tok2 { first: u64 },
}

struct Group {
    kind: GK,
    seed: usize,
    count: u64,
}

pub struct C23 {
    thorough: bool,
    /// size of the vocabulary prefix used by token edits and word strings
    k: usize,
    /// size of the char alphabet prefix used by char edits
    ca: usize,
    seeds: Vec<Seed>,
    groups: Vec<Group>,
    /// starts[i] = index of the first case of group i; starts[len] = total
    starts: Vec<u64>,
}

fn pow(b: u64, e: usize) -> u64 {
    (0..e).fold(1u64, |a, _| a * b)
}

impl C23 {
    pub fn new(tier: &str) -> C23 {
        let thorough = tier == "thorough";
        let seeds: Vec<Seed> =
            corpus::SEEDS.iter().map(|(n, t)| Seed { name: n, text: t, chars: t.chars().collect(), toks: mu::tokens(t) }).collect();
        let mut groups = vec![];
        let k = if thorough { mu::VOCAB.len() } else { mu::VOCAB_QUICK };
        let kk = k as u64;
        let ca = if thorough { mu::SIGMA_C.len() } else { mu::SIGMA_C_QUICK };
        // simplest first: seeds, families (always run: the wall budget must never skip them), short word
        // strings, truncations, single edits, double edits
        for (i, _) in seeds.iter().enumerate() {
            groups.push(Group { kind: GK::Seed, seed: i, count: 1 });
        }
        for &d in DEPTHS {
            for fam in mu::NEST_FAMILIES {
                groups.push(Group { kind: GK::Nest { fam, depth: d }, seed: 0, count: 1 });
            }
        }
        for fam in mu::SIZE_FAMILIES {
            groups.push(Group { kind: GK::Size { fam }, seed: 0, count: 1 });
        }
        groups.push(Group { kind: GK::TokStr { len: 0, fixed: vec![] }, seed: 0, count: 1 });
        groups.push(Group { kind: GK::TokStr { len: 1, fixed: vec![] }, seed: 0, count: kk });
        groups.push(Group { kind: GK::TokStr { len: 2, fixed: vec![] }, seed: 0, count: pow(kk, 2) });
        groups.push(Group { kind: GK::TokStr { len: 3, fixed: vec![] }, seed: 0, count: pow(kk, 3) });
        for (i, s) in seeds.iter().enumerate() {
            groups.push(Group { kind: GK::Trunc, seed: i, count: s.chars.len() as u64 });
        }
        for (i, s) in seeds.iter().enumerate() {
            groups.push(Group { kind: GK::Char1, seed: i, count: mu::n_char_edits(s.chars.len(), ca) });
        }
        for (i, s) in seeds.iter().enumerate() {
            groups.push(Group { kind: GK::Tok1, seed: i, count: mu::n_tok_edits(s.toks.len(), k) });
        }
        if thorough {
            for a in 0..k {
                for b in 0..k {
                    groups.push(Group { kind: GK::TokStr { len: 4, fixed: vec![a, b] }, seed: 0, count: pow(kk, 2) });
                }
            }
            for (i, s) in seeds.iter().enumerate() {
                let n = s.chars.len();
                if n <= CHAR2_MAX_CHARS {
                    for e in 0..mu::n_char_edits(n, ca) {
                        let n2 = mu::len_after(n, mu::char_edit(n, ca, e));
                        groups.push(Group { kind: GK::Char2 { first: e }, seed: i, count: mu::n_char_edits(n2, ca) });
                    }
                }
            }
            for (i, s) in seeds.iter().enumerate() {
                let m = s.toks.len();
                if m <= TOK2_MAX_TOKS {
                    for e in 0..mu::n_tok_edits(m, k) {
                        let m2 = mu::tok_len_after(m, mu::tok_edit(m, k, e));
                        groups.push(Group { kind: GK::Tok2 { first: e }, seed: i, count: mu::n_tok_edits(m2, k) });
                    }
                }
            }
        }
        let mut starts = Vec::with_capacity(groups.len() + 1);
        let mut at = 0u64;
        for g in &groups {
            starts.push(at);
            at += g.count;
        }
        starts.push(at);
        C23 { thorough, k, ca, seeds, groups, starts }
    }

    pub fn family_sizes(&self) -> BTreeMap<&'static str, u64> {
        let mut m = BTreeMap::new();
        for g in &self.groups {
            *m.entry(self.family(g)).or_insert(0) += g.count;
        }
        m
    }

    fn group_of(&self, idx: u64) -> usize {
        // last group whose start <= idx and which is non-empty at idx
        match self.starts.binary_search(&idx) {
            Ok(mut g) => {
                // several empty groups may share a start; take the one that contains idx
                while g + 1 < self.starts.len() && self.starts[g + 1] == idx {
                    g += 1;
                }
                g
            }
            Err(g) => g - 1,
        }
    }

    fn family(&self, g: &Group) -> &'static str {
        match g.kind {
            GK::Seed => "seed",
            GK::Trunc => "trunc",
            GK::Char1 => "char1",
            GK::Tok1 => "tok1",
            GK::TokStr { .. } => "tokstr",
            GK::Nest { .. } => "nest",
            GK::Size { .. } => "size",
            GK::Char2 { .. } => "char2",
            GK::Tok2 { .. } => "tok2",
        }
    }

    /// (input, signature, how it was generated) of case `k` of group `gi`
    fn gen(&self, gi: usize, k: u64) -> (String, Vec<(String, String)>, String) {
        let g = &self.groups[gi];
        let s = &self.seeds[g.seed];
        let fam = self.family(g);
        let mut sig: Vec<(String, String)> = vec![("family".into(), fam.into())];
        match &g.kind {
            GK::Seed => {
                sig.push(("seed".into(), s.name.into()));
                (s.text.to_string(), sig, format!("seed {}", s.name))
            }
            GK::Trunc => {
                sig.push(("seed".into(), s.name.into()));
                (s.chars[..k as usize].iter().collect(), sig, format!("first {} chars of seed {}", k, s.name))
            }
            GK::Char1 => {
                let ed = mu::char_edit(s.chars.len(), self.ca, k);
                sig.push(("seed".into(), s.name.into()));
                sig.push(("edit".into(), ed.kind().into()));
                sig.push(("class".into(), ed.class().into()));
                (mu::apply_char_edit(&s.chars, ed).iter().collect(), sig, format!("seed {} with {:?}", s.name, ed))
            }
            GK::Char2 { first } => {
                let e1 = mu::char_edit(s.chars.len(), self.ca, *first);
                let s1 = mu::apply_char_edit(&s.chars, e1);
                let e2 = mu::char_edit(s1.len(), self.ca, k);
                sig.push(("seed".into(), s.name.into()));
                sig.push(("edit".into(), format!("{}+{}", e1.kind(), e2.kind())));
                sig.push(("class".into(), format!("{}+{}", e1.class(), e2.class())));
                (mu::apply_char_edit(&s1, e2).iter().collect(), sig, format!("seed {} with {:?} then {:?}", s.name, e1, e2))
            }
            GK::Tok1 => {
                let ed = mu::tok_edit(s.toks.len(), self.k, k);
                sig.push(("seed".into(), s.name.into()));
                sig.push(("edit".into(), ed.kind().into()));
                (mu::join(&mu::apply_tok_edit(&s.toks, ed)), sig, format!("seed {} with token edit {:?} ({})", s.name, ed, ed.word()))
            }
            GK::Tok2 { first } => {
                let e1 = mu::tok_edit(s.toks.len(), self.k, *first);
                let t1 = mu::apply_tok_edit(&s.toks, e1);
                let e2 = mu::tok_edit(t1.len(), self.k, k);
                sig.push(("seed".into(), s.name.into()));
                sig.push(("edit".into(), format!("{}+{}", e1.kind(), e2.kind())));
                (
                    mu::join(&mu::apply_tok_edit(&t1, e2)),
                    sig,
                    format!("seed {} with token edits {:?} ({}) then {:?} ({})", s.name, e1, e1.word(), e2, e2.word()),
                )
            }
            GK::TokStr { len, fixed } => {
                let kk = self.k as u64;
                let mut words: Vec<&str> = fixed.iter().map(|&i| mu::VOCAB[i]).collect();
                let free = len - fixed.len();
                let mut digits = vec![0usize; free];
                let mut r = k;
                for d in (0..free).rev() {
                    digits[d] = (r % kk) as usize;
                    r /= kk;
                }
                words.extend(digits.iter().map(|&i| mu::VOCAB[i]));
                sig.push(("len".into(), len.to_string()));
                sig.push(("first".into(), words.first().copied().unwrap_or("").to_string()));
                (words.join(" "), sig, format!("word string of length {}", len))
            }
            GK::Nest { fam, depth } => {
                sig.push(("shape".into(), fam.to_string()));
                sig.push(("depth".into(), depth.to_string()));
                (mu::nest(fam, *depth).expect("family"), sig, format!("nesting family {} at depth {}", fam, depth))
            }
            GK::Size { fam } => {
                sig.push(("shape".into(), fam.to_string()));
                (mu::size(fam).expect("family"), sig, format!("size family {}", fam))
            }
        }
    }

    fn case_json(&self, gi: usize, input: &str, how: &str) -> Value {
        let g = &self.groups[gi];
        match &g.kind {
            GK::Nest { fam, depth } => json!({"nest": fam, "depth": depth, "how": how, "input_bytes": input.len(), "input_head": vcore::util::trunc(input, 120)}),
            GK::Size { fam } => json!({"size": fam, "how": how, "input_bytes": input.len(), "input_head": vcore::util::trunc(input, 120)}),
            _ => json!({"input": input, "how": how}),
        }
    }

    fn run_inner(&self, from: u64, to: u64, p: &Progress) -> ChunkOut {
        let mut out = ChunkOut::default();
        let mut gi = self.group_of(from);
        let mut idx = from;
        while idx < to {
            while self.starts[gi + 1] <= idx {
                gi += 1;
            }
            let k = idx - self.starts[gi];
            let (input, sig, how) = self.gen(gi, k);
            let fam = self.family(&self.groups[gi]);
            p.begin(idx);
            let o = probe(&input, Some((p, idx)));
            out.evaluated += 1;
            out.count(&format!("cases.{}", fam), 1);
            match &o {
                Outcome::Ok(v) => {
                    out.count(&format!("ok.{}", fam), 1);
                    if !out.distinct.contains(&format!("ok:{}", v)) {
                        out.distinct.insert(format!("ok:{}", v));
                        out.samples.push(json!({"key": format!("ok:{}", v), "input": vcore::util::trunc(&input, 200), "how": how, "observed": format!("Ok({})", v)}));
                    }
                }
                Outcome::Err(class, msg) => {
                    out.count(&format!("err.{}", fam), 1);
                    let key = format!("err:{}:{}", class, fam);
                    if !out.distinct.contains(&key) {
                        out.distinct.insert(key.clone());
                        out.samples.push(json!({"key": key, "input": vcore::util::trunc(&input, 200), "how": how, "observed": vcore::util::trunc(msg, 160)}));
                    }
                }
                Outcome::Panic(phase, msg) => {
                    // re-execute twice from scratch
                    let again: Vec<Outcome> = (0..2).map(|_| probe(&input, None)).collect();
                    if again.iter().all(|a| matches!(a, Outcome::Panic(..))) {
                        let mut sig = sig.clone();
                        sig.push(("fate".into(), "panic".into()));
                        out.count("fate.panic", 1);
                        out.viol(idx, sig, format!("panic while {} ({}): {}", phase, how, vcore::util::trunc(msg, 300)), self.case_json(gi, &input, &how));
                    } else {
                        out.machinery.push(format!("case {} panicked once but not on re-execution: {:?}", idx, again));
                    }
                }
            }
            idx += 1;
        }
        p.begin(u64::MAX);
        out
    }
}

#[derive(Debug, Clone)]
pub enum Outcome {
    Ok(&'static str),
    /// class (lexer / parser), message
    Err(&'static str, String),
    /// phase, message
    Panic(&'static str, String),
}

fn variant(s: &vibesql_ast::Statement) -> &'static str {
    use vibesql_ast::Statement as S;
    match s {
        S::Select(_) => "Select",
        S::Insert(_) => "Insert",
        S::Update(_) => "Update",
        S::Delete(_) => "Delete",
        S::CreateTable(_) => "CreateTable",
        S::DropTable(_) => "DropTable",
        S::TruncateTable(_) => "TruncateTable",
        S::AlterTable(_) => "AlterTable",
        S::CreateSchema(_) => "CreateSchema",
        S::DropSchema(_) => "DropSchema",
        S::SetSchema(_) => "SetSchema",
        S::SetCatalog(_) => "SetCatalog",
        S::SetNames(_) => "SetNames",
        S::SetTimeZone(_) => "SetTimeZone",
        S::SetTransaction(_) => "SetTransaction",
        S::SetVariable(_) => "SetVariable",
        S::CreateRole(_) => "CreateRole",
        S::DropRole(_) => "DropRole",
        S::BeginTransaction(_) => "BeginTransaction",
        S::Commit(_) => "Commit",
        S::Rollback(_) => "Rollback",
        S::Savepoint(_) => "Savepoint",
        S::RollbackToSavepoint(_) => "RollbackToSavepoint",
        S::ReleaseSavepoint(_) => "ReleaseSavepoint",
        S::Grant(_) => "Grant",
        S::Revoke(_) => "Revoke",
        S::CreateDomain(_) => "CreateDomain",
        S::DropDomain(_) => "DropDomain",
        S::CreateSequence(_) => "CreateSequence",
        S::AlterSequence(_) => "AlterSequence",
        S::DropSequence(_) => "DropSequence",
        S::CreateType(_) => "CreateType",
        S::DropType(_) => "DropType",
        S::CreateCollation(_) => "CreateCollation",
        S::DropCollation(_) => "DropCollation",
        S::CreateCharacterSet(_) => "CreateCharacterSet",
        S::DropCharacterSet(_) => "DropCharacterSet",
        S::CreateTranslation(_) => "CreateTranslation",
        S::DropTranslation(_) => "DropTranslation",
        S::CreateView(_) => "CreateView",
        S::DropView(_) => "DropView",
        S::CreateTrigger(_) => "CreateTrigger",
        S::AlterTrigger(_) => "AlterTrigger",
        S::DropTrigger(_) => "DropTrigger",
        S::CreateIndex(_) => "CreateIndex",
        S::DropIndex(_) => "DropIndex",
        S::Reindex(_) => "Reindex",
        S::Analyze(_) => "Analyze",
        S::CreateAssertion(_) => "CreateAssertion",
        S::DropAssertion(_) => "DropAssertion",
        S::DeclareCursor(_) => "DeclareCursor",
        S::OpenCursor(_) => "OpenCursor",
        S::Fetch(_) => "Fetch",
        S::CloseCursor(_) => "CloseCursor",
        S::CreateProcedure(_) => "CreateProcedure",
        S::DropProcedure(_) => "DropProcedure",
        S::CreateFunction(_) => "CreateFunction",
        S::DropFunction(_) => "DropFunction",
        S::Call(_) => "Call",
        S::ShowTables(_) => "ShowTables",
        S::ShowDatabases(_) => "ShowDatabases",
        S::ShowColumns(_) => "ShowColumns",
        S::ShowIndex(_) => "ShowIndex",
        S::ShowCreateTable(_) => "ShowCreateTable",
        S::Describe(_) => "Describe",
        #[allow(unreachable_patterns)]
        _ => "Other",
    }
}

/// One parse (and drop of the result) with panics caught. Must run on the thread whose stack is
/// the stated bound.
pub fn probe(input: &str, mark: Option<(&Progress, u64)>) -> Outcome {
    let r = catch_unwind(|| vibesql_parser::Parser::parse_sql(input));
    match r {
        Ok(Ok(stmt)) => {
            let v = variant(&stmt);
            if let Some((p, idx)) = mark {
                p.phase(idx, "dropping the returned statement");
            }
            match catch_unwind(AssertUnwindSafe(move || drop(stmt))) {
                Ok(()) => Outcome::Ok(v),
                Err(pl) => Outcome::Panic("dropping the returned statement", vcore::exec::panic_msg(pl)),
            }
        }
        Ok(Err(e)) => {
            let class = if e.message.starts_with("Lexer error") { "lexer" } else { "parser" };
            Outcome::Err(class, e.message)
        }
        Err(pl) => Outcome::Panic("parsing", vcore::exec::panic_msg(pl)),
    }
}

impl Space for C23 {
    fn total(&self) -> u64 {
        *self.starts.last().unwrap()
    }
    fn chunk(&self) -> u64 {
        if self.thorough {
            400_000
        } else {
            12_000
        }
    }
    fn ranges(&self) -> Vec<(u64, u64)> {
        // The nesting families of one depth share a worker process, the size families share four
        // (a death is attributed by iso::run_range and the rest of the range continues in a fresh
        // process); everything else is cut into chunks.
        let chunk = self.chunk();
        let mut cuts: Vec<u64> = vec![0];
        let mut prev_key = String::new();
        let mut size_seen = 0usize;
        for (gi, g) in self.groups.iter().enumerate() {
            let key = match &g.kind {
                GK::Nest { depth, .. } => format!("nest{}", depth),
                GK::Size { .. } => {
                    size_seen += 1;
                    format!("size{}", (size_seen - 1) / 9)
                }
                _ => "bulk".to_string(),
            };
            if key != prev_key {
                cuts.push(self.starts[gi]);
                prev_key = key;
            }
        }
        cuts.push(self.total());
        cuts.dedup();
        let mut out = vec![];
        for w in cuts.windows(2) {
            let (mut a, b) = (w[0], w[1]);
            while b - a > chunk + chunk / 2 {
                out.push((a, a + chunk));
                a += chunk;
            }
            if b > a {
                out.push((a, b));
            }
        }
        out
    }
    fn case_deadline(&self) -> Duration {
        // wall-clock guard against a blocking hang; the bound that matters is cpu_limit
        Duration::from_secs(600)
    }
    fn cpu_limit(&self) -> Duration {
        // the largest inputs are ~1.2 MB and parse in well under a second on an idle core; the
        // limit is generous because CPU-time accounting on an oversubscribed host is noisy
        Duration::from_secs(30)
    }
    fn run(&self, from: u64, to: u64, p: &Progress) -> ChunkOut {
        std::thread::scope(|s| {
            let h = std::thread::Builder::new().stack_size(STACK).spawn_scoped(s, || self.run_inner(from, to, p)).expect("spawn parser thread");
            match h.join() {
                Ok(o) => o,
                Err(pl) => {
                    let mut o = ChunkOut::default();
                    o.machinery.push(format!("harness thread panicked: {}", vcore::exec::panic_msg(pl)));
                    o
                }
            }
        })
    }
    fn describe(&self, idx: u64) -> (Vec<(String, String)>, Value) {
        let gi = self.group_of(idx);
        let (input, sig, how) = self.gen(gi, idx - self.starts[gi]);
        (sig, self.case_json(gi, &input, &how))
    }
}

pub fn space(tier: &str) -> C23 {
    C23::new(tier)
}

pub fn run(tier: &str) -> i32 {
    let mut rep = Report::new("C23", tier, "exploration");
    let sp = C23::new(tier);

    // non-vacuity of the corpus: which Statement variants / expression forms the seeds reach
    let mut variants: BTreeMap<&str, usize> = BTreeMap::new();
    let mut forms: BTreeMap<&str, usize> = BTreeMap::new();
    let mut rejected = vec![];
    for s in &sp.seeds {
        match vcore::exec::parse(s.text) {
            Ok(st) => {
                *variants.entry(variant(&st)).or_insert(0) += 1;
                let dbg = format!("{:?}", st);
                for (name, needle) in corpus::EXPRESSION_FORMS {
                    if dbg.contains(needle) {
                        *forms.entry(name).or_insert(0) += 1;
                    }
                }
            }
            Err(_) => rejected.push(s.name),
        }
    }
    let missing_variants: Vec<&str> = corpus::STATEMENT_VARIANTS.iter().copied().filter(|v| !variants.contains_key(v)).collect();
    let missing_forms: Vec<&str> = corpus::EXPRESSION_FORMS.iter().map(|(n, _)| *n).filter(|n| !forms.contains_key(n)).collect();
    if !missing_variants.is_empty() || !missing_forms.is_empty() || !rejected.is_empty() {
        eprintln!("WARNING C23 corpus: seeds rejected by the parser {:?}; Statement variants not reached {:?}; expression forms not reached {:?}", rejected, missing_variants, missing_forms);
    }

    let budget = Duration::from_secs(if sp.thorough { 600 } else { 120 });
    let all = iso::drive(&sp, &mut rep, budget);

    let fam_counts: BTreeMap<String, u64> = all.counters.iter().filter(|(k, _)| k.starts_with("cases.")).map(|(k, v)| (k.clone(), *v)).collect();
    let ok: u64 = all.counters.iter().filter(|(k, _)| k.starts_with("ok.")).map(|(_, v)| *v).sum();
    let err: u64 = all.counters.iter().filter(|(k, _)| k.starts_with("err.")).map(|(_, v)| *v).sum();
    println!(
        "C23 {}: {} inputs ({} seeds); parsed Ok {} / Err {}; distinct outcome classes {}; panics {} process deaths {} hangs {}",
        tier,
        all.evaluated,
        sp.seeds.len(),
        ok,
        err,
        all.distinct.len(),
        all.counters.get("fate.panic").copied().unwrap_or(0),
        all.counters.get("fate.process_death").copied().unwrap_or(0),
        all.counters.get("fate.hang").copied().unwrap_or(0)
    );
    println!("C23 per family: {:?}", fam_counts);
    println!(
        "C23 corpus reach: {}/{} Statement variants, {}/{} expression forms (missing: {:?} {:?}; rejected seeds: {:?})",
        corpus::STATEMENT_VARIANTS.len() - missing_variants.len(),
        corpus::STATEMENT_VARIANTS.len(),
        corpus::EXPRESSION_FORMS.len() - missing_forms.len(),
        corpus::EXPRESSION_FORMS.len(),
        missing_forms,
        missing_variants,
        rejected
    );
    rep.set("outcomes", json!({"ok": ok, "err": err}));
    rep.set(
        "reach",
        json!({
            "statement_variants_reached_by_seeds": variants,
            "expression_forms_reached_by_seeds": forms,
            "statement_variants_missing": missing_variants,
            "expression_forms_missing": missing_forms,
            "seeds_rejected_by_parser": rejected,
            "distinct_outcomes": all.distinct,
        }),
    );
    rep.set(
        "bounds",
        json!({
            "seeds": sp.seeds.len(),
            "char_alphabet": mu::SIGMA_C[..sp.ca].iter().map(|c| c.escape_default().to_string()).collect::<Vec<_>>(),
            "vocabulary": &mu::VOCAB[..sp.k],
            "char_edits": if sp.thorough { format!("<=1 on every seed, <=2 on seeds of <= {} chars", CHAR2_MAX_CHARS) } else { "<=1 on every seed".to_string() },
            "token_edits": if sp.thorough { format!("<=1 on every seed, <=2 on seeds of <= {} tokens", TOK2_MAX_TOKS) } else { "<=1 on every seed".to_string() },
            "word_strings_max_len": if sp.thorough { 4 } else { 3 },
            "vocabulary_words": sp.k,
            "nesting_families": mu::NEST_FAMILIES,
            "nesting_depths": DEPTHS,
            "size_families": mu::SIZE_FAMILIES,
            "stack_bytes": STACK,
            "cpu_deadline_s": sp.cpu_limit().as_secs(),
        }),
    );
    rep.set(
        "rule",
        json!("every seed, every proper prefix, every <=k char edit and <=k token edit of the seeds (k per tier, see bounds), every word string up to the length bound, every nesting family x depth and every size family is parsed by vibesql_parser::Parser::parse_sql in a worker subprocess on a thread with a 2 MiB stack; the returned statement is dropped. Oracle: Ok or Err within the CPU deadline; a panic (catch_unwind), a dead worker (SIGSEGV/abort: stack overflow) or a blown deadline is a violation attributed to the in-flight case and re-executed. distinct_nontrivial = distinct (Ok x Statement variant) and (Err x lexer|parser x family) classes observed"),
    );
    rep.assume("the parser is called on a thread with at least 2 MiB of stack (Rust's default for spawned threads); release build of the harness profile");
    rep.assume("error messages are not compared; a valid statement that is rejected and an invalid one that is accepted are both outside the property");
    rep.finish()
}

fn input_of_case(case: &Value) -> Option<String> {
    if let Some(s) = case.get("input").and_then(|x| x.as_str()) {
        return Some(s.to_string());
    }
    if let (Some(f), Some(d)) = (case.get("nest").and_then(|x| x.as_str()), case.get("depth").and_then(|x| x.as_u64())) {
        return mu::nest(f, d as usize);
    }
    if let Some(f) = case.get("size").and_then(|x| x.as_str()) {
        return mu::size(f);
    }
    None
}

/// `totalcheck c23-one <file>`: parse the file's content on a 2 MiB thread; exit 0 returned, 4 panic
pub fn one(path: &str) -> i32 {
    let Ok(input) = std::fs::read_to_string(path) else {
        eprintln!("cannot read {}", path);
        return 2;
    };
    let h = std::thread::Builder::new().stack_size(STACK).spawn(move || probe(&input, None)).expect("spawn");
    match h.join() {
        Ok(Outcome::Ok(v)) => {
            println!("returned Ok({})", v);
            0
        }
        Ok(Outcome::Err(c, m)) => {
            println!("returned Err[{}]: {}", c, vcore::util::trunc(&m, 300));
            0
        }
        Ok(Outcome::Panic(ph, m)) => {
            println!("PANIC while {}: {}", ph, vcore::util::trunc(&m, 300));
            4
        }
        Err(_) => 2,
    }
}

pub fn replay(case: &Value) -> i32 {
    let Some(input) = input_of_case(case) else {
        eprintln!("replay case has no input");
        return 2;
    };
    println!("input ({} bytes): {}", input.len(), vcore::util::trunc(&input, 300));
    let tmp = format!("/tmp/total-replay-{}.sql", std::process::id());
    if std::fs::write(&tmp, &input).is_err() {
        return 2;
    }
    let exe = std::env::current_exe().expect("exe");
    let mut child = match std::process::Command::new(exe).args(["c23-one", &tmp]).spawn() {
        Ok(c) => c,
        Err(_) => return 2,
    };
    // deadline: 30 s wall
    let start = std::time::Instant::now();
    let status = loop {
        match child.try_wait() {
            Ok(Some(st)) => break Some(st),
            Ok(None) if start.elapsed() > Duration::from_secs(30) => {
                let _ = child.kill();
                let _ = child.wait();
                break None;
            }
            Ok(None) => std::thread::sleep(Duration::from_millis(10)),
            Err(_) => break None,
        }
    };
    let _ = std::fs::remove_file(&tmp);
    match status {
        None => {
            println!("observed: no result within 30 s (killed) — VIOLATION reproduced");
            1
        }
        Some(st) if st.success() => {
            println!("observed: the parser returned — property holds on this case");
            0
        }
        Some(st) if st.code() == Some(4) => {
            println!("observed: panic — VIOLATION reproduced");
            1
        }
        Some(st) => {
            println!("observed: parser process died ({}) — VIOLATION reproduced", st);
            1
        }
    }
}
