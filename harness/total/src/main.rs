//! `totalcheck` — checks C23, C24.
//!   totalcheck check <ID> <quick|thorough>
//!   totalcheck replay <path>

mod c23;
mod c24;
mod corpus;
mod iso;
mod mutate;
mod xcorpus;

// Every SelectExecutor allocates a zeroed 10 MiB arena per query; pool those blocks (see vcore::bigalloc)
#[global_allocator]
static GLOBAL: vcore::bigalloc::ArenaCache = vcore::bigalloc::ArenaCache;

fn usage() -> ! {
    eprintln!("usage: totalcheck check <C23|C24> <quick|thorough> | totalcheck replay <path>");
    std::process::exit(2)
}

fn replay(path: &str) -> i32 {
    let text = match std::fs::read_to_string(path) {
        Ok(t) => t,
        Err(e) => {
            eprintln!("cannot read {}: {}", path, e);
            return 2;
        }
    };
    let v: serde_json::Value = match serde_json::from_str(&text) {
        Ok(v) => v,
        Err(e) => {
            eprintln!("bad replay file: {}", e);
            return 2;
        }
    };
    println!("property: {}", v["property"].as_str().unwrap_or("?"));
    println!("signature: {}", v["signature"]);
    println!("recorded: {}", v["what"].as_str().unwrap_or(""));
    println!("-- re-execution");
    match v["property"].as_str() {
        Some("C23") => c23::replay(&v["case"]),
        Some("C24") => c24::replay(&v["case"]),
        _ => {
            eprintln!("not a replay file of this package");
            2
        }
    }
}

fn main() {
    let args: Vec<String> = std::env::args().collect();
    if args.len() < 2 {
        usage();
    }
    if std::env::var("PARALLEL_THRESHOLD").is_err() {
        std::env::set_var("PARALLEL_THRESHOLD", "max");
    }
    if std::env::var("TOTAL_SHOW_PANICS").is_err() {
        vcore::exec::silence_panics();
    }
    let code = match args[1].as_str() {
        "check" if args.len() >= 4 => match args[2].as_str() {
            "C23" => c23::run(&args[3]),
            "C24" => c24::run(&args[3]),
            other => {
                eprintln!("totalcheck does not implement {}", other);
                2
            }
        },
        "replay" if args.len() >= 3 => replay(&args[2]),
        // internal: child process per index range
        "worker" if args.len() >= 7 => {
            let (from, to) = match (args[4].parse::<u64>(), args[5].parse::<u64>()) {
                (Ok(a), Ok(b)) => (a, b),
                _ => usage(),
            };
            let mark = args[6] == "mark";
            match args[2].as_str() {
                "C23" => iso::worker_main(&c23::space(&args[3]), from, to, mark),
                "C24" => iso::worker_main(&c24::space(&args[3]), from, to, mark),
                _ => 2,
            }
        }
        "c23-one" if args.len() >= 3 => c23::one(&args[2]),
        "c24-one" if args.len() >= 3 => c24::one(&args[2]),
        // development aid: sizes of the case spaces
        "sizes" => {
            use iso::Space;
            for t in ["quick", "thorough"] {
                let a = c23::space(t);
                let b = c24::space(t);
                println!("C23 {}: {} cases in {} ranges; C24 {}: {} cases in {} ranges", t, a.total(), a.ranges().len(), t, b.total(), b.ranges().len());
                println!("  C23 families: {:?}", a.family_sizes());
                println!("  C24 sections: {:?}", b.section_sizes());
            }
            0
        }
        // development aid: one nesting-family input in this process
        "c23-nest" if args.len() >= 4 => {
            let input = mutate::nest(&args[2], args[3].parse().unwrap_or(1)).unwrap_or_default();
            let stack = args.get(4).and_then(|s| s.parse::<usize>().ok()).unwrap_or(c23::STACK);
            let h = std::thread::Builder::new().stack_size(stack).spawn(move || format!("{:?}", c23::probe(&input, None)).chars().take(100).collect::<String>()).unwrap();
            println!("{}", h.join().unwrap());
            0
        }
        // development aid: which seeds does the parser reject, and why
        "corpus" => {
            for (n, t) in corpus::SEEDS.iter().chain(xcorpus::EXEC.iter()) {
                if let Err(e) = vcore::exec::parse(t) {
                    println!("{}: {}\n    {}", n, e, t);
                }
            }
            for (n, text, defaults) in xcorpus::TEMPLATES {
                let mut q = text.to_string();
                for i in (0..defaults.len()).rev() {
                    q = q.replace(&format!("${}", i + 1), defaults[i]);
                }
                if let Err(e) = vcore::exec::parse(&q) {
                    println!("template {}: {}\n    {}", n, e, q);
                }
            }
            0
        }
        _ => usage(),
    };
    std::process::exit(code);
}
