//! C24 — statement execution never panics and never silently wraps numbers (DESIGN §5 C24).
//!
//! Spaces (all enumerated):
//!   A1  every statement of the corpus (`corpus::SEEDS` + `xcorpus::EXEC`) x every schema prelude
//!   A2  (thorough) every ordered pair of statements x every prelude
//!   B1  every template x every literal slot x every hostile value (one slot at a time)
//!   B2  (thorough) every template x every pair of slots x every pair of hostile values
//!   D1  deep and long statements the parser accepts (nesting <= 100, operator chains <= 10000,
//!       10^5-element lists) executed on the `basic` prelude
//!   C1  exact arithmetic: x∘y, x∘y∘z, -x, ABS(x) over boundary values, per integer column type,
//!       through literal operands (AST) and through column operands
//!   C2  SUM / AVG over every multiset of <= 3 boundary values per integer column type through the
//!       columnar path, the row path (columnar gate forced off) and the GROUP BY path
//! Oracle: no panic (catch_unwind) and no dead worker; afterwards every sanity query of the
//! prelude still runs (and returns what it returned before if the statement was a read or was
//! rejected by the parser) and a probe table can be created, written and read; for C1/C2 the
//! result equals the i128-exact value, or is a float within 1e-12 of it (relative to the operand
//! magnitudes), or is NULL / an error — never a wrapped or otherwise inexact integer.

use std::collections::BTreeMap;
use std::time::Duration;

use serde_json::{json, Value};
use vcore::exec::{self, Out};
use vcore::report::Report;
use vibesql_ast as ast;
use vibesql_executor as ve;
use vibesql_storage::Database;
use vibesql_types::SqlValue;

use crate::corpus;
use crate::iso::{self, ChunkOut, Progress, Space};
use crate::xcorpus::{self, Prelude, Step};

/// Stack of the thread that executes statements (the Linux main-thread default).
pub const STACK: usize = 8 << 20;

// ------------------------------------------------------------------------------------------------
// execution: dispatch of every statement kind that has an executor in the library

fn unit<T>(r: Result<T, ve::ExecutorError>) -> Out {
    match r {
        Ok(_) => Out::Done,
        Err(e) => Out::Err(exec::ErrClass::Other, format!("{}", e)),
    }
}

fn dispatch(db: &mut Database, stmt: &ast::Statement) -> Out {
    use ast::Statement as S;
    let r = std::panic::catch_unwind(std::panic::AssertUnwindSafe(|| match stmt {
        S::CreateDomain(s) => Some(unit(ve::DomainExecutor::execute_create_domain(s, db))),
        S::DropDomain(s) => Some(unit(ve::DomainExecutor::execute_drop_domain(s, db))),
        S::CreateSequence(s) => Some(unit(ve::advanced_objects::execute_create_sequence(s, db))),
        S::DropSequence(s) => Some(unit(ve::advanced_objects::execute_drop_sequence(s, db))),
        S::AlterSequence(s) => Some(unit(ve::advanced_objects::execute_alter_sequence(s, db))),
        S::CreateType(s) => Some(unit(ve::advanced_objects::execute_create_type(s, db))),
        S::DropType(s) => Some(unit(ve::advanced_objects::execute_drop_type(s, db))),
        S::CreateCollation(s) => Some(unit(ve::advanced_objects::execute_create_collation(s, db))),
        S::DropCollation(s) => Some(unit(ve::advanced_objects::execute_drop_collation(s, db))),
        S::CreateCharacterSet(s) => Some(unit(ve::advanced_objects::execute_create_character_set(s, db))),
        S::DropCharacterSet(s) => Some(unit(ve::advanced_objects::execute_drop_character_set(s, db))),
        S::CreateTranslation(s) => Some(unit(ve::advanced_objects::execute_create_translation(s, db))),
        S::DropTranslation(s) => Some(unit(ve::advanced_objects::execute_drop_translation(s, db))),
        S::CreateAssertion(s) => Some(unit(ve::advanced_objects::execute_create_assertion(s, db))),
        S::DropAssertion(s) => Some(unit(ve::advanced_objects::execute_drop_assertion(s, db))),
        S::CreateProcedure(s) => Some(unit(ve::advanced_objects::execute_create_procedure(s, db))),
        S::DropProcedure(s) => Some(unit(ve::advanced_objects::execute_drop_procedure(s, db))),
        S::CreateFunction(s) => Some(unit(ve::advanced_objects::execute_create_function(s, db))),
        S::DropFunction(s) => Some(unit(ve::advanced_objects::execute_drop_function(s, db))),
        S::Call(s) => Some(unit(ve::advanced_objects::execute_call(s, db))),
        S::AlterTrigger(s) => Some(unit(ve::advanced_objects::execute_alter_trigger(s, db))),
        S::SetCatalog(s) => Some(unit(ve::SchemaExecutor::execute_set_catalog(s, db))),
        S::SetNames(s) => Some(unit(ve::SchemaExecutor::execute_set_names(s, db))),
        S::SetTimeZone(s) => Some(unit(ve::SchemaExecutor::execute_set_time_zone(s, db))),
        _ => None,
    }));
    match r {
        Ok(Some(o)) => o,
        Ok(None) => exec::exec_stmt(db, stmt),
        Err(p) => Out::Panic(exec::panic_msg(p)),
    }
}

fn run_sql(db: &mut Database, sql: &str) -> Out {
    match exec::parse(sql) {
        Ok(st) => dispatch(db, &st),
        Err(e) if e.starts_with("PANIC") => Out::Panic(e),
        Err(e) => Out::Err(exec::ErrClass::Parse, e),
    }
}

/// Insert one row of values through the AST.
fn insert_row(db: &mut Database, table: &str, vals: &[SqlValue]) -> Out {
    let stmt = ast::Statement::Insert(ast::InsertStmt {
        table_name: table.to_uppercase(),
        columns: vec![],
        source: ast::InsertSource::Values(vec![vals.iter().map(|v| ast::Expression::Literal(v.clone())).collect()]),
        conflict_clause: None,
        on_duplicate_key_update: None,
    });
    dispatch(db, &stmt)
}

fn build_prelude(p: &Prelude, problems: &mut Vec<String>) -> Database {
    let mut db = Database::new();
    for st in &p.steps {
        let (what, o) = match st {
            Step::Sql(q) => (q.to_string(), run_sql(&mut db, q)),
            Step::Row(t, vals) => (format!("row into {}", t), insert_row(&mut db, t, vals)),
            Step::Trigger(create, body) => {
                let o = match exec::parse(create) {
                    Ok(ast::Statement::CreateTrigger(mut ct)) => {
                        ct.triggered_action = ast::TriggerAction::RawSql(body.to_string());
                        dispatch(&mut db, &ast::Statement::CreateTrigger(ct))
                    }
                    other => Out::Err(exec::ErrClass::Parse, format!("{:?}", other.map(|_| ()))),
                };
                (create.to_string(), o)
            }
        };
        if !o.is_ok() {
            // a panic is the engine's failure (reported as a violation), anything else the harness'
            let tag = if o.is_panic() { "PANIC " } else { "" };
            problems.push(format!("{}prelude {}: step `{}` => {}", tag, p.name, vcore::util::trunc(&what, 80), o.brief()));
        }
    }
    db
}

// ------------------------------------------------------------------------------------------------
// usability oracle

#[derive(Clone, PartialEq, Debug)]
enum Obs {
    Rows(Vec<Vec<vcore::val::NV>>),
    Err,
    Panic(String),
}

fn observe(db: &Database, sql: &str) -> Obs {
    match exec::select(db, sql) {
        Out::Rows(r) => Obs::Rows(vcore::val::bag(&r)),
        Out::Panic(m) => Obs::Panic(m),
        _ => Obs::Err,
    }
}

struct Base {
    db: Database,
    /// sanity queries and what they return on the untouched prelude
    sanity: Vec<(String, Obs)>,
    /// outcome class of every probe statement on the untouched prelude, and the probe table's content
    probe: Vec<&'static str>,
    probe_rows: Obs,
}

const PROBE: &[&str] = &["CREATE TABLE zz_probe (k INT PRIMARY KEY, v VARCHAR(5))", "INSERT INTO zz_probe VALUES (1, 'a'), (2, 'b')", "UPDATE zz_probe SET v = 'c' WHERE k = 2", "DELETE FROM zz_probe WHERE k = 1"];

fn base_of(db: Database) -> Base {
    let mut tables = db.list_tables();
    tables.sort();
    let sanity = tables.iter().map(|t| format!("SELECT * FROM {}", t)).map(|q| (q.clone(), observe(&db, &q))).collect();
    let mut fresh = db.clone();
    let probe = PROBE.iter().map(|q| run_sql(&mut fresh, q).class()).collect();
    let probe_rows = observe(&fresh, "SELECT * FROM zz_probe");
    Base { db, sanity, probe, probe_rows }
}

fn is_read(st: &ast::Statement) -> bool {
    match st {
        ast::Statement::Select(s) => s.into_table.is_none() && s.into_variables.is_none(),
        _ => false,
    }
}

/// Some(description) if the database is not usable after `outs` were observed on it.
/// `unchanged` = the sanity queries must return what they returned on the untouched prelude.
fn usable_after(base: &Base, db: &mut Database, unchanged: bool) -> Option<(&'static str, String)> {
    for (q, before) in &base.sanity {
        let after = observe(db, q);
        if let Obs::Panic(m) = &after {
            return Some(("panic", format!("sanity query `{}` panics afterwards: {}", q, vcore::util::trunc(m, 200))));
        }
        if unchanged && &after != before {
            return Some(("state-changed", format!("sanity query `{}` returned something else after a statement that must not change anything", q)));
        }
    }
    if unchanged {
        // the probe must work exactly as on the untouched prelude
        for (q, want) in PROBE.iter().zip(&base.probe) {
            let got = run_sql(db, q);
            if got.is_panic() {
                return Some(("panic", format!("probe `{}` panics afterwards: {}", q, got.brief())));
            }
            if *want != got.class() {
                return Some(("unusable", format!("probe `{}` => {} afterwards, {} on the untouched database", q, got.brief(), want)));
            }
        }
        let b = observe(db, "SELECT * FROM zz_probe");
        if base.probe_rows != b {
            return Some(("unusable", format!("probe table reads {:?} afterwards, {:?} on the untouched database", b, base.probe_rows)));
        }
    } else {
        for q in PROBE {
            let got = run_sql(db, q);
            if got.is_panic() {
                return Some(("panic", format!("probe `{}` panics afterwards: {}", q, got.brief())));
            }
        }
    }
    None
}

/// Execute `stmts` on a clone of the prelude; Some((fate, what)) on a violation.
fn run_statements(base: &Base, stmts: &[&str], outs: &mut Vec<Out>) -> Option<(&'static str, String)> {
    let mut db = base.db.clone();
    let mut all_harmless = true;
    for q in stmts {
        let parsed = exec::parse(q);
        let o = match &parsed {
            Ok(st) => dispatch(&mut db, st),
            Err(e) if e.starts_with("PANIC") => Out::Panic(e.clone()),
            Err(e) => Out::Err(exec::ErrClass::Parse, e.clone()),
        };
        let harmless = match &parsed {
            Ok(st) => is_read(st),
            Err(_) => true,
        };
        all_harmless &= harmless;
        if let Out::Panic(m) = &o {
            let m = m.clone();
            outs.push(o);
            return Some(("panic", format!("`{}` panicked: {}", vcore::util::trunc(q, 200), vcore::util::trunc(&m, 300))));
        }
        outs.push(o);
    }
    usable_after(base, &mut db, all_harmless)
}

// ------------------------------------------------------------------------------------------------
// C: exact arithmetic

#[derive(Clone, Copy, Debug, PartialEq)]
pub enum IntTy {
    Integer,
    Bigint,
    Smallint,
}

impl IntTy {
    fn name(&self) -> &'static str {
        match self {
            IntTy::Integer => "INTEGER",
            IntTy::Bigint => "BIGINT",
            IntTy::Smallint => "SMALLINT",
        }
    }
    fn lit(&self, v: i64) -> SqlValue {
        match self {
            IntTy::Integer => SqlValue::Integer(v),
            IntTy::Bigint => SqlValue::Bigint(v),
            IntTy::Smallint => SqlValue::Smallint(v as i16),
        }
    }
    fn values(&self) -> Vec<i64> {
        match self {
            IntTy::Smallint => vec![0, 1, -1, 2, -2, 181, -181, i16::MAX as i64, i16::MAX as i64 - 1, i16::MIN as i64, i16::MIN as i64 + 1],
            _ => vec![0, 1, -1, 2, -2, 3037000500, -3037000500, i64::MAX, i64::MAX - 1, i64::MIN, i64::MIN + 1],
        }
    }
}

const TYPES: &[IntTy] = &[IntTy::Integer, IntTy::Bigint, IntTy::Smallint];
const OPS: &[char] = &['+', '-', '*'];

/// Arithmetic forms: (name, arity)
const FORMS: &[(&str, usize)] = &[
    ("neg", 1),
    ("abs", 1),
    ("x+y", 2),
    ("x-y", 2),
    ("x*y", 2),
    ("x/y", 2),
    ("x%y", 2),
    ("x+y+z", 3),
    ("x+y-z", 3),
    ("x+y*z", 3),
    ("x-y+z", 3),
    ("x-y-z", 3),
    ("x-y*z", 3),
    ("x*y+z", 3),
    ("x*y-z", 3),
    ("x*y*z", 3),
];

fn bin(op: char, l: ast::Expression, r: ast::Expression) -> ast::Expression {
    let op = match op {
        '+' => ast::BinaryOperator::Plus,
        '-' => ast::BinaryOperator::Minus,
        // integer division (DIV) and MOD(x, y)
        '/' => ast::BinaryOperator::IntegerDivide,
        '%' => return ast::Expression::Function { name: "MOD".into(), args: vec![l, r], character_unit: None },
        _ => ast::BinaryOperator::Multiply,
    };
    ast::Expression::BinaryOp { op, left: Box::new(l), right: Box::new(r) }
}

/// expression of `form` over the operand expressions, built with SQL precedence (as the parser would)
fn form_expr(form: &str, x: ast::Expression, y: ast::Expression, z: ast::Expression) -> ast::Expression {
    match form {
        "neg" => ast::Expression::UnaryOp { op: ast::UnaryOperator::Minus, expr: Box::new(x) },
        "abs" => ast::Expression::Function { name: "ABS".into(), args: vec![x], character_unit: None },
        f if f.len() == 3 => bin(f.as_bytes()[1] as char, x, y),
        f => {
            let (o1, o2) = (f.as_bytes()[1] as char, f.as_bytes()[3] as char);
            if o2 == '*' && o1 != '*' {
                bin(o1, x, bin(o2, y, z))
            } else {
                bin(o2, bin(o1, x, y), z)
            }
        }
    }
}

/// Exact value of `form`: (the integer if it fits in i128, the value as f64, magnitude bound M of
/// the leaf terms). Products of three 64-bit operands need up to 190 bits, hence the fallback.
fn form_exact(form: &str, x: i64, y: i64, z: i64) -> (Option<i128>, f64, f64) {
    // (x / 0 and MOD(x, 0) have no value: the caller accepts only NULL / an error for them)
    fn ap(o: char, a: Option<i128>, b: Option<i128>) -> Option<i128> {
        let (a, b) = (a?, b?);
        match o {
            '+' => a.checked_add(b),
            '-' => a.checked_sub(b),
            '/' => if b == 0 { Some(0) } else { a.checked_div(b) },
            '%' => if b == 0 { Some(0) } else { a.checked_rem(b) },
            _ => a.checked_mul(b),
        }
    }
    fn apf(o: char, a: f64, b: f64) -> f64 {
        match o {
            '+' => a + b,
            '-' => a - b,
            '/' => if b == 0.0 { 0.0 } else { (a / b).trunc() },
            '%' => if b == 0.0 { 0.0 } else { a % b },
            _ => a * b,
        }
    }
    fn mag(o: char, a: f64, b: f64) -> f64 {
        match o {
            '*' => a * b,
            '/' | '%' => a,
            _ => a + b,
        }
    }
    let (xi, yi, zi) = (Some(x as i128), Some(y as i128), Some(z as i128));
    let (xf, yf, zf) = (x as f64, y as f64, z as f64);
    let (ax, ay, az) = (xf.abs(), yf.abs(), zf.abs());
    match form {
        "neg" => (Some(-(x as i128)), -xf, ax),
        "abs" => (Some((x as i128).abs()), xf.abs(), ax),
        f if f.len() == 3 => {
            let o = f.as_bytes()[1] as char;
            (ap(o, xi, yi), apf(o, xf, yf), mag(o, ax, ay))
        }
        f => {
            let (o1, o2) = (f.as_bytes()[1] as char, f.as_bytes()[3] as char);
            if o2 == '*' && o1 != '*' {
                (ap(o1, xi, ap(o2, yi, zi)), apf(o1, xf, apf(o2, yf, zf)), mag(o1, ax, mag(o2, ay, az)))
            } else {
                (ap(o2, ap(o1, xi, yi), zi), apf(o2, apf(o1, xf, yf), zf), mag(o2, mag(o1, ax, ay), az))
            }
        }
    }
}

/// Verdict on one observed numeric result against the exact value `num/den` (`num` = None: the
/// numerator does not fit in i128 and `approx` is the value).
fn judge(v: &SqlValue, num: Option<i128>, den: i128, approx: f64, mag: f64) -> Result<&'static str, String> {
    let exact_f = match num {
        Some(n) => n as f64 / den as f64,
        None => approx / den as f64,
    };
    let shown = match num {
        Some(n) if den == 1 => n.to_string(),
        Some(n) => format!("{}/{}", n, den),
        None => format!("{:e}", exact_f),
    };
    let tol = 1e-12 * mag.max(exact_f.abs()).max(1.0);
    let int = |i: i128, kind: &str| -> Result<&'static str, String> {
        if num.map(|n| i * den == n).unwrap_or(false) {
            Ok("exact")
        } else {
            Err(format!("{} result {} but the exact value is {}", kind, i, shown))
        }
    };
    match v {
        SqlValue::Null => Ok("null"),
        SqlValue::Integer(i) | SqlValue::Bigint(i) => int(*i as i128, "integer"),
        SqlValue::Smallint(i) => int(*i as i128, "smallint"),
        SqlValue::Unsigned(u) => int(*u as i128, "unsigned"),
        SqlValue::Numeric(f) | SqlValue::Double(f) => {
            if (f - exact_f).abs() <= tol {
                Ok("float")
            } else {
                Err(format!("float result {:e} but the exact value is {} (tolerance {:e})", f, shown, tol))
            }
        }
        SqlValue::Float(f) | SqlValue::Real(f) => {
            // single precision: 2^-23 relative
            let tol32 = 1.2e-7 * mag.max(exact_f.abs()).max(1.0);
            if ((*f as f64) - exact_f).abs() <= tol32 {
                Ok("float32")
            } else {
                Err(format!("float32 result {:e} but the exact value is {}", f, shown))
            }
        }
        other => Err(format!("non-numeric result {:?} (exact value {})", other, shown)),
    }
}

thread_local! {
    /// databases holding just the (empty) operand table of C1 / C2, per integer type
    static TEMPLATE_DBS: std::cell::RefCell<BTreeMap<String, Database>> = std::cell::RefCell::new(BTreeMap::new());
}

/// A database holding only the empty table created by `ddl` (cached per thread, cloned per case).
fn db_with_table(ddl: &str) -> Option<Database> {
    TEMPLATE_DBS.with(|m| {
        let mut m = m.borrow_mut();
        if !m.contains_key(ddl) {
            let mut db = Database::new();
            if !run_sql(&mut db, ddl).is_ok() {
                return None;
            }
            m.insert(ddl.to_string(), db);
        }
        m.get(ddl).cloned()
    })
}

fn select_expr(db: &Database, expr: ast::Expression, from: Option<&str>) -> Out {
    let text = match from {
        Some(f) => format!("SELECT 1 {}", f),
        None => "SELECT 1".to_string(),
    };
    let Ok(ast::Statement::Select(mut s)) = exec::parse(&text) else {
        return Out::Err(exec::ErrClass::Parse, "harness select template".into());
    };
    s.select_list = vec![ast::SelectItem::Expression { expr, alias: None }];
    exec::select_stmt(db, &s)
}

fn col(name: &str) -> ast::Expression {
    ast::Expression::ColumnRef { table: None, column: name.to_string() }
}

/// One arithmetic case. path: "literal" | "column" | "where"
fn arith_case(ty: IntTy, path: &str, form: &str, x: i64, y: i64, z: i64) -> (Out, Option<(&'static str, String)>) {
    let (exact, approx, mag) = form_exact(form, x, y, z);
    let o = match path {
        "literal" => {
            let Some(db) = db_with_table("CREATE TABLE dual (d INT)") else {
                return (Out::Done, Some(("setup", "cannot create a database".into())));
            };
            let e = form_expr(form, ast::Expression::Literal(ty.lit(x)), ast::Expression::Literal(ty.lit(y)), ast::Expression::Literal(ty.lit(z)));
            select_expr(&db, e, None)
        }
        _ => {
            let Some(mut db) = db_with_table(&format!("CREATE TABLE r (id INT PRIMARY KEY, x {t}, y {t}, z {t})", t = ty.name())) else {
                return (Out::Done, Some(("setup", "cannot create the operand table".into())));
            };
            let ins = insert_row(&mut db, "R", &[SqlValue::Integer(1), ty.lit(x), ty.lit(y), ty.lit(z)]);
            if !ins.is_ok() {
                return (Out::Err(exec::ErrClass::Other, format!("setup: {}", ins.brief())), Some(("setup", format!("cannot store the operands: {}", ins.brief()))));
            }
            let e = form_expr(form, col("X"), col("Y"), col("Z"));
            if path == "column" {
                select_expr(&db, e, Some("FROM r WHERE id = 1"))
            } else {
                // full scan with the expression also used in a predicate
                let pred = ast::Expression::IsNull { expr: Box::new(e.clone()), negated: true };
                let Ok(ast::Statement::Select(mut s)) = exec::parse("SELECT 1 FROM r") else { unreachable!() };
                s.select_list = vec![ast::SelectItem::Expression { expr: e, alias: None }];
                s.where_clause = Some(pred);
                exec::select_stmt(&db, &s)
            }
        }
    };
    let verdict = match &o {
        Out::Panic(m) => Some(("panic", format!("panicked: {}", vcore::util::trunc(m, 200)))),
        Out::Rows(rows) => {
            if rows.is_empty() && path == "where" {
                None // the predicate was NULL / false: nothing returned
            } else if rows.len() != 1 || rows[0].len() != 1 {
                Some(("shape", format!("expected one row with one column, got {}", o.brief())))
            } else if (form == "x/y" || form == "x%y") && y == 0 {
                match &rows[0][0] {
                    SqlValue::Null => None,
                    other => Some(("wrong-value", format!("division by zero returned {:?} instead of NULL or an error", other))),
                }
            } else {
                match judge(&rows[0][0], exact, 1, approx, mag) {
                    Ok(_) => None,
                    Err(w) => Some(("wrong-value", w)),
                }
            }
        }
        _ => None,
    };
    (o, verdict)
}

/// One aggregate case: SUM and AVG over `vals` (as rows of one column) through `path`.
fn agg_case(ty: IntTy, path: &str, vals: &[i64]) -> (Vec<String>, Option<(&'static str, String)>) {
    let Some(mut db) = db_with_table(&format!("CREATE TABLE m (g INT, v {})", ty.name())) else {
        return (vec![], Some(("setup", "cannot create the operand table".into())));
    };
    let mut ok = true;
    for v in vals {
        ok &= insert_row(&mut db, "M", &[SqlValue::Integer(7), ty.lit(*v)]).is_ok();
    }
    if !ok {
        return (vec![], Some(("setup", "cannot store the operands".into())));
    }
    let q = match path {
        "group-by" => "SELECT SUM(v), AVG(v) FROM m GROUP BY g",
        "expression" => "SELECT SUM(v + 0), AVG(v * 1) FROM m",
        _ => "SELECT SUM(v), AVG(v) FROM m",
    };
    if path == "row" {
        vibesql_types::verif::set_columnar_off(true);
    }
    let o = exec::select(&db, q);
    vibesql_types::verif::set_columnar_off(false);
    let sum: i128 = vals.iter().map(|v| *v as i128).sum();
    let mag: f64 = vals.iter().map(|v| (*v as i128).unsigned_abs() as f64).sum();
    let n = vals.len() as i128;
    let mut seen = vec![o.class().to_string()];
    let verdict = match &o {
        Out::Panic(m) => Some(("panic", format!("panicked: {}", vcore::util::trunc(m, 200)))),
        Out::Rows(rows) => {
            if rows.len() != 1 || rows[0].len() != 2 {
                Some(("shape", format!("expected one row with two columns, got {}", o.brief())))
            } else {
                let s = judge(&rows[0][0], Some(sum), 1, 0.0, mag);
                let a = judge(&rows[0][1], Some(sum), n, 0.0, mag / n as f64);
                seen.push(format!("sum:{}", s.clone().unwrap_or("wrong")));
                seen.push(format!("avg:{}", a.clone().unwrap_or("wrong")));
                match (s, a) {
                    (Err(w), _) => Some(("wrong-sum", format!("SUM: {}", w))),
                    (_, Err(w)) => Some(("wrong-avg", format!("AVG: {}", w))),
                    _ => None,
                }
            }
        }
        _ => None,
    };
    (seen, verdict)
}

fn multisets_upto(n: usize, k: usize) -> Vec<Vec<usize>> {
    let mut out = vec![];
    for len in 1..=k {
        out.extend(vcore::util::multisets(n, len));
    }
    out
}

// ------------------------------------------------------------------------------------------------
// the space

#[derive(Clone, Debug)]
enum Case {
    /// prelude index, statement indexes
    A(usize, Vec<usize>),
    /// template, (slot, hostile) substitutions
    B(usize, Vec<(usize, usize)>),
    /// type, path, form, operand indexes
    C1(usize, usize, usize, [usize; 3]),
    /// type, path, multiset index
    C2(usize, usize, usize),
    /// deep / long statement: family index, size index
    D(usize, usize),
}

/// Deep and long statements that the parser accepts (nesting <= 100, chains <= 10000): execution
/// must survive them on the stated stack. (family, sizes)
const DEEP: &[(&str, &[usize])] = &[
    ("add-chain", &[100, 499, 501, 999, 2000, 9999]),
    ("mul-chain", &[100, 499, 501, 999, 2000, 9999]),
    ("concat-chain", &[100, 501, 999, 2000, 9999]),
    ("and-chain", &[100, 501, 999, 2000, 9999]),
    ("or-chain", &[100, 501, 999, 2000, 9999]),
    ("and-chain-having", &[100, 999, 2000, 9999]),
    ("or-chain-join-on", &[100, 999, 2000, 9999]),
    ("update-set-chain", &[100, 999, 2000, 9999]),
    ("insert-value-chain", &[100, 999, 2000, 9999]),
    ("check-chain", &[100, 999, 2000, 9999]),
    ("view-chain", &[100, 999, 2000, 9999]),
    ("comma-join", &[5, 10, 20]),
    ("join-chain", &[5, 10, 20]),
    ("parens", &[10, 50, 98]),
    ("not-chain", &[10, 50, 98]),
    ("neg-chain", &[10, 50, 98]),
    ("case-nest", &[10, 50, 98]),
    ("func-nest", &[10, 50, 98]),
    ("cast-nest", &[10, 50, 98]),
    ("subquery-nest", &[5, 20, 48]),
    // (nested EXISTS / derived tables re-evaluate the inner query per outer row: the cost is
    // exponential in the depth, so the depths stay small — bounded time is not part of C24)
    ("exists-nest", &[3]),
    ("in-subquery-nest", &[5, 20, 48]),
    ("derived-nest", &[3, 6, 10]),
    ("cte-nest", &[5, 20, 48]),
    ("union-chain", &[10, 50, 98]),
    ("in-list", &[1000, 100_000]),
    ("values-rows", &[1000, 10_000]),
    ("select-list", &[1000, 20_000]),
    ("order-by-list", &[100, 5000]),
    ("group-by-list", &[100, 5000]),
    ("case-whens", &[1000, 20_000]),
    ("coalesce-args", &[1000, 50_000]),
    ("create-columns", &[1000, 10_000]),
    ("like-percent", &[3]),
];

fn deep_sql(fam: &str, n: usize) -> Vec<String> {
    let rep = |x: &str, k: usize| x.repeat(k);
    let list = |item: &str, k: usize, sep: &str| vec![item; k].join(sep);
    match fam {
        "add-chain" => vec![format!("SELECT 1{} FROM w", rep(" + 1", n)), format!("SELECT a{} FROM w", rep(" + a", n))],
        "mul-chain" => vec![format!("SELECT 1{} FROM w", rep(" * 1", n))],
        "concat-chain" => vec![format!("SELECT 'a'{} FROM w", rep(" || 'a'", n))],
        "and-chain" => vec![format!("SELECT a FROM t WHERE a = 1{}", rep(" AND a = 1", n)), format!("DELETE FROM t WHERE a = 9{}", rep(" AND a = 9", n))],
        "or-chain" => vec![format!("SELECT a FROM t WHERE a = 1{}", rep(" OR a = 2", n)), format!("UPDATE t SET b = 'z' WHERE a = 9{}", rep(" OR a = 8", n))],
        "and-chain-having" => vec![format!("SELECT b, COUNT(*) FROM t GROUP BY b HAVING COUNT(*) > 0{}", rep(" AND COUNT(*) > 0", n))],
        "or-chain-join-on" => vec![format!("SELECT COUNT(*) FROM t JOIN u ON t.a = u.a{}", rep(" OR t.a = u.c", n))],
        "update-set-chain" => vec![format!("UPDATE w SET a = a{}", rep(" + 0", n))],
        "insert-value-chain" => vec![format!("INSERT INTO w VALUES (1{})", rep(" + 1", n))],
        "check-chain" => vec![format!("CREATE TABLE zc (a INT CHECK (a > 0{}))", rep(" AND a > 0", n)), "INSERT INTO zc VALUES (1)".to_string()],
        "view-chain" => vec![format!("CREATE VIEW zv AS SELECT a{} AS s FROM w", rep(" + 1", n)), "SELECT * FROM zv".to_string()],
        "comma-join" => vec![format!("SELECT COUNT(*) FROM w{}", (0..n).map(|i| format!(", x AS x{}", i)).collect::<String>())],
        "join-chain" => vec![format!("SELECT COUNT(*) FROM w{}", (0..n).map(|i| format!(" JOIN w AS w{i} ON w{i}.a = w.a", i = i)).collect::<String>())],
        "parens" => vec![format!("SELECT {}a{} FROM w", rep("(", n), rep(")", n))],
        "not-chain" => vec![format!("SELECT a FROM w WHERE {}a = 1", rep("NOT ", n))],
        "neg-chain" => vec![format!("SELECT {}a FROM w", rep("- ", n))],
        "case-nest" => vec![format!("SELECT {}a{} FROM w", rep("CASE WHEN a > 0 THEN ", n), rep(" ELSE 0 END", n))],
        "func-nest" => vec![format!("SELECT {}a{} FROM w", rep("ABS(", n), rep(")", n)), format!("SELECT {}'x'{} FROM w", rep("UPPER(", n), rep(")", n))],
        "cast-nest" => vec![format!("SELECT {}a{} FROM w", rep("CAST(", n), rep(" AS INTEGER)", n))],
        "subquery-nest" => vec![format!("SELECT {}1{}", rep("(SELECT ", n), rep(")", n)), format!("SELECT {}MAX(a) FROM w{} FROM w", rep("(SELECT ", n), rep(")", n))],
        "exists-nest" => vec![format!("SELECT a FROM w WHERE {}1{}", rep("EXISTS (SELECT 1 FROM w WHERE ", n), rep(" = 1)", n))],
        "in-subquery-nest" => vec![format!("SELECT a FROM w WHERE {}SELECT a FROM w{}", rep("a IN (SELECT a FROM w WHERE ", n.saturating_sub(1)) + "a IN (", rep(")", n))],
        "derived-nest" => vec![format!("SELECT * FROM {}w{}", rep("(SELECT * FROM ", n), rep(") AS d", n))],
        "cte-nest" => vec![format!("{}SELECT a FROM w{}", rep("WITH q AS (", n), rep(") SELECT a FROM q", n))],
        "union-chain" => vec![format!("SELECT a FROM w{}", rep(" UNION ALL SELECT a FROM w", n)), format!("SELECT a FROM w{}", rep(" UNION SELECT a FROM x", n))],
        "in-list" => vec![format!("SELECT a FROM t WHERE a IN ({})", list("1", n, ", ")), format!("SELECT a FROM t WHERE a NOT IN ({})", (0..n).map(|i| i.to_string()).collect::<Vec<_>>().join(", "))],
        "values-rows" => vec![format!("INSERT INTO x VALUES {}", list("(1)", n, ", ")), "SELECT COUNT(*), SUM(a) FROM x".to_string()],
        "select-list" => vec![format!("SELECT {} FROM w", list("a", n, ", "))],
        "order-by-list" => vec![format!("SELECT a FROM w ORDER BY {}", list("a", n, ", "))],
        "group-by-list" => vec![format!("SELECT COUNT(*) FROM w GROUP BY {}", list("a", n, ", "))],
        "case-whens" => vec![format!("SELECT CASE {} ELSE 0 END FROM w", list("WHEN a = 99 THEN 1", n, " "))],
        "coalesce-args" => vec![format!("SELECT COALESCE({}, a) FROM w", list("NULL", n, ", "))],
        "create-columns" => vec![format!("CREATE TABLE zw ({})", (0..n).map(|i| format!("c{} INT", i)).collect::<Vec<_>>().join(", ")), "INSERT INTO zw (c0) VALUES (1)".to_string(), "SELECT c0 FROM zw".to_string()],
        "like-percent" => vec![format!("SELECT b FROM t WHERE b LIKE '{}x' OR 'aaaaaaaaaaaaaaaaaaaaaaaaaaaaaaaaaaaaaaaa' LIKE '{}b'", rep("%", n), rep("%a", n.min(40)))],
        _ => vec![],
    }
}


/// preludes on which statement *pairs* are run (A2)
const A2_PRELUDES: &[&str] = &["basic", "indexed", "alltypes", "in-transaction", "objects"];
const C1_PATHS: &[&str] = &["literal", "column", "where"];
const C2_PATHS: &[&str] = &["columnar", "row", "group-by", "expression"];

pub struct C24 {
    thorough: bool,
    stmts: Vec<(&'static str, &'static str)>,
    preludes: Vec<Prelude>,
    hostile: Vec<(&'static str, String)>,
    /// section name, number of cases
    sections: Vec<(&'static str, u64)>,
    starts: Vec<u64>,
    msets: Vec<Vec<Vec<usize>>>,
    /// slot pairs per template (B2)
    b2_pairs: Vec<Vec<(usize, usize)>>,
    /// prefix sums for B1 / B2 per template
    b1_starts: Vec<u64>,
    b2_starts: Vec<u64>,
    /// C1: per type, per form: number of operand tuples; flattened prefix
    c1_index: Vec<(usize, usize, usize, u64)>,
    c1_starts: Vec<u64>,
}

fn n_slots(t: usize) -> usize {
    xcorpus::TEMPLATES[t].2.len()
}

impl C24 {
    pub fn new(tier: &str) -> C24 {
        let thorough = tier == "thorough";
        let mut stmts: Vec<(&'static str, &'static str)> = corpus::SEEDS.to_vec();
        stmts.extend_from_slice(xcorpus::EXEC);
        let preludes = xcorpus::preludes();
        let hostile = xcorpus::hostile(thorough);
        let h = hostile.len() as u64;
        let ns = stmts.len() as u64;
        let np = preludes.len() as u64;

        let mut b1_starts = vec![0u64];
        let mut b2_starts = vec![0u64];
        let mut b2_pairs = vec![];
        for t in 0..xcorpus::TEMPLATES.len() {
            let k = n_slots(t);
            b1_starts.push(b1_starts[t] + 1 + k as u64 * h);
            let mut pairs = vec![];
            for a in 0..k {
                for b in a + 1..k {
                    pairs.push((a, b));
                }
            }
            b2_starts.push(b2_starts[t] + pairs.len() as u64 * h * h);
            b2_pairs.push(pairs);
        }

        // C1: quick = all forms for INTEGER, unary+binary forms for the other types; thorough = everything
        let mut c1_index = vec![];
        let mut c1_starts = vec![0u64];
        for (ti, ty) in TYPES.iter().enumerate() {
            let nv = ty.values().len() as u64;
            for (pi, _) in C1_PATHS.iter().enumerate() {
                for (fi, (_, arity)) in FORMS.iter().enumerate() {
                    if !thorough && *arity == 3 && !(ti == 0 && pi <= 1) {
                        continue;
                    }
                    let n = (0..*arity).fold(1u64, |a, _| a * nv);
                    c1_index.push((ti, pi, fi, n));
                    c1_starts.push(c1_starts.last().unwrap() + n);
                }
            }
        }
        let msets: Vec<Vec<Vec<usize>>> = TYPES.iter().map(|ty| multisets_upto(ty.values().len(), 3)).collect();
        let c2: u64 = msets.iter().map(|m| m.len() as u64 * C2_PATHS.len() as u64).sum();

        let d1: u64 = DEEP.iter().map(|(_, sizes)| sizes.len() as u64).sum();
        let mut sections: Vec<(&'static str, u64)> =
            vec![("A1", np * ns), ("D1", d1), ("B1", *b1_starts.last().unwrap()), ("C1", *c1_starts.last().unwrap()), ("C2", c2)];
        if thorough {
            sections.push(("A2", A2_PRELUDES.len() as u64 * ns * ns));
            sections.push(("B2", *b2_starts.last().unwrap()));
        }
        let mut starts = vec![0u64];
        for (_, n) in &sections {
            starts.push(starts.last().unwrap() + n);
        }
        C24 { thorough, stmts, preludes, hostile, sections, starts, msets, b2_pairs, b1_starts, b2_starts, c1_index, c1_starts }
    }

    pub fn section_sizes(&self) -> Vec<(&'static str, u64)> {
        self.sections.clone()
    }

    fn case(&self, idx: u64) -> Case {
        let si = match self.starts.binary_search(&idx) {
            Ok(mut g) => {
                while g + 1 < self.starts.len() && self.starts[g + 1] == idx {
                    g += 1;
                }
                g
            }
            Err(g) => g - 1,
        };
        let k = idx - self.starts[si];
        let ns = self.stmts.len() as u64;
        let h = self.hostile.len() as u64;
        match self.sections[si].0 {
            "A1" => Case::A((k / ns) as usize, vec![(k % ns) as usize]),
            "A2" => {
                let name = A2_PRELUDES[(k / (ns * ns)) as usize];
                let p = self.preludes.iter().position(|p| p.name == name).expect("A2 prelude");
                Case::A(p, vec![((k / ns) % ns) as usize, (k % ns) as usize])
            }
            "D1" => {
                let mut r = k as usize;
                for (fi, (_, sizes)) in DEEP.iter().enumerate() {
                    if r < sizes.len() {
                        return Case::D(fi, r);
                    }
                    r -= sizes.len();
                }
                unreachable!()
            }
            "B1" => {
                let t = self.b1_starts.partition_point(|s| *s <= k) - 1;
                let r = k - self.b1_starts[t];
                if r == 0 {
                    Case::B(t, vec![])
                } else {
                    let r = r - 1;
                    Case::B(t, vec![((r / h) as usize, (r % h) as usize)])
                }
            }
            "B2" => {
                let t = self.b2_starts.partition_point(|s| *s <= k) - 1;
                let r = k - self.b2_starts[t];
                let (a, b) = self.b2_pairs[t][(r / (h * h)) as usize];
                let r = r % (h * h);
                Case::B(t, vec![(a, (r / h) as usize), (b, (r % h) as usize)])
            }
            "C1" => {
                let e = self.c1_starts.partition_point(|s| *s <= k) - 1;
                let (ti, pi, fi, _) = self.c1_index[e];
                let nv = TYPES[ti].values().len() as u64;
                let mut r = k - self.c1_starts[e];
                let mut ops = [0usize; 3];
                for d in (0..FORMS[fi].1).rev() {
                    ops[d] = (r % nv) as usize;
                    r /= nv;
                }
                Case::C1(ti, pi, fi, ops)
            }
            _ => {
                let mut r = k;
                for (ti, m) in self.msets.iter().enumerate() {
                    let n = m.len() as u64 * C2_PATHS.len() as u64;
                    if r < n {
                        return Case::C2(ti, (r / m.len() as u64) as usize, (r % m.len() as u64) as usize);
                    }
                    r -= n;
                }
                unreachable!()
            }
        }
    }

    fn fill(&self, t: usize, subs: &[(usize, usize)]) -> String {
        let (_, text, defaults) = xcorpus::TEMPLATES[t];
        let mut out = text.to_string();
        // highest slot first so that $1 does not clobber $10
        for s in (0..defaults.len()).rev() {
            let lit = subs.iter().find(|(slot, _)| *slot == s).map(|(_, h)| self.hostile[*h].1.as_str()).unwrap_or(defaults[s]);
            out = out.replace(&format!("${}", s + 1), lit);
        }
        out
    }

    fn describe_case(&self, c: &Case) -> (Vec<(String, String)>, Value) {
        let kv = |k: &str, v: &str| (k.to_string(), v.to_string());
        match c {
            Case::A(p, ss) => {
                let mut sig = vec![kv("family", if ss.len() == 1 { "prelude-x-statement" } else { "prelude-x-statement-pair" }), kv("prelude", self.preludes[*p].name), kv("statement", self.stmts[ss[0]].0)];
                if ss.len() > 1 {
                    sig.push(kv("statement2", self.stmts[ss[1]].0));
                }
                (sig, json!({"section": "A", "prelude": self.preludes[*p].name, "statements": ss.iter().map(|i| self.stmts[*i].1).collect::<Vec<_>>()}))
            }
            Case::B(t, subs) => {
                let mut sig = vec![kv("family", "hostile-literal"), kv("template", xcorpus::TEMPLATES[*t].0)];
                sig.push(kv("slot", &subs.iter().map(|(s, _)| (s + 1).to_string()).collect::<Vec<_>>().join("+")));
                sig.push(kv("value", &subs.iter().map(|(_, h)| self.hostile[*h].0).collect::<Vec<_>>().join("+")));
                let sql = self.fill(*t, subs);
                let shown = if sql.len() > 4000 { json!({"template": xcorpus::TEMPLATES[*t].0, "subs": subs.iter().map(|(s, h)| json!([s, self.hostile[*h].0])).collect::<Vec<_>>()}) } else { json!(sql) };
                (sig, json!({"section": "B", "sql": shown, "thorough": self.thorough}))
            }
            Case::C1(ti, pi, fi, ops) => {
                let vals = TYPES[*ti].values();
                let xs: Vec<i64> = (0..FORMS[*fi].1).map(|d| vals[ops[d]]).collect();
                (
                    vec![kv("family", "exact-arithmetic"), kv("type", TYPES[*ti].name()), kv("path", C1_PATHS[*pi]), kv("form", FORMS[*fi].0)],
                    json!({"section": "C1", "type": TYPES[*ti].name(), "path": C1_PATHS[*pi], "form": FORMS[*fi].0, "operands": xs.iter().map(|v| v.to_string()).collect::<Vec<_>>()}),
                )
            }
            Case::D(fi, si) => (
                vec![kv("family", "deep-statement"), kv("shape", DEEP[*fi].0), kv("size", &DEEP[*fi].1[*si].to_string())],
                json!({"section": "D", "shape": DEEP[*fi].0, "size": DEEP[*fi].1[*si]}),
            ),
            Case::C2(ti, pi, mi) => {
                let vals = TYPES[*ti].values();
                let xs: Vec<i64> = self.msets[*ti][*mi].iter().map(|i| vals[*i]).collect();
                (
                    vec![kv("family", "exact-aggregate"), kv("type", TYPES[*ti].name()), kv("path", C2_PATHS[*pi])],
                    json!({"section": "C2", "type": TYPES[*ti].name(), "path": C2_PATHS[*pi], "values": xs.iter().map(|v| v.to_string()).collect::<Vec<_>>()}),
                )
            }
        }
    }

    fn run_inner(&self, from: u64, to: u64, p: &Progress) -> ChunkOut {
        let mut out = ChunkOut::default();
        let mut problems = vec![];
        let bases: Vec<Base> = self.preludes.iter().map(|pr| base_of(build_prelude(pr, &mut problems))).collect();
        let hostile_base = base_of(build_prelude(&xcorpus::hostile_prelude(), &mut problems));
        for pr in problems {
            if let Some(rest) = pr.strip_prefix("PANIC ") {
                let name = rest.split(':').next().unwrap_or("prelude").trim_start_matches("prelude ").to_string();
                out.count("fate.panic", 1);
                out.viol(from, vec![("family".into(), "prelude".into()), ("prelude".into(), name), ("fate".into(), "panic".into())], format!("building the schema prelude panicked: {}", rest), json!({"section": "prelude", "what": rest}));
            } else {
                out.machinery.push(pr);
            }
        }
        for idx in from..to {
            let c = self.case(idx);
            p.begin(idx);
            let (fam, outcome_key, verdict): (&str, String, Option<(&'static str, String)>) = match &c {
                Case::A(pi, ss) => {
                    let qs: Vec<&str> = ss.iter().map(|i| self.stmts[*i].1).collect();
                    let mut outs = vec![];
                    let v = run_statements(&bases[*pi], &qs, &mut outs);
                    let key = outs.iter().map(|o| o.class()).collect::<Vec<_>>().join(",");
                    for (i, o) in outs.iter().enumerate() {
                        out.count(&format!("A.statement.{}", o.class()), 1);
                        if o.is_ok() {
                            out.distinct.insert(format!("A:ok:{}", self.stmts[ss[i]].0));
                        } else if let Out::Err(cl, _) = o {
                            out.distinct.insert(format!("A:err:{:?}:{}", cl, self.preludes[*pi].name));
                        }
                    }
                    (if ss.len() == 1 { "A1" } else { "A2" }, key, v)
                }
                Case::D(fi, si) => {
                    let (fam, sizes) = DEEP[*fi];
                    let stmts = deep_sql(fam, sizes[*si]);
                    let qs: Vec<&str> = stmts.iter().map(|s| s.as_str()).collect();
                    let basic = self.preludes.iter().position(|p| p.name == "basic").expect("basic prelude");
                    let mut outs = vec![];
                    let v = run_statements(&bases[basic], &qs, &mut outs);
                    let key = outs.iter().map(|o| o.class()).collect::<Vec<_>>().join(",");
                    out.count(&format!("D.statement.{}", outs.first().map(|o| o.class()).unwrap_or("none")), 1);
                    out.distinct.insert(format!("D:{}:{}", fam, key));
                    ("D1", key, v)
                }
                Case::B(t, subs) => {
                    let sql = self.fill(*t, subs);
                    let mut outs = vec![];
                    let v = run_statements(&hostile_base, &[&sql], &mut outs);
                    let o = &outs[0];
                    out.count(&format!("B.statement.{}", o.class()), 1);
                    out.distinct.insert(format!("B:{}:{}", xcorpus::TEMPLATES[*t].0, o.class()));
                    (if subs.len() <= 1 { "B1" } else { "B2" }, o.class().to_string(), v)
                }
                Case::C1(ti, pi, fi, ops) => {
                    let vals = TYPES[*ti].values();
                    let (o, v) = arith_case(TYPES[*ti], C1_PATHS[*pi], FORMS[*fi].0, vals[ops[0]], vals[ops[1]], vals[ops[2]]);
                    let kind = match &o {
                        Out::Rows(r) if r.len() == 1 && r[0].len() == 1 => match &r[0][0] {
                            SqlValue::Null => "null",
                            SqlValue::Integer(_) | SqlValue::Bigint(_) | SqlValue::Smallint(_) | SqlValue::Unsigned(_) => "integer",
                            _ => "float",
                        },
                        Out::Rows(_) => "norow",
                        Out::Err(..) => "error",
                        _ => "other",
                    };
                    out.count(&format!("C1.result.{}", kind), 1);
                    out.distinct.insert(format!("C1:{}:{}:{}", TYPES[*ti].name(), FORMS[*fi].0, kind));
                    ("C1", kind.to_string(), v)
                }
                Case::C2(ti, pi, mi) => {
                    let vals = TYPES[*ti].values();
                    let xs: Vec<i64> = self.msets[*ti][*mi].iter().map(|i| vals[*i]).collect();
                    let before = vibesql_types::verif::snapshot().iter().find(|(k, _)| *k == "columnar_taken").map(|(_, v)| *v).unwrap_or(0);
                    let (seen, v) = agg_case(TYPES[*ti], C2_PATHS[*pi], &xs);
                    let after = vibesql_types::verif::snapshot().iter().find(|(k, _)| *k == "columnar_taken").map(|(_, v)| *v).unwrap_or(0);
                    out.count(&format!("C2.columnar_taken.{}", C2_PATHS[*pi]), after - before);
                    for s in &seen {
                        out.count(&format!("C2.{}", s), 1);
                        out.distinct.insert(format!("C2:{}:{}", C2_PATHS[*pi], s));
                    }
                    ("C2", seen.join(","), v)
                }
            };
            out.evaluated += 1;
            out.count(&format!("cases.{}", fam), 1);
            if out.samples.len() < 64 {
                let (_, cj) = self.describe_case(&c);
                out.samples.push(json!({"key": format!("{}:{}", fam, outcome_key), "case": cj, "observed": outcome_key}));
            }
            if let Some((fate, what)) = verdict {
                if fate == "setup" {
                    out.machinery.push(format!("case {}: {}", idx, what));
                    continue;
                }
                // re-execute twice from scratch
                let again: Vec<bool> = (0..2).map(|_| self.verdict_of(&c, &bases, &hostile_base).map(|(f, _)| f == fate).unwrap_or(false)).collect();
                if again.iter().all(|x| *x) {
                    let (mut sig, cj) = self.describe_case(&c);
                    sig.push(("fate".into(), fate.into()));
                    out.count(&format!("fate.{}", fate), 1);
                    out.viol(idx, sig, what, cj);
                } else {
                    // the engine's hash maps are randomly seeded: a verdict that does not recur is
                    // recorded, not reported
                    out.count("verdict_not_reproduced", 1);
                }
            }
        }
        p.begin(u64::MAX);
        out
    }

    fn verdict_of(&self, c: &Case, bases: &[Base], hostile_base: &Base) -> Option<(&'static str, String)> {
        match c {
            Case::A(pi, ss) => {
                let qs: Vec<&str> = ss.iter().map(|i| self.stmts[*i].1).collect();
                run_statements(&bases[*pi], &qs, &mut vec![])
            }
            Case::D(fi, si) => {
                let (fam, sizes) = DEEP[*fi];
                let stmts = deep_sql(fam, sizes[*si]);
                let qs: Vec<&str> = stmts.iter().map(|s| s.as_str()).collect();
                let basic = self.preludes.iter().position(|p| p.name == "basic").expect("basic prelude");
                run_statements(&bases[basic], &qs, &mut vec![])
            }
            Case::B(t, subs) => {
                let sql = self.fill(*t, subs);
                run_statements(hostile_base, &[&sql], &mut vec![])
            }
            Case::C1(ti, pi, fi, ops) => {
                let vals = TYPES[*ti].values();
                arith_case(TYPES[*ti], C1_PATHS[*pi], FORMS[*fi].0, vals[ops[0]], vals[ops[1]], vals[ops[2]]).1
            }
            Case::C2(ti, pi, mi) => {
                let vals = TYPES[*ti].values();
                let xs: Vec<i64> = self.msets[*ti][*mi].iter().map(|i| vals[*i]).collect();
                agg_case(TYPES[*ti], C2_PATHS[*pi], &xs).1
            }
        }
    }
}

impl Space for C24 {
    fn total(&self) -> u64 {
        *self.starts.last().unwrap()
    }
    fn chunk(&self) -> u64 {
        if self.thorough {
            40_000
        } else {
            2_500
        }
    }
    fn case_deadline(&self) -> Duration {
        Duration::from_secs(600)
    }
    fn cpu_limit(&self) -> Duration {
        Duration::from_secs(60)
    }
    fn address_space(&self) -> u64 {
        4 << 30
    }
    fn run(&self, from: u64, to: u64, p: &Progress) -> ChunkOut {
        std::thread::scope(|s| {
            let h = std::thread::Builder::new().stack_size(STACK).spawn_scoped(s, || self.run_inner(from, to, p)).expect("spawn executor thread");
            match h.join() {
                Ok(o) => o,
                Err(pl) => {
                    let mut o = ChunkOut::default();
                    o.machinery.push(format!("harness thread panicked: {}", exec::panic_msg(pl)));
                    o
                }
            }
        })
    }
    fn describe(&self, idx: u64) -> (Vec<(String, String)>, Value) {
        self.describe_case(&self.case(idx))
    }
}

pub fn space(tier: &str) -> C24 {
    C24::new(tier)
}

pub fn run(tier: &str) -> i32 {
    let mut rep = Report::new("C24", tier, "exploration");
    let sp = C24::new(tier);
    let budget = Duration::from_secs(if sp.thorough { 600 } else { 120 });
    let all = iso::drive(&sp, &mut rep, budget);
    let pick = |p: &str| -> BTreeMap<String, u64> { all.counters.iter().filter(|(k, _)| k.starts_with(p)).map(|(k, v)| (k.clone(), *v)).collect() };
    println!("C24 {}: {} cases; per section {:?}", tier, all.evaluated, pick("cases."));
    println!("C24 statements: A {:?} B {:?} D {:?}", pick("A.statement."), pick("B.statement."), pick("D.statement."));
    println!("C24 exact arithmetic results: {:?}; aggregates: {:?}", pick("C1.result."), pick("C2."));
    println!("C24 fates: {:?}; verdicts not reproduced: {}", pick("fate."), all.counters.get("verdict_not_reproduced").copied().unwrap_or(0));
    let vac: Vec<String> = ["C2.columnar_taken.columnar"].iter().filter(|k| all.counters.get(**k).copied().unwrap_or(0) == 0).map(|k| k.to_string()).collect();
    if !vac.is_empty() {
        eprintln!("WARNING C24: mechanisms expected but not reached: {:?}", vac);
    }
    rep.set("vacuous_mechanisms", json!(vac));
    rep.set(
        "bounds",
        json!({
            "statements": sp.stmts.len(),
            "preludes": sp.preludes.iter().map(|p| p.name).collect::<Vec<_>>(),
            "statement_pairs_on_preludes": if sp.thorough { json!(A2_PRELUDES) } else { json!([]) },
            "templates": xcorpus::TEMPLATES.len(),
            "literal_slots": xcorpus::TEMPLATES.iter().map(|t| t.2.len()).sum::<usize>(),
            "hostile_values": sp.hostile.iter().map(|h| h.0).collect::<Vec<_>>(),
            "hostile_slots_at_a_time": if sp.thorough { 2 } else { 1 },
            "integer_types": TYPES.iter().map(|t| t.name()).collect::<Vec<_>>(),
            "boundary_values": TYPES.iter().map(|t| json!({t.name(): t.values().iter().map(|v| v.to_string()).collect::<Vec<_>>()})).collect::<Vec<_>>(),
            "arithmetic_forms": FORMS.iter().map(|f| f.0).collect::<Vec<_>>(),
            "arithmetic_paths": C1_PATHS,
            "aggregate_paths": C2_PATHS,
            "aggregate_multiset_max": 3,
            "sections": sp.sections.iter().map(|(n, c)| json!({*n: c})).collect::<Vec<_>>(),
            "deep_statement_families": DEEP.iter().map(|(f, sizes)| json!({*f: sizes})).collect::<Vec<_>>(),
            "executor_stack_bytes": STACK,
        }),
    );
    rep.set("reach", json!({"columnar_path_taken": pick("C2.columnar_taken."), "statement_outcomes": {"A": pick("A.statement."), "B": pick("B.statement.")}, "arithmetic_result_kinds": pick("C1.result."), "aggregate_result_kinds": pick("C2.")}));
    rep.set(
        "rule",
        json!("A: every corpus statement (pairs in thorough) on a clone of every schema prelude; B: every template with one (thorough: two) literal slot(s) replaced by every hostile value; C1: every arithmetic form over every operand tuple of the boundary values per integer type through literal, column and predicate evaluation; C2: SUM/AVG over every multiset of <=3 boundary values through the columnar, row, GROUP BY and expression-aggregate paths. Each case runs in a worker subprocess under catch_unwind. Oracle: no panic, no dead worker, no blown deadline; afterwards every sanity query (SELECT * of every prelude table) runs without panic, returns what it returned before if the statement was a plain SELECT or a parse error, and a probe table can be created, written and read; C1/C2: the result is value-equal to the i128-exact value, or a float within 1e-12 x max(|exact|, sum of operand magnitudes), or NULL, or an error. distinct_nontrivial = distinct (section, statement/template/form, outcome class) observed"),
    );
    rep.assume("release profile of the harness workspace (overflow-checks off): a wrapped result is observed as a wrong value, not as a panic");
    rep.assume("statements run on a thread with an 8 MiB stack; error messages and error kinds are not compared");
    rep.assume("a failed INSERT/UPDATE/DELETE/DDL that leaves partial effects is C11's concern: after such a statement only usability (no panic, probe works) is demanded, not an unchanged state");
    rep.finish()
}

pub fn replay(case: &Value) -> i32 {
    // re-executed in a child process (the case may abort the process)
    let tmp = format!("/tmp/total-replay-{}.json", std::process::id());
    if std::fs::write(&tmp, case.to_string()).is_err() {
        return 2;
    }
    let exe = std::env::current_exe().expect("exe");
    let st = std::process::Command::new(exe).args(["c24-one", &tmp]).status();
    let _ = std::fs::remove_file(&tmp);
    match st {
        Ok(s) if s.code() == Some(0) => {
            println!("observed: property holds on this case");
            0
        }
        Ok(s) if s.code() == Some(1) => {
            println!("observed: VIOLATION reproduced");
            1
        }
        Ok(s) if s.code() == Some(2) => 2,
        Ok(s) => {
            println!("observed: the process died ({}) — VIOLATION reproduced", s);
            1
        }
        Err(_) => 2,
    }
}

fn parse_ty(s: &str) -> Option<IntTy> {
    TYPES.iter().copied().find(|t| t.name() == s)
}

/// `totalcheck c24-one <file>`
pub fn one(path: &str) -> i32 {
    let Ok(text) = std::fs::read_to_string(path) else { return 2 };
    let Ok(case) = serde_json::from_str::<Value>(&text) else { return 2 };
    // (TOTAL_STACK: development aid for measuring how much stack a case needs)
    let stack = std::env::var("TOTAL_STACK").ok().and_then(|s| s.parse().ok()).unwrap_or(STACK);
    let h = std::thread::Builder::new().stack_size(stack).spawn(move || one_inner(&case)).expect("spawn");
    h.join().unwrap_or(2)
}

fn one_inner(case: &Value) -> i32 {
    let strs = |k: &str| -> Vec<String> { case[k].as_array().map(|a| a.iter().filter_map(|x| x.as_str().map(|s| s.to_string())).collect()).unwrap_or_default() };
    let verdict = match case["section"].as_str() {
        Some("A") => {
            let name = case["prelude"].as_str().unwrap_or("");
            let Some(pr) = xcorpus::preludes().into_iter().find(|p| p.name == name) else { return 2 };
            let base = base_of(build_prelude(&pr, &mut vec![]));
            let stmts = strs("statements");
            let qs: Vec<&str> = stmts.iter().map(|s| s.as_str()).collect();
            let mut outs = vec![];
            let v = run_statements(&base, &qs, &mut outs);
            for (q, o) in qs.iter().zip(&outs) {
                println!("  {} => {}", vcore::util::trunc(q, 200), o.brief());
            }
            v
        }
        Some("B") => {
            let sp = C24::new(if case["thorough"].as_bool().unwrap_or(false) { "thorough" } else { "quick" });
            let sql = match &case["sql"] {
                Value::String(s) => s.clone(),
                v => {
                    let Some(t) = xcorpus::TEMPLATES.iter().position(|t| Some(t.0) == v["template"].as_str()) else { return 2 };
                    let subs: Vec<(usize, usize)> = v["subs"]
                        .as_array()
                        .map(|a| a.iter().filter_map(|x| Some((x[0].as_u64()? as usize, sp.hostile.iter().position(|h| Some(h.0) == x[1].as_str())?))).collect())
                        .unwrap_or_default();
                    sp.fill(t, &subs)
                }
            };
            let base = base_of(build_prelude(&xcorpus::hostile_prelude(), &mut vec![]));
            let mut outs = vec![];
            let v = run_statements(&base, &[&sql], &mut outs);
            println!("  {} => {}", vcore::util::trunc(&sql, 300), outs.first().map(|o| o.brief()).unwrap_or_default());
            v
        }
        Some("C1") => {
            let Some(ty) = case["type"].as_str().and_then(parse_ty) else { return 2 };
            let ops: Vec<i64> = strs("operands").iter().filter_map(|s| s.parse().ok()).collect();
            let g = |i: usize| ops.get(i).copied().unwrap_or(0);
            let form = case["form"].as_str().unwrap_or("");
            let (o, v) = arith_case(ty, case["path"].as_str().unwrap_or(""), form, g(0), g(1), g(2));
            println!("  {} over {:?} ({}, {} path) => {}; exact {}", form, ops, ty.name(), case["path"], o.brief(), form_exact(form, g(0), g(1), g(2)).0.map(|v| v.to_string()).unwrap_or_else(|| format!("{:e}", form_exact(form, g(0), g(1), g(2)).1)));
            v
        }
        Some("D") => {
            let Some(pr) = xcorpus::preludes().into_iter().find(|p| p.name == "basic") else { return 2 };
            let base = base_of(build_prelude(&pr, &mut vec![]));
            let stmts = deep_sql(case["shape"].as_str().unwrap_or(""), case["size"].as_u64().unwrap_or(0) as usize);
            let qs: Vec<&str> = stmts.iter().map(|s| s.as_str()).collect();
            let mut outs = vec![];
            let v = run_statements(&base, &qs, &mut outs);
            for (q, o) in qs.iter().zip(&outs) {
                println!("  {} ({} bytes) => {}", vcore::util::trunc(q, 100), q.len(), o.brief());
            }
            v
        }
        Some("prelude") => {
            let mut problems = vec![];
            for p in xcorpus::preludes().iter().chain(std::iter::once(&xcorpus::hostile_prelude())) {
                build_prelude(p, &mut problems);
            }
            problems.iter().find(|p| p.starts_with("PANIC ")).map(|p| ("panic", p.clone()))
        }
        Some("C2") => {
            let Some(ty) = case["type"].as_str().and_then(parse_ty) else { return 2 };
            let vals: Vec<i64> = strs("values").iter().filter_map(|s| s.parse().ok()).collect();
            let (seen, v) = agg_case(ty, case["path"].as_str().unwrap_or(""), &vals);
            println!("  SUM/AVG over {:?} ({}, {} path) => {:?}; exact sum {}", vals, ty.name(), case["path"], seen, vals.iter().map(|v| *v as i128).sum::<i128>());
            v
        }
        _ => return 2,
    };
    match verdict {
        Some((fate, what)) => {
            println!("  {}: {}", fate, what);
            1
        }
        None => 0,
    }
}
