//! Shared by C03/C07: building the small tables, executing one SELECT on either execution path
//! (columnar gate as shipped / forced off through `vibesql_types::verif`), normalised observations.

use std::panic::{catch_unwind, AssertUnwindSafe};

use vcore::val::{self, NV};
use vibesql_ast::{SelectStmt, Statement};
use vibesql_storage::Database;

use crate::refagg::V;

/// What one execution showed: rows by value, or only the class of failure.
#[derive(Clone, Debug, PartialEq, Eq, Hash)]
pub enum Obs {
    Rows(Vec<Vec<NV>>),
    Err,
    Panic,
}

impl Obs {
    pub fn brief(&self) -> String {
        match self {
            Obs::Rows(r) => val::fmt_bag(r),
            Obs::Err => "error".into(),
            Obs::Panic => "PANIC".into(),
        }
    }
    pub fn is_rows(&self) -> bool {
        matches!(self, Obs::Rows(_))
    }
}

pub fn parse_select(sql: &str) -> Result<SelectStmt, String> {
    match vcore::exec::parse(sql) {
        Ok(Statement::Select(s)) => Ok(*s),
        Ok(_) => Err("not a SELECT".into()),
        Err(e) => Err(e),
    }
}

/// Execute on the calling thread with the columnar gate as shipped (`off = false`) or forced off.
/// Returns the observation and the error/panic text (for the report only, never compared).
pub fn run(db: &Database, stmt: &SelectStmt, off: bool) -> (Obs, String) {
    vibesql_types::verif::set_columnar_off(off);
    let r = catch_unwind(AssertUnwindSafe(|| {
        let ex = vibesql_executor::SelectExecutor::new(db);
        ex.execute(stmt)
    }));
    vibesql_types::verif::set_columnar_off(false);
    match r {
        Ok(Ok(rows)) => (Obs::Rows(rows.iter().map(|r| val::norm_row(&r.values)).collect()), String::new()),
        Ok(Err(e)) => (Obs::Err, format!("{}", e)),
        Err(p) => (Obs::Panic, vcore::exec::panic_msg(p)),
    }
}

/// Did this statement go through `execute_columnar` (reach counter delta)? Only meaningful when
/// no other thread executes queries; used by the sequential classification pre-pass.
pub fn takes_columnar(db: &Database, stmt: &SelectStmt) -> bool {
    let before = reach("columnar_taken");
    let _ = run(db, stmt, false);
    reach("columnar_taken") > before
}

pub fn reach(site: &str) -> u64 {
    vibesql_types::verif::snapshot().into_iter().find(|(k, _)| *k == site).map(|(_, v)| v).unwrap_or(0)
}

/// `CREATE TABLE <name> (<col> <type>, …)` + one multi-row INSERT (rows in the given order).
pub fn table_sql(name: &str, cols: &[(&str, &str)], rows: &[Vec<V>]) -> Vec<String> {
    let mut out = vec![format!(
        "CREATE TABLE {} ({})",
        name,
        cols.iter().map(|(c, t)| format!("{} {}", c, t)).collect::<Vec<_>>().join(", ")
    )];
    if !rows.is_empty() {
        let vals: Vec<String> =
            rows.iter().map(|r| format!("({})", r.iter().map(|v| v.sql()).collect::<Vec<_>>().join(", "))).collect();
        out.push(format!("INSERT INTO {} VALUES {}", name, vals.join(", ")));
    }
    out
}

/// Build a database from setup statements; `Err` (statement, outcome) if one is rejected.
pub fn build_db(setup: &[String]) -> Result<Database, (String, String)> {
    let mut db = Database::new();
    for s in setup {
        let o = vcore::exec::exec(&mut db, s);
        if !o.is_ok() {
            return Err((s.clone(), o.brief()));
        }
    }
    Ok(db)
}

/// Reference value → normalised value, the same normalisation the observations go through.
pub fn nv(v: &V) -> NV {
    val::norm(&v.to_sql_value())
}

/// All sequences of length exactly `len` over 0..n (row order matters to the columnar path).
pub fn sequences(n: usize, len: usize) -> Vec<Vec<usize>> {
    vcore::util::sequences(n, len)
}
