//! `aggcheck` — checks C03, C04, C07.
//!   aggcheck check <ID> <quick|thorough>
//!   aggcheck replay <path>

mod bigalloc;
mod c03;
mod c04;
mod c07;
mod common;
mod refagg;

#[global_allocator]
static ALLOC: bigalloc::ArenaCache = bigalloc::ArenaCache;

fn usage() -> ! {
    eprintln!("usage: aggcheck check <C03|C04|C07> <quick|thorough> | aggcheck replay <path>");
    std::process::exit(2)
}

fn replay(path: &str) -> i32 {
    let text = match std::fs::read_to_string(path) {
        Ok(t) => t,
        Err(e) => {
            eprintln!("cannot read {}: {}", path, e);
            return 2;
        }
    };
    let v: serde_json::Value = match serde_json::from_str(&text) {
        Ok(v) => v,
        Err(e) => {
            eprintln!("bad replay file: {}", e);
            return 2;
        }
    };
    println!("property: {}", v["property"].as_str().unwrap_or("?"));
    println!("signature: {}", v["signature"]);
    println!("recorded: {}", v["what"].as_str().unwrap_or(""));
    println!("-- re-execution");
    match v["property"].as_str() {
        Some("C03") => c03::replay(&v["case"]),
        Some("C04") => c04::replay(&v["case"]),
        Some("C07") => c07::replay(&v["case"]),
        _ => {
            eprintln!("not a replay file of this package");
            2
        }
    }
}

fn main() {
    let args: Vec<String> = std::env::args().collect();
    if args.len() < 2 {
        usage();
    }
    if std::env::var("PARALLEL_THRESHOLD").is_err() {
        std::env::set_var("PARALLEL_THRESHOLD", "max");
    }
    vcore::exec::silence_panics();
    let code = match args[1].as_str() {
        "check" if args.len() >= 4 => match args[2].as_str() {
            "C03" => c03::run(&args[3]),
            "C04" => c04::run(&args[3]),
            "C07" => c07::run(&args[3]),
            other => {
                eprintln!("aggcheck does not implement {}", other);
                2
            }
        },
        "replay" if args.len() >= 3 => replay(&args[2]),
        // worker subprocess of C04: configuration from the environment
        "c04-worker" if args.len() >= 3 => {
            let only = args.get(3).map(|l| l.split(',').filter_map(|x| x.parse().ok()).collect::<Vec<usize>>());
            c04::worker(&args[2], only)
        }
        // aggcheck sql [--off] <stmt>... : run statements (SELECTs with the columnar gate forced off after --off)
        "sql" => {
            let mut db = vibesql_storage::Database::new();
            let mut off = false;
            for s in &args[2..] {
                if s == "--off" {
                    off = true;
                    continue;
                }
                vibesql_types::verif::set_columnar_off(off);
                let o = vcore::exec::exec(&mut db, s);
                vibesql_types::verif::set_columnar_off(false);
                println!("{}\n   => {}", s, o.brief());
            }
            0
        }
        _ => usage(),
    };
    std::process::exit(code);
}
