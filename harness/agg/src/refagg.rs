//! Reference definitions used as oracles by C03 and C07: SQL values over a tiny domain,
//! three-valued comparison, the aggregate functions by their definitions, grouping with NULLs
//! as one group. Deliberately boring: no shortcuts, no type specialisation, no early returns
//! that depend on the data.

use vibesql_types::SqlValue;

/// A value of the enumerated domains.
#[derive(Clone, Debug, PartialEq)]
pub enum V {
    Null,
    I(i64),
    F(f64),
    S(String),
}

impl V {
    pub fn is_null(&self) -> bool {
        matches!(self, V::Null)
    }
    /// SQL literal text (non-negative numbers only: vibesql rejects `-1` in VALUES).
    pub fn sql(&self) -> String {
        match self {
            V::Null => "NULL".into(),
            V::I(i) => i.to_string(),
            V::F(f) => {
                let s = format!("{}", f);
                if s.contains('.') || s.contains('e') {
                    s
                } else {
                    format!("{}.0", s)
                }
            }
            V::S(s) => format!("'{}'", s.replace('\'', "''")),
        }
    }
    pub fn to_sql_value(&self) -> SqlValue {
        match self {
            V::Null => SqlValue::Null,
            V::I(i) => SqlValue::Integer(*i),
            V::F(f) => SqlValue::Double(*f),
            V::S(s) => SqlValue::Varchar(s.clone()),
        }
    }
    fn num(&self) -> Option<f64> {
        match self {
            V::I(i) => Some(*i as f64),
            V::F(f) => Some(*f),
            _ => None,
        }
    }
}

/// Three-valued truth.
#[derive(Clone, Copy, Debug, PartialEq, Eq)]
pub enum T3 {
    True,
    False,
    Unknown,
}

impl T3 {
    pub fn and(self, o: T3) -> T3 {
        match (self, o) {
            (T3::False, _) | (_, T3::False) => T3::False,
            (T3::True, T3::True) => T3::True,
            _ => T3::Unknown,
        }
    }
    pub fn or(self, o: T3) -> T3 {
        match (self, o) {
            (T3::True, _) | (_, T3::True) => T3::True,
            (T3::False, T3::False) => T3::False,
            _ => T3::Unknown,
        }
    }
    pub fn not(self) -> T3 {
        match self {
            T3::True => T3::False,
            T3::False => T3::True,
            T3::Unknown => T3::Unknown,
        }
    }
    pub fn of(b: bool) -> T3 {
        if b {
            T3::True
        } else {
            T3::False
        }
    }
}

/// Ordering of two non-NULL values of the same kind (numbers by value, strings by bytes).
/// `None` for NULL operands or for a number compared with a string (never generated).
pub fn cmp(a: &V, b: &V) -> Option<std::cmp::Ordering> {
    match (a, b) {
        (V::I(x), V::I(y)) => Some(x.cmp(y)),
        (V::S(x), V::S(y)) => Some(x.as_bytes().cmp(y.as_bytes())),
        _ => match (a.num(), b.num()) {
            (Some(x), Some(y)) => x.partial_cmp(&y),
            _ => None,
        },
    }
}

/// `a op b` under SQL comparison rules; op ∈ = <> < <= > >=.
pub fn compare(a: &V, op: &str, b: &V) -> T3 {
    if a.is_null() || b.is_null() {
        return T3::Unknown;
    }
    let Some(o) = cmp(a, b) else { return T3::Unknown };
    use std::cmp::Ordering::*;
    T3::of(match op {
        "=" => o == Equal,
        "<>" => o != Equal,
        "<" => o == Less,
        "<=" => o != Greater,
        ">" => o == Greater,
        ">=" => o != Less,
        _ => panic!("refagg: unknown comparison {}", op),
    })
}

/// `a + b` / `a * b`: NULL if either is NULL; integer if both are integers, else float.
pub fn arith(a: &V, op: char, b: &V) -> V {
    match (a, b) {
        (V::Null, _) | (_, V::Null) => V::Null,
        (V::I(x), V::I(y)) => {
            let r = if op == '+' { (*x as i128) + (*y as i128) } else { (*x as i128) * (*y as i128) };
            if r >= i64::MIN as i128 && r <= i64::MAX as i128 {
                V::I(r as i64)
            } else {
                V::F(r as f64)
            }
        }
        _ => {
            let (x, y) = (a.num().unwrap(), b.num().unwrap());
            V::F(if op == '+' { x + y } else { x * y })
        }
    }
}

#[derive(Clone, Copy, Debug, PartialEq, Eq, Hash, PartialOrd, Ord)]
pub enum Func {
    CountStar,
    Count,
    Sum,
    Avg,
    Min,
    Max,
}

impl Func {
    pub fn name(self) -> &'static str {
        match self {
            Func::CountStar | Func::Count => "COUNT",
            Func::Sum => "SUM",
            Func::Avg => "AVG",
            Func::Min => "MIN",
            Func::Max => "MAX",
        }
    }
}

/// Distinct values under SQL equality (1 = 1.0), first occurrence kept.
fn distinct(vals: &[V]) -> Vec<V> {
    let mut out: Vec<V> = vec![];
    for v in vals {
        if !out.iter().any(|w| cmp(v, w) == Some(std::cmp::Ordering::Equal)) {
            out.push(v.clone());
        }
    }
    out
}

/// The aggregate of `args` (one argument value per input row of the group; ignored for
/// COUNT(*), where only the number of rows counts), by the SQL definition:
/// COUNT(*) = number of rows; COUNT(x) = number of non-NULL x; SUM/AVG/MIN/MAX over the non-NULL
/// values, NULL when there are none; DISTINCT = over the distinct non-NULL values.
pub fn aggregate(f: Func, is_distinct: bool, args: &[V]) -> V {
    if f == Func::CountStar {
        return V::I(args.len() as i64);
    }
    let mut vals: Vec<V> = args.iter().filter(|v| !v.is_null()).cloned().collect();
    if is_distinct {
        vals = distinct(&vals);
    }
    match f {
        Func::CountStar => unreachable!(),
        Func::Count => V::I(vals.len() as i64),
        Func::Sum | Func::Avg => {
            if vals.is_empty() {
                return V::Null;
            }
            let all_int = vals.iter().all(|v| matches!(v, V::I(_)));
            let sum = if all_int {
                let s: i128 = vals.iter().map(|v| if let V::I(i) = v { *i as i128 } else { 0 }).sum();
                if f == Func::Sum && s >= i64::MIN as i128 && s <= i64::MAX as i128 {
                    return V::I(s as i64);
                }
                s as f64
            } else {
                vals.iter().map(|v| v.num().expect("refagg: SUM of a non-number")).sum::<f64>()
            };
            if f == Func::Sum {
                V::F(sum)
            } else {
                V::F(sum / vals.len() as f64)
            }
        }
        Func::Min | Func::Max => {
            let mut best: Option<V> = None;
            for v in vals {
                best = Some(match best {
                    None => v,
                    Some(b) => {
                        let o = cmp(&v, &b).expect("refagg: MIN/MAX over incomparable values");
                        let take = if f == Func::Min { o == std::cmp::Ordering::Less } else { o == std::cmp::Ordering::Greater };
                        if take {
                            v
                        } else {
                            b
                        }
                    }
                });
            }
            best.unwrap_or(V::Null)
        }
    }
}

/// Partition row indices by key; NULL keys form one group; numeric keys by value.
/// Groups are returned in order of first appearance.
pub fn group_by_key(keys: &[V]) -> Vec<(V, Vec<usize>)> {
    let mut out: Vec<(V, Vec<usize>)> = vec![];
    for (i, k) in keys.iter().enumerate() {
        let pos = out.iter().position(|(g, _)| match (g.is_null(), k.is_null()) {
            (true, true) => true,
            (false, false) => cmp(g, k) == Some(std::cmp::Ordering::Equal),
            _ => false,
        });
        match pos {
            Some(p) => out[p].1.push(i),
            None => out.push((k.clone(), vec![i])),
        }
    }
    out
}
