//! C07 — aggregates and grouping follow their SQL definitions on every input.
//!
//! Space: every row multiset (inserted ascending and descending; all sequences up to length 2) of
//! size 0..n of `(k, x)` with k ∈ {NULL,0,1}, x ∈ {NULL,0,1,2} for x INT and x DOUBLE, a mixed
//! integer/float variant (the aggregated value of a row is an INT or a DOUBLE, reached through
//! `COALESCE(x, y)` over an INT and a DOUBLE column), and a DOUBLE-key variant with 0.0 / −0.0 / NaN
//! keys (thorough) × every aggregate form COUNT(*), COUNT, SUM, AVG, MIN, MAX and their DISTINCT
//! forms (one per query, and all in one select list) × grouping ∈ {none, k, (k, x)} × both
//! execution paths (columnar gate as shipped / forced off).
//! Oracle: `refagg` — the definitions written out in boring Rust; one row per distinct key with
//! NULLs as one group; exactly one row without GROUP BY.

use std::collections::{BTreeMap, HashSet};

use serde_json::{json, Value};
use vcore::report::Report;
use vcore::util::{multisets, par_map};
use vcore::val::{self, NV};
use vibesql_ast::SelectStmt;
use vibesql_types::SqlValue;

use crate::common::{self, nv, Obs};
use crate::refagg::{aggregate, group_by_key, Func, V};

#[derive(Clone, Copy, Debug, PartialEq, Eq)]
pub enum Variant {
    /// g(k INT, x INT)
    IntInt,
    /// g(k INT, x DOUBLE)
    IntDbl,
    /// g(k INT, x INT, y DOUBLE); the aggregated value is COALESCE(x, y): INT, DOUBLE or NULL per row
    Mixed,
    /// g(k DOUBLE, x INT) with keys NULL, 0.0, −0.0, NaN, 1.0 (rows inserted as literals of an AST)
    DblKey,
    /// g(k VARCHAR, x VARCHAR): COUNT / MIN / MAX (and DISTINCT forms) over strings, string keys
    Str,
}

impl Variant {
    fn name(self) -> &'static str {
        match self {
            Variant::IntInt => "k INT, x INT",
            Variant::IntDbl => "k INT, x DOUBLE",
            Variant::Mixed => "k INT, COALESCE(x INT, y DOUBLE)",
            Variant::DblKey => "k DOUBLE (0.0/-0.0/NaN), x INT",
            Variant::Str => "k VARCHAR, x VARCHAR",
        }
    }
    fn value_expr(self) -> &'static str {
        if self == Variant::Mixed {
            "COALESCE(x, y)"
        } else {
            "x"
        }
    }
    fn key_domain(self) -> Vec<V> {
        match self {
            Variant::DblKey => vec![V::Null, V::F(0.0), V::F(-0.0), V::F(f64::NAN), V::F(1.0)],
            Variant::Str => vec![V::Null, V::S("a".into()), V::S("b".into())],
            _ => vec![V::Null, V::I(0), V::I(1)],
        }
    }
    fn val_domain(self, thorough: bool) -> Vec<V> {
        match self {
            Variant::IntInt => vec![V::Null, V::I(0), V::I(1), V::I(2)],
            Variant::IntDbl => {
                let mut d = vec![V::Null, V::F(0.0), V::F(1.0), V::F(2.0)];
                if thorough {
                    d.push(V::F(0.5));
                }
                d
            }
            Variant::Mixed => vec![V::Null, V::I(0), V::I(1), V::I(2), V::F(0.5), V::F(1.0)],
            Variant::DblKey => vec![V::Null, V::I(1), V::I(2)],
            Variant::Str => vec![V::Null, V::S("a".into()), V::S("b".into()), V::S("ab".into())],
        }
    }
}

/// A logical row: (key, aggregated value).
type Row = (V, V);

#[derive(Clone, Copy, Debug, PartialEq, Eq)]
pub enum Grouping {
    None,
    K,
    KX,
    /// GROUP BY the value expression (mixed variant: the keys 1 and 1.0 are one key)
    X,
}

#[derive(Clone, Debug)]
pub struct Q {
    pub aggs: Vec<(Func, bool)>,
    pub grouping: Grouping,
    /// a constant WHERE condition (text, whether it is TRUE): an input the optimizer can empty at
    /// plan time is still "an empty multiset of input rows" — one group without GROUP BY, none with
    pub wher: Option<(&'static str, bool)>,
}

/// constant conditions (folded at plan time): FALSE, UNKNOWN and TRUE ones
const CONST_WHERE: [(&str, bool); 5] = [("1 = 0", false), ("2 < 1 OR 3 < 2", false), ("NOT (1 = 1)", false), ("1 = NULL", false), ("1 = 1", true)];

const FORMS: [(Func, bool); 11] = [
    (Func::CountStar, false),
    (Func::Count, false),
    (Func::Count, true),
    (Func::Sum, false),
    (Func::Sum, true),
    (Func::Avg, false),
    (Func::Avg, true),
    (Func::Min, false),
    (Func::Max, false),
    (Func::Min, true),
    (Func::Max, true),
];

fn agg_sql(f: Func, d: bool, vx: &str) -> String {
    if f == Func::CountStar {
        "COUNT(*)".into()
    } else {
        format!("{}({}{})", f.name(), if d { "DISTINCT " } else { "" }, vx)
    }
}

impl Q {
    fn sql(&self, v: Variant) -> String {
        let vx = v.value_expr();
        let aggs = self.aggs.iter().map(|(f, d)| agg_sql(*f, *d, vx)).collect::<Vec<_>>().join(", ");
        let w = match self.wher {
            Some((c, _)) => format!(" WHERE {}", c),
            None => String::new(),
        };
        match self.grouping {
            Grouping::None => format!("SELECT {} FROM g{}", aggs, w),
            Grouping::K => format!("SELECT k, {} FROM g{} GROUP BY k", aggs, w),
            Grouping::KX => format!("SELECT k, {}, {} FROM g{} GROUP BY k, {}", vx, aggs, w, vx),
            Grouping::X => format!("SELECT {}, {} FROM g{} GROUP BY {}", vx, aggs, w, vx),
        }
    }
    fn shape(&self) -> String {
        self.aggs.iter().map(|(f, d)| agg_sql(*f, *d, "x")).collect::<Vec<_>>().join(",")
    }
}

fn family(v: Variant) -> Vec<Q> {
    let mut out = vec![];
    let groupings: &[Grouping] = match v {
        Variant::Mixed => &[Grouping::None, Grouping::K, Grouping::X],
        _ => &[Grouping::None, Grouping::K, Grouping::KX],
    };
    // strings: no SUM / AVG
    let forms: Vec<(Func, bool)> =
        FORMS.iter().copied().filter(|(f, _)| v != Variant::Str || !matches!(f, Func::Sum | Func::Avg)).collect();
    for g in groupings {
        for form in &forms {
            out.push(Q { aggs: vec![*form], grouping: *g, wher: None });
        }
        out.push(Q { aggs: forms.clone(), grouping: *g, wher: None });
    }
    // the same lists behind a constant WHERE condition (grouping none and k)
    for g in &groupings[..2] {
        for cw in CONST_WHERE {
            out.push(Q { aggs: forms.clone(), grouping: *g, wher: Some(cw) });
            out.push(Q { aggs: vec![(Func::CountStar, false)], grouping: *g, wher: Some(cw) });
        }
    }
    out
}

// ----- reference -------------------------------------------------------------------------------

/// Key equality for grouping. Ordinary variants: SQL value equality with NULLs as one group
/// (`refagg::group_by_key`). DOUBLE keys with −0.0/NaN: whatever `SqlValue: Eq` says is one key
/// (C21 owns that relation), so the expectation is derived from it, not from IEEE.
fn groups(v: Variant, keys: &[Vec<V>]) -> Vec<(Vec<V>, Vec<usize>)> {
    if v != Variant::DblKey {
        // composite keys: group on the first component, then refine on the following ones
        let mut parts: Vec<(Vec<V>, Vec<usize>)> = vec![(vec![], (0..keys.len()).collect())];
        let width = keys.first().map(|k| k.len()).unwrap_or(0);
        for c in 0..width {
            let mut next = vec![];
            for (prefix, idx) in parts {
                let col: Vec<V> = idx.iter().map(|&i| keys[i][c].clone()).collect();
                for (kv, members) in group_by_key(&col) {
                    let mut p = prefix.clone();
                    p.push(kv);
                    next.push((p, members.iter().map(|&j| idx[j]).collect()));
                }
            }
            parts = next;
        }
        return parts;
    }
    let mut out: Vec<(Vec<V>, Vec<usize>)> = vec![];
    for (i, k) in keys.iter().enumerate() {
        let ks: Vec<SqlValue> = k.iter().map(|x| x.to_sql_value()).collect();
        let pos = out.iter().position(|(g, _)| g.iter().map(|x| x.to_sql_value()).collect::<Vec<_>>() == ks);
        match pos {
            Some(p) => out[p].1.push(i),
            None => out.push((k.clone(), vec![i])),
        }
    }
    out
}

fn reference(v: Variant, q: &Q, rows: &[Row]) -> Vec<Vec<V>> {
    // a constant condition that is not TRUE leaves no input row
    let rows: &[Row] = if matches!(q.wher, Some((_, false))) { &[] } else { rows };
    let keys: Vec<Vec<V>> = rows
        .iter()
        .map(|(k, x)| match q.grouping {
            Grouping::None => vec![],
            Grouping::K => vec![k.clone()],
            Grouping::KX => vec![k.clone(), x.clone()],
            Grouping::X => vec![x.clone()],
        })
        .collect();
    // without GROUP BY the whole input is one group (also when it is empty); with GROUP BY there
    // is one group per distinct key, hence none for an empty input
    let parts = if q.grouping == Grouping::None {
        vec![(vec![], (0..rows.len()).collect())]
    } else if rows.is_empty() {
        vec![]
    } else {
        groups(v, &keys)
    };
    parts
        .into_iter()
        .map(|(key, members)| {
            let args: Vec<V> = members.iter().map(|&i| rows[i].1.clone()).collect();
            let mut r = key;
            for (f, d) in &q.aggs {
                r.push(aggregate(*f, *d, &args));
            }
            r
        })
        .collect()
}

// ----- databases --------------------------------------------------------------------------------

fn row_kinds(v: Variant, thorough: bool) -> Vec<Row> {
    let mut out = vec![];
    for k in v.key_domain() {
        for x in v.val_domain(thorough) {
            out.push((k.clone(), x.clone()));
        }
    }
    out
}

fn databases(v: Variant, n: usize, thorough: bool, both_orders: bool) -> Vec<Vec<Row>> {
    let kinds = row_kinds(v, thorough);
    let mut out: Vec<Vec<Row>> = vec![];
    for len in 0..=n.min(2) {
        for s in common::sequences(kinds.len(), len) {
            out.push(s.iter().map(|&i| kinds[i].clone()).collect());
        }
    }
    for k in 3..=n {
        for m in multisets(kinds.len(), k) {
            let asc: Vec<Row> = m.iter().map(|&i| kinds[i].clone()).collect();
            let mut desc = asc.clone();
            desc.reverse();
            let same = !both_orders || format!("{:?}", asc) == format!("{:?}", desc);
            out.push(asc);
            if !same {
                out.push(desc);
            }
        }
    }
    out
}

fn physical(v: Variant, r: &Row) -> Vec<V> {
    match v {
        Variant::Mixed => match &r.1 {
            V::I(_) => vec![r.0.clone(), r.1.clone(), V::Null],
            V::F(_) => vec![r.0.clone(), V::Null, r.1.clone()],
            _ => vec![r.0.clone(), V::Null, V::Null],
        },
        _ => vec![r.0.clone(), r.1.clone()],
    }
}

fn columns(v: Variant) -> Vec<(&'static str, &'static str)> {
    match v {
        Variant::IntInt => vec![("k", "INT"), ("x", "INT")],
        Variant::IntDbl => vec![("k", "INT"), ("x", "DOUBLE")],
        Variant::Mixed => vec![("k", "INT"), ("x", "INT"), ("y", "DOUBLE")],
        Variant::DblKey => vec![("k", "DOUBLE"), ("x", "INT")],
        Variant::Str => vec![("k", "VARCHAR(5)"), ("x", "VARCHAR(5)")],
    }
}

/// Setup as SQL text; the DOUBLE-key variant cannot be written as text (−0.0 and NaN have no
/// literal), its rows are inserted as an `InsertStmt` AST with literal values.
fn build(v: Variant, rows: &[Row]) -> Result<vibesql_storage::Database, String> {
    let phys: Vec<Vec<V>> = rows.iter().map(|r| physical(v, r)).collect();
    if v != Variant::DblKey {
        return common::build_db(&common::table_sql("g", &columns(v), &phys)).map_err(|(s, o)| format!("{} => {}", s, o));
    }
    let mut db = common::build_db(&common::table_sql("g", &columns(v), &[])).map_err(|(s, o)| format!("{} => {}", s, o))?;
    if phys.is_empty() {
        return Ok(db);
    }
    // parse a template INSERT with the right number of rows, then overwrite the literals
    let tmpl: Vec<Vec<V>> = phys.iter().map(|_| vec![V::F(1.5), V::I(1)]).collect();
    let text = common::table_sql("g", &columns(v), &tmpl).pop().unwrap();
    let mut stmt = vcore::exec::parse(&text)?;
    match &mut stmt {
        vibesql_ast::Statement::Insert(ins) => match &mut ins.source {
            vibesql_ast::InsertSource::Values(vals) => {
                for (ri, r) in vals.iter_mut().enumerate() {
                    for (ci, e) in r.iter_mut().enumerate() {
                        *e = vibesql_ast::Expression::Literal(phys[ri][ci].to_sql_value());
                    }
                }
            }
            _ => return Err("template INSERT has no VALUES".into()),
        },
        _ => return Err("template is not an INSERT".into()),
    }
    let o = vcore::exec::exec_stmt(&mut db, &stmt);
    if !o.is_ok() {
        return Err(format!("AST insert rejected: {}", o.brief()));
    }
    Ok(db)
}

fn data_class(rows: &[Row]) -> &'static str {
    if rows.is_empty() {
        "empty"
    } else if rows.iter().all(|r| r.1.is_null()) {
        "all_x_null"
    } else if rows.iter().any(|r| r.0.is_null()) {
        "null_key"
    } else if rows.iter().any(|r| r.1.is_null()) {
        "some_x_null"
    } else {
        "no_nulls"
    }
}

/// Do the aggregated values contain an INT and a DOUBLE that are the same number (1 and 1.0)?
fn int_float_twins(rows: &[Row]) -> bool {
    rows.iter().any(|a| {
        matches!(a.1, V::I(_)) && rows.iter().any(|b| matches!(b.1, V::F(_)) && crate::refagg::cmp(&a.1, &b.1) == Some(std::cmp::Ordering::Equal))
    })
}

fn fmt_rows(rows: &[Row]) -> String {
    format!("[{}]", rows.iter().map(|(k, x)| format!("({},{})", k.sql(), x.sql())).collect::<Vec<_>>().join(","))
}

fn fmt_ref(rows: &[Vec<V>]) -> String {
    let mut b: Vec<Vec<NV>> = rows.iter().map(|r| r.iter().map(nv).collect()).collect();
    b.sort();
    val::fmt_bag(&b)
}

// ----- the check --------------------------------------------------------------------------------

/// At most this many new violation signatures are written out per run (simplest first); further
/// ones are counted. Signatures of open known findings are never cut.
const MAX_REPORTED: usize = 40;

struct Fail {
    sig: Vec<(&'static str, String)>,
    what: String,
    case: Value,
    v: Variant,
    rows: Vec<Row>,
    qi: usize,
    off: bool,
    oracle: &'static str,
}

#[derive(Default)]
struct Counters {
    evaluations: u64,
    ok: u64,
    errs: u64,
    groups_expected: u64,
    null_key_groups: u64,
    empty_inputs: u64,
    all_null_groups: u64,
    distinct_collapses: u64,
    outcomes: HashSet<u64>,
    fails: Vec<Fail>,
    seen: HashSet<String>,
    failing: u64,
}

/// Compare one observation with the definition; returns (oracle, description) when it differs.
fn judge(q: &Q, want: &[Vec<V>], got: &Obs) -> Option<(&'static str, String)> {
    let mut w: Vec<Vec<NV>> = want.iter().map(|r| r.iter().map(nv).collect()).collect();
    w.sort();
    match got {
        Obs::Panic => Some(("panic", "the query panicked".into())),
        Obs::Err => Some(("rejected", format!("the query is rejected; by definition {}", val::fmt_bag(&w)))),
        Obs::Rows(r) => {
            let mut g = r.clone();
            g.sort();
            if g == w {
                return None;
            }
            let oracle = if q.grouping == Grouping::None && g.len() != 1 {
                "one_row_without_group_by"
            } else if q.grouping != Grouping::None && g.len() != w.len() {
                "one_row_per_distinct_key"
            } else {
                "aggregate_value"
            };
            Some((oracle, format!("returned {} but by definition {}", val::fmt_bag(&g), val::fmt_bag(&w))))
        }
    }
}

fn case_json(v: Variant, rows: &[Row], sql: &str, off: bool, want: &[Vec<V>]) -> Value {
    let phys: Vec<Vec<V>> = rows.iter().map(|r| physical(v, r)).collect();
    json!({
        "kind": "c07",
        "variant": format!("{:?}", v),
        "steps": common::table_sql("g", &columns(v), &phys),
        "rows": rows.iter().map(|(k, x)| json!([k.sql(), x.sql()])).collect::<Vec<_>>(),
        "query": sql,
        "columnar_gate_forced_off": off,
        "expected_by_definition": fmt_ref(want),
    })
}

pub fn run(tier: &str) -> i32 {
    let thorough = tier == "thorough";
    let mut rep = Report::new("C07", tier, "model_checking");
    let n_env: Option<usize> = std::env::var("VERIF_C07_N").ok().and_then(|s| s.parse().ok());
    // (variant, largest multiset size, multisets of size >= 3 inserted in both orders?)
    let plan: Vec<(Variant, usize, bool)> = if thorough {
        vec![(Variant::IntInt, 5, true), (Variant::IntDbl, 4, true), (Variant::Mixed, 4, true), (Variant::DblKey, 4, true), (Variant::Str, 4, true)]
    } else {
        vec![(Variant::IntInt, 3, true), (Variant::IntDbl, 2, true), (Variant::Mixed, 3, false), (Variant::DblKey, 2, true), (Variant::Str, 2, true)]
    };

    let mut total = Counters::default();
    let findings = vcore::report::load_findings("C07");
    let (mut new_kept, mut cut) = (0usize, 0usize);
    let mut per_variant = vec![];
    let mut dbs_total = 0usize;
    let mut samples = vec![];
    let columnar_before = common::reach("columnar_taken");

    for (v, n, both_orders) in plan {
        let n = n_env.unwrap_or(n);
        let fam = family(v);
        let mut stmts: Vec<SelectStmt> = vec![];
        for q in &fam {
            match common::parse_select(&q.sql(v)) {
                Ok(s) => stmts.push(s),
                Err(e) => {
                    rep.machinery_error(format!("family query does not parse: {} => {}", q.sql(v), e));
                    return rep.finish();
                }
            }
        }
        let dbs = databases(v, n, thorough, both_orders);
        dbs_total += dbs.len();
        let results: Vec<Result<Counters, String>> = par_map(&dbs, |_, rows| {
            let mut c = Counters::default();
            let db = build(v, rows)?;
            for (qi, q) in fam.iter().enumerate() {
                let want = reference(v, q, rows);
                if q.grouping != Grouping::None {
                    c.groups_expected += want.len() as u64;
                    c.null_key_groups += want.iter().filter(|r| r[0].is_null()).count() as u64;
                } else if rows.is_empty() {
                    c.empty_inputs += 1;
                }
                if q.aggs.len() == 1 {
                    let (f, d) = q.aggs[0];
                    let keycols = want.first().map(|r| r.len() - 1).unwrap_or(0);
                    if f != Func::CountStar && f != Func::Count {
                        c.all_null_groups += want.iter().filter(|r| r[keycols].is_null()).count() as u64;
                    }
                    if d && q.grouping == Grouping::None {
                        let plain = aggregate(f, false, &rows.iter().map(|r| r.1.clone()).collect::<Vec<_>>());
                        if nv(&plain) != nv(&want[0][0]) {
                            c.distinct_collapses += 1;
                        }
                    }
                }
                for off in [false, true] {
                    let (got, msg) = common::run(&db, &stmts[qi], off);
                    c.evaluations += 1;
                    c.outcomes.insert(vcore::util::hash64(format!("{:?}", got).as_bytes()));
                    if got.is_rows() {
                        c.ok += 1;
                    } else {
                        c.errs += 1;
                    }
                    if let Some((oracle, what)) = judge(q, &want, &got) {
                        c.failing += 1;
                        let sig = vec![
                            ("oracle", oracle.to_string()),
                            ("aggs", q.shape()),
                            ("grouping", format!("{:?}", q.grouping).to_lowercase()),
                            ("path", if off { "gate_off".to_string() } else { "shipped".to_string() }),
                            ("variant", format!("{:?}", v)),
                            ("data", data_class(rows).to_string()),
                            ("int_and_double_of_equal_value", if int_float_twins(rows) { "yes".to_string() } else { "no".to_string() }),
                            ("distinct_aggregate", if q.aggs.iter().any(|(_, d)| *d) { "yes".to_string() } else { "no".to_string() }),
                        ];
                        if !c.seen.insert(format!("{:?}", sig)) {
                            continue;
                        }
                        let sql = q.sql(v);
                        c.fails.push(Fail {
                            sig,
                            what: format!(
                                "{} [{}; columnar gate {}] over rows (k,x) {}: {}{}",
                                sql,
                                v.name(),
                                if off { "forced off" } else { "as shipped" },
                                fmt_rows(rows),
                                what,
                                if msg.is_empty() { String::new() } else { format!(" [{}]", msg) }
                            ),
                            case: case_json(v, rows, &sql, off, &want),
                            v,
                            rows: rows.clone(),
                            qi,
                            off,
                            oracle,
                        });
                    }
                }
            }
            Ok(c)
        });
        let mut vc = Counters::default();
        for r in results {
            match r {
                Err(e) => rep.machinery_error(e),
                Ok(c) => {
                    vc.evaluations += c.evaluations;
                    vc.ok += c.ok;
                    vc.errs += c.errs;
                    vc.groups_expected += c.groups_expected;
                    vc.null_key_groups += c.null_key_groups;
                    vc.empty_inputs += c.empty_inputs;
                    vc.all_null_groups += c.all_null_groups;
                    vc.distinct_collapses += c.distinct_collapses;
                    vc.failing += c.failing;
                    vc.outcomes.extend(c.outcomes);
                    for f in c.fails {
                        if vc.seen.insert(format!("{:?}", f.sig)) {
                            vc.fails.push(f);
                        }
                    }
                }
            }
        }
        per_variant.push(json!({
            "variant": v.name(), "rows_max": n, "sizes_3_and_up_in_both_insertion_orders": both_orders,
            "databases": dbs.len(), "queries": fam.len(),
            "evaluations": vc.evaluations, "failing": vc.failing,
        }));
        samples.push(json!({"variant": v.name(), "rows_kx": fmt_rows(&dbs[dbs.len() * 2 / 3]), "query": fam[fam.len() / 2].sql(v)}));
        total.evaluations += vc.evaluations;
        total.ok += vc.ok;
        total.errs += vc.errs;
        total.groups_expected += vc.groups_expected;
        total.null_key_groups += vc.null_key_groups;
        total.empty_inputs += vc.empty_inputs;
        total.all_null_groups += vc.all_null_groups;
        total.distinct_collapses += vc.distinct_collapses;
        total.failing += vc.failing;
        total.outcomes.extend(vc.outcomes);
        total.fails.extend(vc.fails);

        // re-execute every first witness twice from scratch
        let fails = std::mem::take(&mut total.fails);
        let mut confirmed = vec![];
        for f in fails {
            let known = findings.iter().any(|k| k.sig.iter().all(|(key, want)| f.sig.iter().any(|(a, b)| a == key && b == want)));
            if !known {
                if new_kept >= MAX_REPORTED {
                    cut += 1;
                    continue;
                }
                new_kept += 1;
            }
            let again = |f: &Fail| -> Result<Obs, String> {
                let db = build(f.v, &f.rows)?;
                Ok(common::run(&db, &stmts[f.qi], f.off).0)
            };
            match (again(&f), again(&f)) {
                (Ok(a), Ok(b)) => {
                    let want = reference(f.v, &fam[f.qi], &f.rows);
                    let ja = judge(&fam[f.qi], &want, &a).map(|x| x.0);
                    let jb = judge(&fam[f.qi], &want, &b).map(|x| x.0);
                    if ja == Some(f.oracle) && jb == Some(f.oracle) {
                        confirmed.push(f);
                    } else if ja.is_some() || jb.is_some() {
                        // HashMap-order dependent answers (RandomState): the law failure must
                        // reproduce, the observation need not be bit-equal; report what reproduced
                        if ja.is_some() && jb.is_some() {
                            confirmed.push(f);
                        } else {
                            rep.machinery_error(format!("violation reproduces only sometimes: {}", f.what));
                        }
                    } else {
                        rep.machinery_error(format!("violation did not reproduce from scratch: {}", f.what));
                    }
                }
                (Err(e), _) | (_, Err(e)) => rep.machinery_error(format!("re-execution failed: {}", e)),
            }
        }
        let vs: Vec<vcore::report::Violation> = confirmed
            .into_iter()
            .map(|f| vcore::report::Violation {
                sig: f.sig.iter().map(|(k, v)| (k.to_string(), v.clone())).collect::<BTreeMap<_, _>>(),
                what: f.what,
                case: f.case,
            })
            .collect();
        rep.merge_violations(vs, 0);
    }
    rep.merge_violations(vec![], total.failing);

    let columnar_cases = common::reach("columnar_taken") - columnar_before;
    rep.set("states", json!(dbs_total));
    rep.set("transitions", json!(total.evaluations));
    rep.set("traces_validated_against_impl", json!(total.evaluations));
    rep.set("evaluations", json!(total.evaluations));
    rep.set("distinct_nontrivial", json!(total.outcomes.len()));
    rep.set("distinct_outcomes", json!(total.outcomes.len()));
    rep.set("exhaustive", json!(true));
    rep.set("per_variant", json!(per_variant));
    rep.set("ok_results", json!(total.ok));
    rep.set("error_results", json!(total.errs));
    rep.set(
        "reach",
        json!({
            "executions_through_execute_columnar": columnar_cases,
            "groups_expected_total": total.groups_expected,
            "groups_with_null_key": total.null_key_groups,
            "ungrouped_queries_on_empty_table": total.empty_inputs,
            "groups_whose_aggregate_is_null_by_definition": total.all_null_groups,
            "cases_where_distinct_changes_the_value": total.distinct_collapses,
        }),
    );
    let mut vac = vec![];
    if columnar_cases == 0 {
        vac.push("columnar_taken");
    }
    rep.set("vacuous_mechanisms", json!(vac));
    rep.set("violation_signatures_not_written_out", json!(cut));
    if cut > 0 {
        println!("note: {} further violation signatures were counted but not written out (limit {})", cut, MAX_REPORTED);
    }
    rep.set("samples", json!(samples));
    rep.assume("definitions of the aggregates and of grouping: harness/agg/src/refagg.rs (numbers compared by value; NULL keys one group)");
    rep.assume("DOUBLE keys 0.0/-0.0/NaN: the expected partition is the one SqlValue's own Eq induces (property C21 owns that relation)");
    println!(
        "C07 {}: {} databases, {} executions (both paths), {} distinct outcomes, {} ok / {} error, {} through execute_columnar, {} failing",
        tier, dbs_total, total.evaluations, total.outcomes.len(), total.ok, total.errs, columnar_cases, total.failing
    );
    rep.finish()
}

pub fn replay(case: &Value) -> i32 {
    let variant = match case["variant"].as_str() {
        Some("IntInt") => Variant::IntInt,
        Some("IntDbl") => Variant::IntDbl,
        Some("Mixed") => Variant::Mixed,
        Some("DblKey") => Variant::DblKey,
        Some("Str") => Variant::Str,
        _ => {
            eprintln!("MACHINERY-ERROR replay: unknown variant");
            return 2;
        }
    };
    let parse_v = |s: &str| -> V {
        if s == "NULL" {
            V::Null
        } else if s.starts_with('\'') {
            V::S(s.trim_matches('\'').to_string())
        } else if s == "NaN" {
            V::F(f64::NAN)
        } else if let Ok(i) = s.parse::<i64>() {
            V::I(i)
        } else {
            V::F(s.parse::<f64>().unwrap_or(f64::NAN))
        }
    };
    let rows: Vec<Row> = case["rows"]
        .as_array()
        .map(|a| a.iter().map(|r| (parse_v(r[0].as_str().unwrap_or("NULL")), parse_v(r[1].as_str().unwrap_or("NULL")))).collect())
        .unwrap_or_default();
    let sql = case["query"].as_str().unwrap_or("");
    let off = case["columnar_gate_forced_off"].as_bool().unwrap_or(false);
    println!("table g ({}) rows (k,x): {}", variant.name(), fmt_rows(&rows));
    println!("{}   [columnar gate {}]", sql, if off { "forced off" } else { "as shipped" });
    let db = match build(variant, &rows) {
        Ok(d) => d,
        Err(e) => {
            eprintln!("MACHINERY-ERROR replay setup: {}", e);
            return 2;
        }
    };
    let stmt = match common::parse_select(sql) {
        Ok(s) => s,
        Err(e) => {
            eprintln!("MACHINERY-ERROR replay parse: {}", e);
            return 2;
        }
    };
    let (got, msg) = common::run(&db, &stmt, off);
    let mut shown = got.clone();
    if let Obs::Rows(r) = &mut shown {
        r.sort();
    }
    println!("   returned      => {} {}", shown.brief(), msg);
    let want = case["expected_by_definition"].as_str().unwrap_or("?");
    println!("   by definition => {}", want);
    if shown.brief() != want {
        println!("REPRODUCED");
        1
    } else {
        println!("not reproduced");
        0
    }
}
