//! C03 — the columnar aggregate fast path returns exactly what row execution returns.
//!
//! Space: every database of a two-column table `t(a, b)` (column type sets INT/DOUBLE/mixed and a
//! VARCHAR column in either position) holding every row sequence of length 0..2 and every row
//! multiset (inserted ascending and descending) up to the tier's size over {NULL,0,1,2} per column
//! × every query of a bounded family of single-table aggregate queries (1–2 aggregates, the WHERE
//! shapes `is_simple_predicate` admits, HAVING, ORDER BY, LIMIT/OFFSET, the table reached directly,
//! through an alias, a view and a CTE).
//! Oracles, every case: (a) the same statement executed with the columnar gate forced off
//! (`vibesql_types::verif::set_columnar_off`) must give the same rows; (b) the three laws the
//! property states, decided on the result of the shipped configuration with `refagg`:
//! COUNT never NULL; exactly one row unless HAVING/LIMIT/OFFSET removes it; NULLs ignored by
//! SUM/AVG/MIN/MAX/COUNT(col).

use std::collections::{BTreeMap, HashSet};

use serde_json::{json, Value};
use vcore::report::Report;
use vcore::util::{multisets, par_map};
use vcore::val::NV;
use vibesql_ast::SelectStmt;

use crate::common::{self, nv, Obs};
use crate::refagg::{self, aggregate, arith, compare, Func, T3, V};

// ---------------------------------------------------------------------------------------------
// query family
// ---------------------------------------------------------------------------------------------

#[derive(Clone, Debug, PartialEq)]
pub enum Arg {
    Star,
    Col(usize),
    Mul,
    Add,
    /// a literal argument: `COUNT(1)` counts rows, `COUNT(NULL)` is always 0
    LitOne,
    LitNull,
}

#[derive(Clone, Debug, PartialEq)]
pub struct Agg {
    pub f: Func,
    pub arg: Arg,
}

#[derive(Clone, Debug)]
pub enum Atom {
    /// `col op lit` or (rev) `lit op col`
    Cmp { col: usize, op: &'static str, lit: V, rev: bool },
    Between { col: usize, lo: V, hi: V, sym: bool, neg: bool },
    /// `a op b`
    ColCol { op: &'static str },
    /// `a + 1 > 1`
    ExprCmp,
    /// `(x OR y)` — only generated below an AND (the gate looks at the top operator only)
    Or(Box<Atom>, Box<Atom>),
}

#[derive(Clone, Debug)]
pub enum Having {
    CountGt(i64),
    SumBIsNull,
    MinAEq0,
}

#[derive(Clone, Copy, Debug, PartialEq)]
pub enum Src {
    Table,
    /// `FROM t AS x`, columns qualified `x.a`
    Alias,
    /// `FROM v`, `CREATE VIEW v AS SELECT a, b FROM t`
    View,
    /// `WITH w AS (SELECT a, b FROM t) … FROM w`
    Cte,
}

#[derive(Clone, Debug)]
pub struct Q {
    pub src: Src,
    pub aggs: Vec<Agg>,
    pub wher: Vec<Atom>,
    pub having: Option<Having>,
    pub order: bool,
    pub limit: Option<usize>,
    pub offset: Option<usize>,
}

const COLS: [&str; 2] = ["a", "b"];

impl Q {
    fn col(&self, i: usize) -> String {
        if self.src == Src::Alias {
            format!("x.{}", COLS[i])
        } else {
            COLS[i].to_string()
        }
    }
    fn arg_sql(&self, a: &Arg) -> String {
        match a {
            Arg::Star => "*".into(),
            Arg::Col(i) => self.col(*i),
            Arg::Mul => format!("{} * {}", self.col(0), self.col(1)),
            Arg::Add => format!("{} + {}", self.col(0), self.col(1)),
            Arg::LitOne => "1".into(),
            Arg::LitNull => "NULL".into(),
        }
    }
    fn atom_sql(&self, a: &Atom) -> String {
        match a {
            Atom::Cmp { col, op, lit, rev: false } => format!("{} {} {}", self.col(*col), op, lit.sql()),
            Atom::Cmp { col, op, lit, rev: true } => format!("{} {} {}", lit.sql(), op, self.col(*col)),
            Atom::Between { col, lo, hi, sym, neg } => format!(
                "{} {}BETWEEN {}{} AND {}",
                self.col(*col),
                if *neg { "NOT " } else { "" },
                if *sym { "SYMMETRIC " } else { "" },
                lo.sql(),
                hi.sql()
            ),
            Atom::ColCol { op } => format!("{} {} {}", self.col(0), op, self.col(1)),
            Atom::ExprCmp => format!("{} + 1 > 1", self.col(0)),
            Atom::Or(x, y) => format!("({} OR {})", self.atom_sql(x), self.atom_sql(y)),
        }
    }
    pub fn sql(&self) -> String {
        let mut s = String::new();
        if self.src == Src::Cte {
            s.push_str("WITH w AS (SELECT a, b FROM t) ");
        }
        s.push_str("SELECT ");
        s.push_str(
            &self.aggs.iter().map(|g| format!("{}({})", g.f.name(), self.arg_sql(&g.arg))).collect::<Vec<_>>().join(", "),
        );
        s.push_str(match self.src {
            Src::Table => " FROM t",
            Src::Alias => " FROM t AS x",
            Src::View => " FROM v",
            Src::Cte => " FROM w",
        });
        if !self.wher.is_empty() {
            s.push_str(" WHERE ");
            s.push_str(&self.wher.iter().map(|a| self.atom_sql(a)).collect::<Vec<_>>().join(" AND "));
        }
        match &self.having {
            None => {}
            Some(Having::CountGt(k)) => s.push_str(&format!(" HAVING COUNT(*) > {}", k)),
            Some(Having::SumBIsNull) => s.push_str(&format!(" HAVING SUM({}) IS NULL", self.col(1))),
            Some(Having::MinAEq0) => s.push_str(&format!(" HAVING MIN({}) = 0", self.col(0))),
        }
        if self.order {
            s.push_str(" ORDER BY 1");
        }
        if let Some(l) = self.limit {
            s.push_str(&format!(" LIMIT {}", l));
        }
        if let Some(o) = self.offset {
            s.push_str(&format!(" OFFSET {}", o));
        }
        s
    }

    // ----- reference semantics ----------------------------------------------------------------

    fn atom_eval(a: &Atom, row: &[V]) -> T3 {
        match a {
            Atom::Cmp { col, op, lit, rev: false } => compare(&row[*col], op, lit),
            Atom::Cmp { col, op, lit, rev: true } => compare(lit, op, &row[*col]),
            Atom::Between { col, lo, hi, sym, neg } => {
                let x = &row[*col];
                let plain = |l: &V, h: &V| compare(x, ">=", l).and(compare(x, "<=", h));
                let mut t = plain(lo, hi);
                if *sym {
                    t = t.or(plain(hi, lo));
                }
                if *neg {
                    t.not()
                } else {
                    t
                }
            }
            Atom::ColCol { op } => compare(&row[0], op, &row[1]),
            Atom::ExprCmp => compare(&arith(&row[0], '+', &V::I(1)), ">", &V::I(1)),
            Atom::Or(x, y) => Self::atom_eval(x, row).or(Self::atom_eval(y, row)),
        }
    }
    fn arg_eval(a: &Arg, row: &[V]) -> V {
        match a {
            Arg::Star => V::I(1),
            Arg::Col(i) => row[*i].clone(),
            Arg::Mul => arith(&row[0], '*', &row[1]),
            Arg::Add => arith(&row[0], '+', &row[1]),
            Arg::LitOne => V::I(1),
            Arg::LitNull => V::Null,
        }
    }
    /// Rows the WHERE clause selects (TRUE only).
    fn selected<'a>(&self, rows: &'a [Vec<V>]) -> Vec<&'a Vec<V>> {
        rows.iter().filter(|r| self.wher.iter().fold(T3::True, |t, a| t.and(Self::atom_eval(a, r))) == T3::True).collect()
    }
    fn agg_inputs(&self, g: &Agg, sel: &[&Vec<V>]) -> Vec<V> {
        sel.iter().map(|r| Self::arg_eval(&g.arg, r)).collect()
    }
    /// The result by definition: the aggregate row (always computed) and the rows that remain
    /// after HAVING / OFFSET / LIMIT.
    pub fn reference(&self, rows: &[Vec<V>]) -> (Vec<V>, Vec<Vec<V>>) {
        let sel = self.selected(rows);
        let row: Vec<V> = self.aggs.iter().map(|g| aggregate(g.f, false, &self.agg_inputs(g, &sel))).collect();
        let keep = match &self.having {
            None => true,
            Some(Having::CountGt(k)) => sel.len() as i64 > *k,
            Some(Having::SumBIsNull) => {
                aggregate(Func::Sum, false, &sel.iter().map(|r| r[1].clone()).collect::<Vec<_>>()).is_null()
            }
            Some(Having::MinAEq0) => {
                let m = aggregate(Func::Min, false, &sel.iter().map(|r| r[0].clone()).collect::<Vec<_>>());
                compare(&m, "=", &V::I(0)) == T3::True
            }
        };
        let mut out = if keep { vec![row.clone()] } else { vec![] };
        if let Some(o) = self.offset {
            let o = o.min(out.len());
            out.drain(..o);
        }
        if let Some(l) = self.limit {
            out.truncate(l);
        }
        (row, out)
    }

    // ----- signature features (input only) ----------------------------------------------------

    fn agg_label(g: &Agg) -> String {
        let a = match g.arg {
            Arg::Star => "*",
            Arg::Col(_) => "col",
            Arg::Mul | Arg::Add => "expr",
            Arg::LitOne | Arg::LitNull => "literal",
        };
        format!("{}({})", g.f.name(), a)
    }
    /// Coarse class of the WHERE clause (what the columnar filter does with it).
    fn where_shape(&self) -> &'static str {
        fn atom(a: &Atom) -> &'static str {
            match a {
                Atom::Cmp { op: "<>", .. } => "fallback_not_equal",
                Atom::Cmp { lit: V::Null, .. } => "cmp_null_literal",
                Atom::Cmp { rev: true, .. } => "cmp_literal_first",
                Atom::Cmp { .. } => "cmp",
                Atom::Between { neg: true, .. } => "fallback_not_between",
                Atom::Between { sym: true, .. } => "between_symmetric",
                Atom::Between { lo, hi, .. } if lo.is_null() || hi.is_null() => "between_null_bound",
                Atom::Between { .. } => "between",
                Atom::ColCol { .. } | Atom::ExprCmp | Atom::Or(..) => "fallback_complex",
            }
        }
        match self.wher.len() {
            0 => "none",
            1 => atom(&self.wher[0]),
            _ => {
                if self.wher.iter().any(|a| atom(a).starts_with("fallback")) {
                    "and_fallback"
                } else {
                    "and"
                }
            }
        }
    }
    fn tail_shape(&self) -> &'static str {
        if self.having.is_some() {
            "having"
        } else if self.limit == Some(0) {
            "limit0"
        } else if self.offset.unwrap_or(0) > 0 {
            "offset"
        } else if self.limit.is_some() || self.offset.is_some() {
            "limit_keeps_row"
        } else if self.order {
            "order_by"
        } else {
            "none"
        }
    }
}

// column kinds -------------------------------------------------------------------------------

#[derive(Clone, Copy, Debug, PartialEq, Eq)]
pub enum Kind {
    Int,
    Dbl,
    Str,
    /// SMALLINT / BIGINT: integer domains (other SqlValue variants, other SIMD result types)
    Small,
    Big,
    /// REAL (stored as f32) / NUMERIC(10,2) (stored as f64 under its own variant): float domains
    Real,
    Num,
}

/// Which value domain a column ranges over.
#[derive(Clone, Copy, Debug, PartialEq, Eq)]
pub enum Dom {
    /// NULL,1,2 (strings NULL,'a','b')
    Three,
    /// NULL,0,1,2 (strings NULL,'a','b','ab')
    Four,
    /// Four + boundary values: i64::MAX, 2^53+1 (INT); 0.5, 2^53 (DOUBLE)
    Extended,
}

impl Kind {
    fn sql_type(self) -> &'static str {
        match self {
            Kind::Int => "INT",
            Kind::Dbl => "DOUBLE",
            Kind::Str => "VARCHAR(5)",
            Kind::Small => "SMALLINT",
            Kind::Big => "BIGINT",
            Kind::Real => "REAL",
            Kind::Num => "NUMERIC(10, 2)",
        }
    }
    fn domain(self, d: Dom) -> Vec<V> {
        match self {
            Kind::Int | Kind::Small | Kind::Big => match d {
                Dom::Three => vec![V::Null, V::I(1), V::I(2)],
                Dom::Four => vec![V::Null, V::I(0), V::I(1), V::I(2)],
                Dom::Extended => vec![V::Null, V::I(0), V::I(1), V::I(2), V::I(i64::MAX), V::I((1i64 << 53) + 1)],
            },
            Kind::Dbl | Kind::Real | Kind::Num => match d {
                Dom::Three => vec![V::Null, V::F(1.0), V::F(2.0)],
                Dom::Four => vec![V::Null, V::F(0.0), V::F(1.0), V::F(2.0)],
                Dom::Extended => vec![V::Null, V::F(0.0), V::F(1.0), V::F(2.0), V::F(0.5), V::F(9007199254740992.0)],
            },
            Kind::Str => match d {
                Dom::Three => vec![V::Null, V::S("a".into()), V::S("b".into())],
                _ => vec![V::Null, V::S("a".into()), V::S("b".into()), V::S("ab".into())],
            },
        }
    }
    fn is_num(self) -> bool {
        self != Kind::Str
    }
}

pub type TypeSet = [Kind; 2];

fn typeset_name(ts: &TypeSet) -> String {
    format!("{},{}", ts[0].sql_type(), ts[1].sql_type())
}

/// Size of the query family.
#[derive(Clone, Copy, Debug, PartialEq, Eq, PartialOrd, Ord)]
pub enum Level {
    Small,
    Core,
    Full,
}

/// Literal menu; positions 0..3 are fixed (0, 1, 2, NULL / 'a', 'ab', 'b', NULL).
fn lits(k: Kind, level: Level) -> Vec<V> {
    if k.is_num() {
        let mut l = vec![V::I(0), V::I(1), V::I(2), V::Null];
        if level == Level::Full {
            l.push(V::F(1.0));
            l.push(V::F(0.5));
        }
        l
    } else {
        vec![V::S("a".into()), V::S("ab".into()), V::S("b".into()), V::Null]
    }
}

fn q(aggs: Vec<Agg>, wher: Vec<Atom>) -> Q {
    Q { src: Src::Table, aggs, wher, having: None, order: false, limit: None, offset: None }
}

fn ag(f: Func, arg: Arg) -> Agg {
    Agg { f, arg }
}

const OPS: [&str; 6] = ["=", "<>", "<", "<=", ">", ">="];
const FIVE: [Func; 5] = [Func::Count, Func::Sum, Func::Avg, Func::Min, Func::Max];

/// Aggregates that are type-correct for the column kinds.
fn singles(ts: &TypeSet) -> Vec<Agg> {
    let mut out = vec![ag(Func::CountStar, Arg::Star), ag(Func::Count, Arg::LitOne), ag(Func::Count, Arg::LitNull)];
    for c in 0..2 {
        for f in FIVE {
            if ts[c].is_num() || matches!(f, Func::Count | Func::Min | Func::Max) {
                out.push(ag(f, Arg::Col(c)));
            }
        }
    }
    if ts[0].is_num() && ts[1].is_num() {
        for arg in [Arg::Mul, Arg::Add] {
            for f in FIVE {
                out.push(ag(f, arg.clone()));
            }
        }
    }
    out
}

fn atoms(ts: &TypeSet, level: Level) -> Vec<Atom> {
    let mut out = vec![];
    let revs: &[bool] = if level == Level::Small { &[false] } else { &[false, true] };
    for &rev in revs {
        for col in 0..2 {
            for op in OPS {
                let all = lits(ts[col], level);
                // Small: the middle literal only; Core: the middle literal and NULL; Full: all
                let menu: Vec<V> = match level {
                    Level::Small => vec![all[1].clone()],
                    Level::Core => vec![all[1].clone(), all[3].clone()],
                    Level::Full => all,
                };
                for lit in menu {
                    out.push(Atom::Cmp { col, op, lit, rev });
                }
            }
        }
    }
    if level == Level::Small {
        let l = lits(ts[0], level);
        out.push(Atom::Cmp { col: 0, op: "=", lit: V::Null, rev: false });
        out.push(Atom::Cmp { col: 1, op: "<=", lit: V::Null, rev: false });
        out.push(Atom::Cmp { col: 0, op: "<", lit: l[1].clone(), rev: true });
        out.push(Atom::Cmp { col: 0, op: ">=", lit: l[2].clone(), rev: true });
    }
    for col in 0..2 {
        let mut bounds: Vec<(V, V)> = if ts[col].is_num() {
            vec![
                (V::I(1), V::I(2)),
                (V::I(2), V::I(0)),
                (V::I(0), V::Null),
                (V::I(1), V::I(1)),
                (V::I(0), V::I(1)),
                (V::Null, V::I(1)),
                (V::F(0.5), V::F(1.5)),
            ]
        } else {
            vec![(V::S("a".into()), V::S("ab".into())), (V::S("b".into()), V::S("a".into())), (V::S("a".into()), V::Null)]
        };
        match level {
            Level::Small => bounds.truncate(2),
            Level::Core => bounds.truncate(4),
            Level::Full => {}
        }
        for (lo, hi) in bounds {
            for (sym, neg) in [(false, false), (true, false), (false, true)] {
                out.push(Atom::Between { col, lo: lo.clone(), hi: hi.clone(), sym, neg });
            }
        }
    }
    out
}

fn and_pairs(ts: &TypeSet, level: Level) -> Vec<Vec<Atom>> {
    let menu = |col: usize| -> Vec<Atom> {
        let l = lits(ts[col], level);
        vec![
            Atom::Cmp { col, op: "=", lit: l[1].clone(), rev: false },
            Atom::Cmp { col, op: ">=", lit: l[1].clone(), rev: false },
            Atom::Cmp { col, op: "<", lit: l[2].clone(), rev: false },
            Atom::Cmp { col, op: "<=", lit: l[0].clone(), rev: true },
            Atom::Cmp { col, op: "<>", lit: l[0].clone(), rev: false },
            Atom::Between { col, lo: l[0].clone(), hi: l[1].clone(), sym: false, neg: false },
        ]
    };
    let (a, b) = (menu(0), menu(1));
    let mut out = vec![];
    let k = match level {
        Level::Small => 1,
        Level::Core => 3,
        Level::Full => 6,
    };
    for x in a.iter().take(k) {
        for y in b.iter().take(k) {
            out.push(vec![x.clone(), y.clone()]);
        }
    }
    // same column twice, three conjuncts, an OR below the AND
    out.push(vec![b[1].clone(), b[2].clone()]);
    out.push(vec![a[1].clone(), b[1].clone(), b[2].clone()]);
    out.push(vec![Atom::Or(Box::new(a[0].clone()), Box::new(b[0].clone())), a[2].clone()]);
    if level != Level::Small {
        out.push(vec![a[1].clone(), a[2].clone()]);
        out.push(vec![a[2].clone(), Atom::Or(Box::new(a[0].clone()), Box::new(b[0].clone()))]);
    }
    out
}

/// The query family for one type set at one level, simplest first. Small ⊂ Core ⊂ Full in
/// spirit (same construction, smaller menus).
pub fn family(ts: &TypeSet, level: Level) -> Vec<Q> {
    let num = ts[0].is_num() && ts[1].is_num();
    let l = |c: usize, i: usize| lits(ts[c], level)[i].clone();
    let w_b_ge = vec![Atom::Cmp { col: 1, op: ">=", lit: l(1, 1), rev: false }];
    let w_a_eq = vec![Atom::Cmp { col: 0, op: "=", lit: l(0, 1), rev: false }];
    let mut out: Vec<Q> = vec![];

    // F1: select lists (singles; pairs from Core up) × two or three WHERE clauses
    let s = singles(ts);
    let mut lists: Vec<Vec<Agg>> = s.iter().map(|g| vec![g.clone()]).collect();
    for x in &s {
        for y in &s {
            let star = x.f == Func::CountStar || y.f == Func::CountStar;
            let cols = matches!((&x.arg, &y.arg), (Arg::Col(_), Arg::Col(_)));
            let keep = match level {
                Level::Small => x.f == Func::CountStar && matches!(y.arg, Arg::Col(1)),
                Level::Core => star || cols,
                Level::Full => true,
            };
            if x != y && keep {
                lists.push(vec![x.clone(), y.clone()]);
            }
        }
    }
    // triples over one column (+ COUNT(*)), in every order: an implementation may derive a later
    // aggregate from earlier results of the same list (AVG from SUM and a COUNT, COUNT(c) from COUNT(*))
    for c in 0..2 {
        let mut set: Vec<Agg> = vec![ag(Func::CountStar, Arg::Star)];
        for f in FIVE {
            if ts[c].is_num() || matches!(f, Func::Count | Func::Min | Func::Max) {
                set.push(ag(f, Arg::Col(c)));
            }
        }
        for (i, x) in set.iter().enumerate() {
            for (j, y) in set.iter().enumerate() {
                for (k, z) in set.iter().enumerate() {
                    if i == j || j == k || i == k {
                        continue;
                    }
                    let keep = match level {
                        // Small: the lists that end in AVG or COUNT(col) of the second column
                        Level::Small => c == 1 && matches!(z.f, Func::Avg | Func::Count) && (x.f == Func::CountStar || y.f == Func::CountStar),
                        _ => true,
                    };
                    if keep {
                        lists.push(vec![x.clone(), y.clone(), z.clone()]);
                    }
                }
            }
        }
    }
    let f1_wheres: Vec<Vec<Atom>> =
        if level == Level::Full { vec![vec![], w_b_ge.clone(), w_a_eq.clone()] } else { vec![vec![], w_b_ge.clone()] };
    for aggs in &lists {
        for w in &f1_wheres {
            out.push(q(aggs.clone(), w.clone()));
        }
    }

    // F2: every WHERE shape × a few select lists
    let mut few: Vec<Vec<Agg>> = vec![vec![ag(Func::CountStar, Arg::Star), ag(Func::Max, Arg::Col(1))]];
    if level >= Level::Core {
        few.push(vec![ag(Func::Count, Arg::Col(0))]);
        if num {
            few.push(vec![ag(Func::Sum, Arg::Col(0)), ag(Func::Avg, Arg::Col(1))]);
        } else {
            few.push(vec![ag(Func::Min, Arg::Col(0)), ag(Func::Max, Arg::Col(1))]);
        }
    }
    if level == Level::Full {
        few.push(vec![ag(Func::CountStar, Arg::Star)]);
        few.push(vec![ag(Func::Min, Arg::Col(0)), ag(Func::Max, Arg::Col(1))]);
        if num {
            few.push(vec![ag(Func::Sum, Arg::Mul)]);
        }
    }
    let mut wheres: Vec<Vec<Atom>> = atoms(ts, level).into_iter().map(|a| vec![a]).collect();
    wheres.extend(and_pairs(ts, level));
    if num {
        let ops: &[&'static str] = if level == Level::Small { &["<"] } else { &["=", "<", ">="] };
        for op in ops {
            wheres.push(vec![Atom::ColCol { op }]);
        }
        wheres.push(vec![Atom::ExprCmp]);
    }
    for aggs in &few {
        for w in &wheres {
            out.push(q(aggs.clone(), w.clone()));
        }
    }

    // F3: tails
    let mut tail_lists: Vec<Vec<Agg>> = vec![vec![ag(Func::CountStar, Arg::Star), ag(Func::Min, Arg::Col(0))]];
    if level >= Level::Core {
        tail_lists.push(vec![ag(Func::CountStar, Arg::Star)]);
    }
    if level == Level::Full && num {
        tail_lists.push(vec![ag(Func::Sum, Arg::Col(1))]);
    }
    let mut havings = vec![None, Some(Having::CountGt(1))];
    if num {
        havings.push(Some(Having::SumBIsNull));
    }
    if level >= Level::Core {
        havings.push(Some(Having::CountGt(0)));
        havings.push(Some(Having::CountGt(100)));
        if num {
            havings.push(Some(Having::MinAEq0));
        }
    }
    let tail_wheres: Vec<Vec<Atom>> = if level == Level::Small { vec![vec![]] } else { vec![vec![], w_b_ge.clone()] };
    let orders: &[bool] = if level == Level::Small { &[false] } else { &[false, true] };
    let limits: &[Option<usize>] = if level == Level::Small { &[None, Some(0)] } else { &[None, Some(0), Some(1)] };
    let offsets: &[Option<usize>] = if level == Level::Full { &[None, Some(0), Some(1)] } else { &[None, Some(1)] };
    for aggs in &tail_lists {
        for w in &tail_wheres {
            for h in &havings {
                for &order in orders {
                    for &limit in limits {
                        for &offset in offsets {
                            if h.is_none() && !order && limit.is_none() && offset.is_none() {
                                continue; // already in F1/F2
                            }
                            out.push(Q { src: Src::Table, aggs: aggs.clone(), wher: w.clone(), having: h.clone(), order, limit, offset });
                        }
                    }
                }
            }
        }
    }
    if level == Level::Small {
        out.push(Q { src: Src::Table, aggs: tail_lists[0].clone(), wher: vec![], having: None, order: true, limit: Some(1), offset: None });
    }

    // F4: the same table reached through an alias, a view, a CTE
    for src in [Src::Alias, Src::View, Src::Cte] {
        for aggs in &few {
            let ws: Vec<Vec<Atom>> = match level {
                Level::Small => vec![w_b_ge.clone()],
                Level::Core => vec![vec![], w_b_ge.clone()],
                Level::Full => vec![vec![], w_b_ge.clone(), w_a_eq.clone()],
            };
            for w in ws {
                let lims: &[Option<usize>] = if level == Level::Small { &[None] } else { &[None, Some(0)] };
                for &limit in lims {
                    out.push(Q { src, aggs: aggs.clone(), wher: w.clone(), having: None, order: false, limit, offset: None });
                }
            }
        }
    }
    out
}

// ---------------------------------------------------------------------------------------------
// databases
// ---------------------------------------------------------------------------------------------

fn row_kinds(ts: &TypeSet, d: Dom) -> Vec<Vec<V>> {
    let mut out = vec![];
    for x in ts[0].domain(d) {
        for y in ts[1].domain(d) {
            out.push(vec![x.clone(), y.clone()]);
        }
    }
    out
}

/// Which row lists of which sizes.
#[derive(Clone, Copy, Debug, PartialEq, Eq)]
pub enum Rows {
    /// all row sequences of length lo..=hi (order matters to the columnar path)
    Sequences(usize, usize),
    /// all row multisets of size exactly k, inserted ascending and descending
    MultisetsBothOrders(usize),
    /// all row multisets of size exactly k, inserted ascending
    Multisets(usize),
    /// tables of 1023 / 1024 / 1025 / 2048 rows around the 1024-value batch size of the vectorised
    /// aggregates: column a never NULL, column b NULL from row 1024 on (so b has exactly 1024 values)
    BatchBoundary,
}

fn databases(ts: &TypeSet, d: Dom, r: Rows) -> Vec<Vec<Vec<V>>> {
    let kinds = row_kinds(ts, d);
    let mut out: Vec<Vec<Vec<V>>> = vec![];
    match r {
        Rows::Sequences(lo, hi) => {
            for len in lo..=hi {
                for s in common::sequences(kinds.len(), len) {
                    out.push(s.iter().map(|&i| kinds[i].clone()).collect());
                }
            }
        }
        Rows::BatchBoundary => {
            let va: Vec<V> = ts[0].domain(d).into_iter().filter(|v| !v.is_null()).collect();
            let vb: Vec<V> = ts[1].domain(d).into_iter().filter(|v| !v.is_null()).collect();
            for n in [1023usize, 1024, 1025, 2048] {
                out.push((0..n).map(|i| vec![va[i % va.len()].clone(), if i < 1024 { vb[(i / 2) % vb.len()].clone() } else { V::Null }]).collect());
            }
        }
        Rows::MultisetsBothOrders(k) | Rows::Multisets(k) => {
            for m in multisets(kinds.len(), k) {
                let asc: Vec<Vec<V>> = m.iter().map(|&i| kinds[i].clone()).collect();
                let mut desc = asc.clone();
                desc.reverse();
                let both = matches!(r, Rows::MultisetsBothOrders(_)) && desc != asc;
                out.push(asc);
                if both {
                    out.push(desc);
                }
            }
        }
    }
    out
}

/// One block of the exploration: type sets × a family level × a set of databases.
struct Block {
    typesets: Vec<TypeSet>,
    level: Level,
    dom: Dom,
    rows: Rows,
}

const II: TypeSet = [Kind::Int, Kind::Int];
const DD: TypeSet = [Kind::Dbl, Kind::Dbl];
const ID: TypeSet = [Kind::Int, Kind::Dbl];
const DI: TypeSet = [Kind::Dbl, Kind::Int];
const SI: TypeSet = [Kind::Str, Kind::Int];
const IS: TypeSet = [Kind::Int, Kind::Str];
const SB: TypeSet = [Kind::Small, Kind::Big];
const BS: TypeSet = [Kind::Big, Kind::Small];
const RN: TypeSet = [Kind::Real, Kind::Num];
const NR: TypeSet = [Kind::Num, Kind::Real];

fn plan(thorough: bool) -> Vec<Block> {
    if !thorough {
        vec![
            Block { typesets: vec![II, ID], level: Level::Core, dom: Dom::Three, rows: Rows::Sequences(0, 2) },
            Block { typesets: vec![DD, SI, IS, SB, RN], level: Level::Small, dom: Dom::Three, rows: Rows::Sequences(0, 2) },
            Block { typesets: vec![II, DD], level: Level::Small, dom: Dom::Three, rows: Rows::BatchBoundary },
        ]
    } else {
        vec![
            Block { typesets: vec![II, DD, ID, DI, SI, IS], level: Level::Full, dom: Dom::Four, rows: Rows::Sequences(0, 2) },
            Block { typesets: vec![II, DD, ID, DI, SI, IS], level: Level::Core, dom: Dom::Four, rows: Rows::MultisetsBothOrders(3) },
            Block { typesets: vec![SB, BS, RN, NR], level: Level::Core, dom: Dom::Four, rows: Rows::Sequences(0, 2) },
            Block { typesets: vec![II, DD, ID, DI], level: Level::Small, dom: Dom::Four, rows: Rows::Multisets(4) },
            Block { typesets: vec![II, DD, ID, DI], level: Level::Small, dom: Dom::Extended, rows: Rows::Sequences(1, 2) },
            Block { typesets: vec![II, DD, ID, DI], level: Level::Core, dom: Dom::Four, rows: Rows::BatchBoundary },
        ]
    }
}

fn setup_sql(ts: &TypeSet, rows: &[Vec<V>]) -> Vec<String> {
    let mut s = common::table_sql("t", &[("a", ts[0].sql_type()), ("b", ts[1].sql_type())], rows);
    s.push("CREATE VIEW v AS SELECT a, b FROM t".into());
    s
}

/// Do the rows hold a number of magnitude 2^53 or more (where f64 stops representing every integer)?
fn magnitude_class(rows: &[Vec<V>]) -> &'static str {
    let big = rows.iter().flatten().any(|v| match v {
        V::I(i) => i.unsigned_abs() >= (1u64 << 53),
        V::F(f) => f.abs() >= 9007199254740992.0,
        _ => false,
    });
    if big {
        "2^53_or_more"
    } else {
        "small"
    }
}

fn data_class(rows: &[Vec<V>]) -> &'static str {
    if rows.is_empty() {
        "empty"
    } else if rows.iter().any(|r| r[0].is_null()) {
        "null_in_first_column"
    } else if rows.iter().any(|r| r[1].is_null()) {
        "null_in_second_column"
    } else {
        "no_nulls"
    }
}

// ---------------------------------------------------------------------------------------------
// the check
// ---------------------------------------------------------------------------------------------

/// At most this many new violation signatures are written out in detail per run (simplest
/// first); further ones are counted. Signatures of open known findings are never cut.
const MAX_REPORTED: usize = 40;

struct Fail {
    sig: Vec<(&'static str, String)>,
    key: String,
    what: String,
    case: Value,
    oracle: &'static str,
    rows: Vec<Vec<V>>,
    qu: Q,
}

#[derive(Default)]
struct Counters {
    evaluations: u64,
    both_reject: u64,
    columnar_cases: u64,
    columnar_empty_input: u64,
    columnar_filter_bitmap: u64,
    columnar_simd_i64: u64,
    columnar_simd_f64: u64,
    columnar_scalar: u64,
    columnar_expression: u64,
    having_removed: u64,
    limit_removed: u64,
    ok_rows: u64,
    errs: u64,
    ref_mismatch_outside_laws: u64,
    outcomes: HashSet<u64>,
    fails: Vec<Fail>,
    seen: HashSet<String>,
    failing: u64,
}

impl Counters {
    fn absorb(&mut self, c: Counters) {
        self.evaluations += c.evaluations;
        self.both_reject += c.both_reject;
        self.columnar_cases += c.columnar_cases;
        self.columnar_empty_input += c.columnar_empty_input;
        self.columnar_filter_bitmap += c.columnar_filter_bitmap;
        self.columnar_simd_i64 += c.columnar_simd_i64;
        self.columnar_simd_f64 += c.columnar_simd_f64;
        self.columnar_scalar += c.columnar_scalar;
        self.columnar_expression += c.columnar_expression;
        self.having_removed += c.having_removed;
        self.limit_removed += c.limit_removed;
        self.ok_rows += c.ok_rows;
        self.errs += c.errs;
        self.ref_mismatch_outside_laws += c.ref_mismatch_outside_laws;
        self.failing += c.failing;
        self.outcomes.extend(c.outcomes);
        for f in c.fails {
            if self.seen.insert(f.key.clone()) {
                self.fails.push(f);
            }
        }
    }
}

fn case_json(ts: &TypeSet, rows: &[Vec<V>], qu: &Q, expected: &[Vec<V>]) -> Value {
    json!({
        "kind": "c03",
        "types": typeset_name(ts),
        "steps": setup_sql(ts, rows),
        "query": qu.sql(),
        "expected_by_definition": fmt_ref(expected),
        "note": "run the query as shipped and with the columnar gate forced off (vibesql_types::verif::set_columnar_off)",
    })
}

fn fmt_ref(rows: &[Vec<V>]) -> String {
    vcore::val::fmt_bag(&rows.iter().map(|r| r.iter().map(nv).collect()).collect::<Vec<Vec<NV>>>())
}

/// One failed oracle on one case: (oracle, the aggregate(s) concerned, description).
type Verdict = (&'static str, String, String);

/// Decide one (database, query) case.
fn judge(qu: &Q, rows: &[Vec<V>], on: &Obs, off: &Obs, c: &mut Counters) -> Vec<Verdict> {
    let mut out: Vec<Verdict> = vec![];
    let (agg_row, expect) = qu.reference(rows);
    let all = || qu.aggs.iter().map(Q::agg_label).collect::<Vec<_>>().join(",");
    match (on, off) {
        (Obs::Panic, _) => out.push(("panic", all(), "the shipped configuration panicked".to_string())),
        (_, Obs::Panic) => out.push(("panic_row_path", all(), "row execution (gate off) panicked".to_string())),
        (Obs::Err, Obs::Err) => {
            c.both_reject += 1;
            return out;
        }
        (Obs::Err, Obs::Rows(r)) => out.push((
            "columnar_rejects",
            all(),
            format!("row execution returns {} but the shipped configuration returns an error", vcore::val::fmt_bag(r)),
        )),
        (Obs::Rows(r), Obs::Err) => out.push((
            "row_path_rejects",
            all(),
            format!("row execution returns an error but the shipped configuration returns {}", vcore::val::fmt_bag(r)),
        )),
        (Obs::Rows(a), Obs::Rows(b)) => {
            if a != b {
                // which aggregates differ (row count differences are named as such)
                let label = if a.len() != b.len() {
                    "row_count".to_string()
                } else {
                    let mut l: Vec<String> = vec![];
                    for (ra, rb) in a.iter().zip(b.iter()) {
                        for (i, g) in qu.aggs.iter().enumerate() {
                            if ra.get(i) != rb.get(i) && !l.contains(&Q::agg_label(g)) {
                                l.push(Q::agg_label(g));
                            }
                        }
                    }
                    l.join(",")
                };
                out.push((
                    "path_differential",
                    label,
                    format!(
                        "shipped configuration returns {} but row execution (gate off) returns {}; by definition {}",
                        vcore::val::fmt_bag(a),
                        vcore::val::fmt_bag(b),
                        fmt_ref(&expect)
                    ),
                ));
            }
        }
    }
    if let Obs::Rows(a) = on {
        // law 1: COUNT is never NULL
        for r in a {
            for (i, g) in qu.aggs.iter().enumerate() {
                if matches!(g.f, Func::Count | Func::CountStar) && r.get(i) == Some(&NV::Null) {
                    out.push(("law_count_never_null", Q::agg_label(g), format!("COUNT column {} is NULL in {}", i + 1, vcore::val::fmt_bag(a))));
                }
            }
        }
        // law 2: exactly one row unless HAVING / LIMIT / OFFSET removes it
        if a.len() != expect.len() {
            out.push((
                "law_one_row_unless_removed",
                "row_count".into(),
                format!("{} row(s) returned, {} expected (HAVING/LIMIT/OFFSET by definition): {}", a.len(), expect.len(), vcore::val::fmt_bag(a)),
            ));
        }
        // law 3: NULLs are ignored by SUM/AVG/MIN/MAX/COUNT(col)
        if let (Some(r), true) = (a.first(), a.len() == 1 && expect.len() == 1) {
            let sel = qu.selected(rows);
            let mut outside = false;
            for (i, g) in qu.aggs.iter().enumerate() {
                if r.get(i) == Some(&nv(&agg_row[i])) {
                    continue;
                }
                let has_null = g.f != Func::CountStar && qu.agg_inputs(g, &sel).iter().any(|v| v.is_null());
                if has_null {
                    out.push((
                        "law_nulls_ignored",
                        Q::agg_label(g),
                        format!(
                            "{}({}) over inputs containing NULL is {} but {} by definition",
                            g.f.name(),
                            qu.arg_sql(&g.arg),
                            r.get(i).map(vcore::val::fmt_nv).unwrap_or_default(),
                            vcore::val::fmt_nv(&nv(&agg_row[i]))
                        ),
                    ));
                } else {
                    outside = true;
                }
            }
            if outside && on == off {
                // both paths agree with each other and differ from the definition on NULL-free
                // inputs: not something C03 states; counted and shown, decided by C07/C01
                c.ref_mismatch_outside_laws += 1;
            }
        }
    }
    out
}

fn hash_obs(o: &Obs) -> u64 {
    vcore::util::hash64(format!("{:?}", o).as_bytes())
}

fn types_class(ts: &TypeSet) -> &'static str {
    match (ts[0], ts[1]) {
        (Kind::Int, Kind::Int) => "int",
        (Kind::Dbl, Kind::Dbl) => "double",
        (Kind::Str, _) => "string_first",
        (_, Kind::Str) => "string_second",
        (Kind::Small, _) | (_, Kind::Small) | (Kind::Big, _) | (_, Kind::Big) => "smallint_bigint",
        (Kind::Real, _) | (_, Kind::Real) | (Kind::Num, _) | (_, Kind::Num) => "real_numeric",
        _ => "int_double_mixed",
    }
}

pub fn run(tier: &str) -> i32 {
    let thorough = tier == "thorough";
    let mut rep = Report::new("C03", tier, "model_checking");
    let blocks = plan(thorough);

    let mut total = Counters::default();
    let mut per_block = vec![];
    let mut queries_total = 0usize;
    let mut dbs_total = 0usize;
    let mut columnar_queries_total = 0usize;
    let mut vacuous: Vec<String> = vec![];
    let mut samples: Vec<Value> = vec![];

    for (bi, block) in blocks.iter().enumerate() {
      for ts in &block.typesets {
        let fam = family(ts, block.level);
        // parse once; a family member the parser rejects is a machinery error (never a verdict)
        let mut stmts: Vec<SelectStmt> = Vec::with_capacity(fam.len());
        for qu in &fam {
            match common::parse_select(&qu.sql()) {
                Ok(s) => stmts.push(s),
                Err(e) => {
                    rep.machinery_error(format!("family query does not parse: {} => {}", qu.sql(), e));
                    return rep.finish();
                }
            }
        }
        // sequential pre-pass: which queries go through execute_columnar (depends on query and
        // schema only, not on the data)
        let probe_rows = vec![vec![ts[0].domain(Dom::Three)[1].clone(), ts[1].domain(Dom::Three)[1].clone()]];
        let probe_db = match common::build_db(&setup_sql(ts, &probe_rows)) {
            Ok(d) => d,
            Err((s, o)) => {
                rep.machinery_error(format!("setup rejected: {} => {}", s, o));
                return rep.finish();
            }
        };
        let columnar: Vec<bool> = stmts.iter().map(|s| common::takes_columnar(&probe_db, s)).collect();
        let n_col = columnar.iter().filter(|b| **b).count();
        columnar_queries_total += n_col;
        queries_total += fam.len();

        let dbs = databases(ts, block.dom, block.rows);
        dbs_total += dbs.len();

        let results: Vec<Result<Counters, String>> = par_map(&dbs, |_, rows| {
            let mut c = Counters::default();
            let db = match common::build_db(&setup_sql(ts, rows)) {
                Ok(d) => d,
                Err((s, o)) => return Err(format!("setup rejected: {} => {}", s, o)),
            };
            for (qi, qu) in fam.iter().enumerate() {
                let (on, on_msg) = common::run(&db, &stmts[qi], false);
                let (off, off_msg) = common::run(&db, &stmts[qi], true);
                c.evaluations += 1;
                c.outcomes.insert(hash_obs(&on));
                match &on {
                    Obs::Rows(_) => c.ok_rows += 1,
                    _ => c.errs += 1,
                }
                if columnar[qi] {
                    c.columnar_cases += 1;
                    if rows.is_empty() {
                        c.columnar_empty_input += 1;
                    }
                    if !qu.wher.is_empty() {
                        c.columnar_filter_bitmap += 1;
                    }
                    for g in &qu.aggs {
                        match &g.arg {
                            Arg::Mul | Arg::Add | Arg::LitOne | Arg::LitNull => c.columnar_expression += 1,
                            Arg::Star | Arg::Col(_) => {
                                let ci = if let Arg::Col(i) = g.arg { i } else { 0 };
                                match rows.iter().map(|r| &r[ci]).find(|v| !v.is_null()) {
                                    Some(V::I(_)) => c.columnar_simd_i64 += 1,
                                    Some(V::F(_)) => c.columnar_simd_f64 += 1,
                                    _ => c.columnar_scalar += 1,
                                }
                            }
                        }
                    }
                }
                let (_, expect) = qu.reference(rows);
                if expect.is_empty() {
                    if qu.having.is_some() && qu.limit != Some(0) && qu.offset.unwrap_or(0) == 0 {
                        c.having_removed += 1;
                    } else {
                        c.limit_removed += 1;
                    }
                }
                let fails = judge(qu, rows, &on, &off, &mut c);
                for (oracle, agg, what) in fails {
                    c.failing += 1;
                    let sig = vec![
                        ("oracle", oracle.to_string()),
                        ("agg", agg),
                        ("where", qu.where_shape().to_string()),
                        ("tail", qu.tail_shape().to_string()),
                        ("src", format!("{:?}", qu.src).to_lowercase()),
                        ("types", types_class(ts).to_string()),
                        ("data", data_class(rows).to_string()),
                        ("magnitude", magnitude_class(rows).to_string()),
                    ];
                    let key = format!("{:?}", sig);
                    if !c.seen.insert(key.clone()) {
                        continue;
                    }
                    let msgs = if on_msg.is_empty() && off_msg.is_empty() {
                        String::new()
                    } else {
                        format!(" [shipped: {} | gate off: {}]", on_msg, off_msg)
                    };
                    c.fails.push(Fail {
                        sig,
                        key,
                        what: format!("{} on ({}) rows {}: {}{}", qu.sql(), typeset_name(ts), fmt_ref(rows), what, msgs),
                        case: case_json(ts, rows, qu, &expect),
                        oracle,
                        rows: rows.clone(),
                        qu: qu.clone(),
                    });
                }
            }
            Ok(c)
        });

        let mut tsc = Counters::default();
        for r in results {
            match r {
                Err(e) => rep.machinery_error(e),
                Ok(c) => tsc.absorb(c),
            }
        }
        per_block.push(json!({
            "block": bi, "types": typeset_name(ts), "family_level": format!("{:?}", block.level),
            "domain": format!("{:?}", block.dom), "rows": format!("{:?}", block.rows),
            "queries": fam.len(), "queries_through_columnar": n_col,
            "databases": dbs.len(), "evaluations": tsc.evaluations, "columnar_cases": tsc.columnar_cases,
            "failing_cases": tsc.failing,
        }));
        if n_col == 0 {
            vacuous.push(format!("columnar_taken[{}]", typeset_name(ts)));
        }
        if samples.len() < 8 {
            let qi = (fam.len() / 3 + samples.len() * 7) % fam.len();
            samples.push(json!({"types": typeset_name(ts), "setup": setup_sql(ts, &dbs[dbs.len() / 2]), "query": fam[qi].sql(), "through_columnar": columnar[qi]}));
        }
        total.absorb(tsc);
      }
    }

    // Known open findings are matched here as well (read-only), so that the cut below never hides
    // one of them and never hides a new signature behind them.
    let findings = vcore::report::load_findings("C03");
    let is_known = |f: &Fail| findings.iter().any(|k| k.sig.iter().all(|(key, want)| f.sig.iter().any(|(a, b)| a == key && b == want)));
    let mut new_kept = 0usize;
    let mut cut = 0usize;
    let mut confirmed: Vec<Fail> = vec![];
    // every reported first witness is re-executed twice from scratch before it is reported
    for f in std::mem::take(&mut total.fails) {
        if !is_known(&f) {
            if new_kept >= MAX_REPORTED {
                cut += 1;
                continue;
            }
            new_kept += 1;
        }
        let again = |f: &Fail| -> Result<(Obs, Obs, bool), String> {
            let (on, off) = reexecute(&f.case)?;
            let mut scratch = Counters::default();
            let still = judge(&f.qu, &f.rows, &on, &off, &mut scratch).iter().any(|(o, _, _)| *o == f.oracle);
            Ok((on, off, still))
        };
        match (again(&f), again(&f)) {
            (Ok(x), Ok(y)) if x == y => {
                if x.2 {
                    confirmed.push(f);
                } else {
                    rep.machinery_error(format!("violation did not reproduce from scratch: {}", f.what));
                }
            }
            (Ok(x), Ok(y)) => rep.machinery_error(format!("re-execution is not deterministic: {:?} vs {:?} for {}", x, y, f.what)),
            (Err(e), _) | (_, Err(e)) => rep.machinery_error(format!("re-execution failed: {} for {}", e, f.what)),
        }
    }
    // `failing` counts (case, oracle) pairs; merge keeps the first witness per signature
    let n_fail = total.failing;
    let vs: Vec<vcore::report::Violation> = confirmed
        .into_iter()
        .map(|f| vcore::report::Violation {
            sig: f.sig.iter().map(|(k, v)| (k.to_string(), v.clone())).collect::<BTreeMap<_, _>>(),
            what: f.what,
            case: f.case,
        })
        .collect();
    rep.merge_violations(vs, n_fail);

    let (reach, _) = vcore::report::reach_json(&["columnar_taken"]);
    rep.set("states", json!(dbs_total));
    rep.set("transitions", json!(total.evaluations * 2));
    rep.set("traces_validated_against_impl", json!(total.evaluations * 2));
    rep.set("evaluations", json!(total.evaluations));
    rep.set("distinct_nontrivial", json!(total.outcomes.len()));
    rep.set("exhaustive", json!(true));
    rep.set(
        "bounds",
        json!({
            "blocks": blocks.iter().map(|b| json!({
                "type_sets": b.typesets.iter().map(typeset_name).collect::<Vec<_>>(),
                "family_level": format!("{:?}", b.level), "domain": format!("{:?}", b.dom), "rows": format!("{:?}", b.rows),
            })).collect::<Vec<_>>(),
            "domains": "Three = NULL,1,2 (strings NULL,'a','b'); Four = NULL,0,1,2 (strings + 'ab'); Extended = Four + i64::MAX, 2^53+1 (INT) / 0.5, 2^53 (DOUBLE)",
            "queries_all_blocks": queries_total,
            "queries_through_columnar_all_blocks": columnar_queries_total,
            "databases": dbs_total,
        }),
    );
    rep.set("per_block", json!(per_block));
    rep.set("distinct_outcomes", json!(total.outcomes.len()));
    rep.set("ok_results", json!(total.ok_rows));
    rep.set("error_results", json!(total.errs));
    rep.set("cases_both_paths_reject", json!(total.both_reject));
    rep.set(
        "reach",
        json!({
            "columnar_taken_hook_total": reach.get("columnar_taken").cloned().unwrap_or(json!(0)),
            "cases_through_execute_columnar": total.columnar_cases,
            "columnar_empty_input_early_return": total.columnar_empty_input,
            "columnar_with_filter_bitmap": total.columnar_filter_bitmap,
            "aggregates_simd_i64": total.columnar_simd_i64,
            "aggregates_simd_f64": total.columnar_simd_f64,
            "aggregates_scalar_fallback": total.columnar_scalar,
            "aggregates_over_expression": total.columnar_expression,
            "cases_removed_by_having": total.having_removed,
            "cases_removed_by_limit_offset": total.limit_removed,
        }),
    );
    rep.set("reference_mismatch_outside_stated_laws", json!(total.ref_mismatch_outside_laws));
    rep.set("violation_signatures_not_written_out", json!(cut));
    rep.set("vacuous_mechanisms", json!(vacuous));
    rep.set("samples", json!(samples));
    rep.assume("row execution (gate forced off through vibesql_types::verif) is the oracle for value equality; the three stated laws are decided against definitions in harness/agg/src/refagg.rs");
    rep.assume("PARALLEL_THRESHOLD=max (sequential operators); C04 covers the parallel configurations");
    println!(
        "C03 {}: {} databases × family = {} evaluations (each on both paths), {} through execute_columnar, {} distinct outcomes, {} ok / {} error results, {} failing (case, oracle) pairs",
        tier, dbs_total, total.evaluations, total.columnar_cases, total.outcomes.len(), total.ok_rows, total.errs, n_fail
    );
    if cut > 0 {
        println!("note: {} further violation signatures were counted but not written out (limit {})", cut, MAX_REPORTED);
    }
    if total.ref_mismatch_outside_laws > 0 {
        println!("note: {} cases where both paths agree but differ from the definition on NULL-free inputs (outside C03's statement)", total.ref_mismatch_outside_laws);
    }
    for v in &vacuous {
        println!("WARNING vacuous mechanism: {}", v);
    }
    rep.finish()
}

/// Re-execute a recorded case from scratch: (shipped, gate off) observations.
fn reexecute(case: &Value) -> Result<(Obs, Obs), String> {
    let steps: Vec<String> =
        case["steps"].as_array().ok_or("case without steps")?.iter().filter_map(|s| s.as_str().map(|x| x.to_string())).collect();
    let db = common::build_db(&steps).map_err(|(s, o)| format!("{} => {}", s, o))?;
    let stmt = common::parse_select(case["query"].as_str().ok_or("case without query")?)?;
    let (on, _) = common::run(&db, &stmt, false);
    let (off, _) = common::run(&db, &stmt, true);
    Ok((on, off))
}

pub fn replay(case: &Value) -> i32 {
    if let Some(steps) = case["steps"].as_array() {
        for s in steps {
            println!("{}", s.as_str().unwrap_or(""));
        }
    }
    println!("{}", case["query"].as_str().unwrap_or(""));
    match reexecute(case) {
        Err(e) => {
            eprintln!("MACHINERY-ERROR replay failed: {}", e);
            2
        }
        Ok((on, off)) => {
            let want = case["expected_by_definition"].as_str().unwrap_or("?");
            println!("   shipped configuration => {}", on.brief());
            println!("   columnar gate off      => {}", off.brief());
            println!("   by definition          => {}", want);
            if on != off || on.brief() != want {
                println!("REPRODUCED");
                1
            } else {
                println!("not reproduced (all three agree)");
                0
            }
        }
    }
}
