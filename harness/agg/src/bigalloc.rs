//! Global allocator of the harness binary: the system allocator, except that blocks of exactly
//! 10 MiB come from a small pool of anonymous mappings.
//!
//! Why: every `SelectExecutor::new` allocates a zeroed 10 MiB `QueryArena` (`vec![0u8; 10 MiB]`),
//! i.e. once per executed query and once per subquery evaluation. With glibc that is either a
//! 10 MiB memset per query (heap chunk) or an mmap/munmap pair per query (which serialises 16
//! threads on the address-space lock); both cost more than the query itself on the tiny tables the
//! checks enumerate. Here a freed 10 MiB block is handed back to the kernel page-wise
//! (`MADV_DONTNEED`, so it reads as zeroes again) and kept for the next request. Nothing about
//! the engine's behaviour changes: it still gets 10 MiB of zeroed memory each time.

use std::alloc::{GlobalAlloc, Layout, System};
use std::sync::Mutex;

const BIG: usize = 10 * 1024 * 1024;

pub struct ArenaCache;

static POOL: Mutex<Vec<usize>> = Mutex::new(Vec::new());

#[inline]
fn is_big(layout: &Layout) -> bool {
    layout.size() == BIG && layout.align() <= 4096
}

unsafe fn big_alloc() -> *mut u8 {
    if let Ok(mut p) = POOL.lock() {
        if let Some(addr) = p.pop() {
            return addr as *mut u8;
        }
    }
    let p = libc::mmap(std::ptr::null_mut(), BIG, libc::PROT_READ | libc::PROT_WRITE, libc::MAP_PRIVATE | libc::MAP_ANONYMOUS, -1, 0);
    if p == libc::MAP_FAILED {
        return std::ptr::null_mut();
    }
    // 4 KiB pages: a query that touches a few bytes of its arena must not fault in 2 MiB
    libc::madvise(p, BIG, libc::MADV_NOHUGEPAGE);
    p as *mut u8
}

unsafe fn big_free(ptr: *mut u8) {
    // drop the pages: the block reads as zeroes again and costs no memory while pooled
    if libc::madvise(ptr as *mut libc::c_void, BIG, libc::MADV_DONTNEED) != 0 {
        std::ptr::write_bytes(ptr, 0, BIG);
    }
    match POOL.lock() {
        Ok(mut p) => p.push(ptr as usize),
        Err(_) => {
            libc::munmap(ptr as *mut libc::c_void, BIG);
        }
    }
}

unsafe impl GlobalAlloc for ArenaCache {
    unsafe fn alloc(&self, layout: Layout) -> *mut u8 {
        if is_big(&layout) {
            big_alloc()
        } else {
            System.alloc(layout)
        }
    }
    unsafe fn alloc_zeroed(&self, layout: Layout) -> *mut u8 {
        if is_big(&layout) {
            big_alloc() // pooled blocks are always zero
        } else {
            System.alloc_zeroed(layout)
        }
    }
    unsafe fn dealloc(&self, ptr: *mut u8, layout: Layout) {
        if is_big(&layout) {
            big_free(ptr)
        } else {
            System.dealloc(ptr, layout)
        }
    }
    unsafe fn realloc(&self, ptr: *mut u8, layout: Layout, new_size: usize) -> *mut u8 {
        let new_layout = Layout::from_size_align_unchecked(new_size, layout.align());
        if is_big(&layout) || is_big(&new_layout) {
            // never hand a pooled block to the system allocator or vice versa
            let new = self.alloc(new_layout);
            if !new.is_null() {
                std::ptr::copy_nonoverlapping(ptr, new, layout.size().min(new_size));
                self.dealloc(ptr, layout);
            }
            new
        } else {
            System.realloc(ptr, layout, new_size)
        }
    }
}
