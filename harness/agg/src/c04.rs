//! C04 — results do not depend on the parallelism configuration; repeated execution of the same
//! query on the same state gives the same result.
//!
//! What is enumerated (exhaustively): the configuration space PARALLEL_THRESHOLD ∈ {0,1,2,1000,max}
//! × RAYON_NUM_THREADS ∈ {1,2,3,16} (quick: a 3×2 sub-grid + the baseline). The configuration is
//! read once per process (`ParallelConfig::global()` is a `OnceLock`, rayon's pool is global), so
//! every configuration runs in its own worker subprocess of this binary.
//! Workload per configuration: a corpus of a few hundred queries over small tables (threshold
//! 0/1/2 sends every scan, filter, sort, hash build and join through the rayon branch) plus ~60
//! queries over deterministic 2 500-row tables (`chunk_size = max(len/threads, 1000)` gives 1, 2
//! and 3 chunks for 1, 2 and ≥3 threads).
//! Oracle: equality with the result of the same query under (max, 1 thread) — as a sequence where
//! the ORDER BY totally orders the result, as a multiset otherwise; every query runs twice per
//! process and both runs must agree.
//! What is NOT enumerated: the schedules of rayon's own threads inside one configuration (no tool
//! here can control them); each (configuration, query) is observed on the schedules that happened
//! to occur in its two runs.

use std::collections::{BTreeMap, HashSet};
use std::io::Write;
use std::process::{Command, Stdio};

use serde_json::{json, Value};
use vcore::report::Report;
use vcore::val;
use vibesql_storage::Database;

use crate::common;

// ---------------------------------------------------------------------------------------------
// workload
// ---------------------------------------------------------------------------------------------

#[derive(Clone, Debug)]
pub struct WQ {
    pub sql: String,
    /// the ORDER BY totally orders the result (keys unique over the result): compare as sequence
    pub ordered: bool,
    /// template family, used in signatures
    pub family: &'static str,
    pub big: bool,
}

const SMALL_PRELUDE: &[&str] = &[
    "CREATE TABLE t (id INT PRIMARY KEY, a INT, b INT, s VARCHAR(10))",
    "INSERT INTO t VALUES (1, 1, 10, 'x'), (2, 2, 20, 'y'), (3, 2, NULL, 'x'), (4, NULL, 40, NULL), (5, 3, 10, 'zz'), (6, 1, 0, 'y'), (7, 0, 70, 'a'), (8, NULL, NULL, 'x')",
    "CREATE TABLE u (id INT, a INT, d INT)",
    "INSERT INTO u VALUES (1, 1, 100), (2, 2, 200), (3, 2, 201), (4, NULL, 400), (5, 9, 900), (6, 0, NULL)",
    "CREATE TABLE w (k INT, v DOUBLE)",
    "INSERT INTO w VALUES (1, 0.5), (2, 1.5), (2, 2.5), (NULL, 3.5), (3, NULL)",
    "CREATE TABLE e (id INT, a INT)",
    "CREATE INDEX t_a ON t (a)",
    "CREATE INDEX u_a ON u (a)",
    "CREATE VIEW tv AS SELECT id, a, b FROM t WHERE b >= 10",
];

fn wq(sql: String, ordered: bool, family: &'static str, big: bool) -> WQ {
    WQ { sql, ordered, family, big }
}

fn small_corpus() -> Vec<WQ> {
    let mut out = vec![];
    // --- scans and filters (table-local predicates, index predicates, residual WHERE) -----------
    let preds = [
        "a = 2", "a <> 2", "a < 2", "a >= 1", "b > 10", "b <= 10", "a IS NULL", "a IS NOT NULL", "b IS NULL",
        "a BETWEEN 1 AND 2", "a NOT BETWEEN 1 AND 2", "a IN (1, 3)", "a NOT IN (1, 3)", "a IN (1, NULL)",
        "s = 'x'", "s LIKE 'z%'", "s <> 'x'", "a = 1 AND b = 10", "a = 2 OR b = 10", "NOT (a = 2)",
        "a = 2 AND (b > 5 OR s = 'x')", "a + b > 20", "a * 2 = b / 10", "id > 3 AND a IS NOT NULL",
        "COALESCE(a, 0) = 0", "CASE WHEN a > 1 THEN b ELSE 0 END > 5", "a = b", "id = 4", "id IN (2, 4, 6)",
        "a > 0 AND a < 3 AND b >= 10",
    ];
    for p in preds {
        out.push(wq(format!("SELECT id, a, b, s FROM t WHERE {}", p), false, "filter", false));
        out.push(wq(format!("SELECT id FROM t WHERE {} ORDER BY id", p), true, "filter_order", false));
        out.push(wq(format!("SELECT COUNT(*), SUM(b), MIN(a), MAX(s) FROM t WHERE {}", p), true, "filter_aggregate", false));
    }
    // --- predicates with subqueries (the thread-local evaluators of the parallel filters) -------
    let subq = [
        "a IN (SELECT a FROM u)",
        "a NOT IN (SELECT a FROM u WHERE a IS NOT NULL)",
        "a NOT IN (SELECT a FROM u)",
        "EXISTS (SELECT 1 FROM u WHERE u.a = t.a)",
        "NOT EXISTS (SELECT 1 FROM u WHERE u.a = t.a)",
        "b > (SELECT MIN(d) FROM u) / 10",
        "b = (SELECT MAX(b) FROM t)",
        "a = (SELECT COUNT(*) FROM u WHERE u.a = t.a)",
        "id IN (SELECT id FROM u WHERE d > 100) AND a IS NOT NULL",
        "EXISTS (SELECT 1 FROM u WHERE u.a = t.a AND u.d > t.b)",
        "a IN (SELECT k FROM w WHERE v > 1)",
    ];
    for p in subq {
        out.push(wq(format!("SELECT id, a FROM t WHERE {}", p), false, "filter_subquery", false));
        out.push(wq(format!("SELECT id FROM t WHERE {} ORDER BY id DESC", p), true, "filter_subquery_order", false));
    }
    // subqueries that reference a CTE / a view from inside a filtered scan
    for p in ["a IN (SELECT a FROM c)", "EXISTS (SELECT 1 FROM c WHERE c.a = t.a)", "b >= (SELECT MAX(d) FROM c) / 10"] {
        out.push(wq(format!("WITH c AS (SELECT a, d FROM u WHERE d >= 200) SELECT id, a FROM t WHERE {}", p), false, "filter_subquery_cte", false));
        out.push(wq(
            format!("WITH c AS (SELECT a, d FROM u WHERE d >= 200) SELECT id FROM t WHERE {} AND id > 0 ORDER BY id", p),
            true,
            "filter_subquery_cte",
            false,
        ));
    }
    out.push(wq("WITH c AS (SELECT id, a FROM t WHERE a >= 1) SELECT id, a FROM c WHERE a < 3".into(), false, "cte_filter", false));
    out.push(wq("WITH c AS (SELECT id, a FROM t WHERE a >= 1), d AS (SELECT a FROM c WHERE a < 3) SELECT * FROM c WHERE a IN (SELECT a FROM d)".into(), false, "cte_filter", false));
    out.push(wq("SELECT id, a FROM tv WHERE a >= 1".into(), false, "view_filter", false));
    out.push(wq("SELECT id FROM tv WHERE a IN (SELECT a FROM u) ORDER BY id".into(), true, "view_filter", false));
    out.push(wq("SELECT x.id FROM (SELECT id, a FROM t WHERE b >= 10) x WHERE x.a >= 1 ORDER BY x.id".into(), true, "derived_filter", false));
    out.push(wq("SELECT * FROM e WHERE a = 1".into(), false, "empty_table", false));
    out.push(wq("SELECT COUNT(*), SUM(a) FROM e WHERE a >= 0".into(), true, "empty_table", false));

    // --- sorts -----------------------------------------------------------------------------------
    let orders: [(&str, bool); 10] = [
        ("id", true),
        ("id DESC", true),
        ("a, id", true),
        ("a DESC, id DESC", true),
        ("b, a, id", true),
        ("s, id", true),
        ("a", false),
        ("s DESC", false),
        ("a + b, id", true),
        ("2, 1", true),
    ];
    for (o, total) in orders {
        out.push(wq(format!("SELECT id, a, b, s FROM t ORDER BY {}", o), total, "sort", false));
        if total {
            for tail in ["LIMIT 3", "LIMIT 3 OFFSET 2", "LIMIT 0", "LIMIT 100 OFFSET 7"] {
                out.push(wq(format!("SELECT id, a, b, s FROM t ORDER BY {} {}", o, tail), true, "sort_limit", false));
            }
            out.push(wq(format!("SELECT id, a, b, s FROM t WHERE b IS NOT NULL ORDER BY {}", o), true, "sort_filter", false));
        }
    }
    out.push(wq("SELECT DISTINCT a FROM t ORDER BY a".into(), true, "sort_distinct", false));
    out.push(wq("SELECT DISTINCT s, a FROM t ORDER BY s, a".into(), true, "sort_distinct", false));
    out.push(wq("SELECT DISTINCT a FROM t".into(), false, "distinct", false));
    out.push(wq("SELECT a AS z, COUNT(*) FROM t GROUP BY a ORDER BY z".into(), true, "sort_group", false));

    // --- joins (hash build, nested loop, outer, cross, multi-way, semi / anti) ---------------------
    let joins = [
        "t JOIN u ON t.a = u.a",
        "t INNER JOIN u ON t.a = u.a AND u.d > 100",
        "t LEFT JOIN u ON t.a = u.a",
        "u LEFT JOIN t ON t.a = u.a",
        "t JOIN u ON t.a < u.a",
        "t CROSS JOIN w",
        "t, u WHERE t.a = u.a",
        "t, u WHERE t.a = u.a AND t.b > 5",
        "t JOIN u ON t.id = u.id",
        "t JOIN w ON t.a = w.k",
        "t JOIN u ON t.a = u.a JOIN w ON u.a = w.k",
        "t, u, w WHERE t.a = u.a AND u.a = w.k",
        "w, u, t WHERE t.a = u.a AND u.a = w.k AND t.b >= 10",
        "t t1 JOIN t t2 ON t1.a = t2.a",
        "t t1 JOIN t t2 ON t1.a = t2.a AND t1.id < t2.id",
    ];
    for j in joins {
        let first = if j.starts_with("t t1") { "t1" } else if j.starts_with("w,") { "w" } else if j.starts_with("u ") { "u" } else { "t" };
        let col = if first == "w" { "k" } else { "id" };
        out.push(wq(format!("SELECT * FROM {}", j), false, "join", false));
        out.push(wq(format!("SELECT COUNT(*), SUM({}.{}) FROM {}", first, col, j), true, "join_aggregate", false));
    }
    out.push(wq("SELECT t.id, u.id FROM t JOIN u ON t.a = u.a ORDER BY t.id, u.id".into(), true, "join_order", false));
    out.push(wq("SELECT t.id, u.id FROM t LEFT JOIN u ON t.a = u.a ORDER BY t.id, u.id".into(), false, "join_order", false));
    out.push(wq("SELECT t.id, u.d FROM t JOIN u ON t.a = u.a WHERE u.d >= 200 ORDER BY t.id, u.d LIMIT 2".into(), true, "join_order", false));

    // --- aggregation and grouping -----------------------------------------------------------------
    for g in ["a", "s", "a, s", "b / 10"] {
        out.push(wq(format!("SELECT {}, COUNT(*), SUM(b), MIN(id), MAX(id) FROM t GROUP BY {}", g, g), false, "group", false));
        out.push(wq(format!("SELECT {}, COUNT(*) FROM t GROUP BY {} HAVING COUNT(*) > 1", g, g), false, "group_having", false));
        out.push(wq(format!("SELECT {}, COUNT(DISTINCT b), AVG(b) FROM t WHERE id > 1 GROUP BY {}", g, g), false, "group_filter", false));
    }
    for agg in ["COUNT(*)", "COUNT(a)", "SUM(a)", "AVG(b)", "MIN(s)", "MAX(b)", "COUNT(DISTINCT a)", "SUM(DISTINCT b)", "SUM(a * b)", "COUNT(*), SUM(b)"] {
        out.push(wq(format!("SELECT {} FROM t", agg), true, "aggregate", false));
        out.push(wq(format!("SELECT {} FROM t WHERE a >= 1", agg), true, "aggregate_filter", false));
    }
    out.push(wq("SELECT u.a, COUNT(*), SUM(t.b) FROM t JOIN u ON t.a = u.a GROUP BY u.a".into(), false, "group_join", false));
    out.push(wq("SELECT k, SUM(v) FROM w GROUP BY k".into(), false, "group", false));

    // --- set operations, derived tables ------------------------------------------------------------
    for op in ["UNION", "UNION ALL", "INTERSECT", "EXCEPT"] {
        out.push(wq(format!("SELECT a FROM t {} SELECT a FROM u", op), false, "setop", false));
        out.push(wq(format!("SELECT a FROM t WHERE b >= 10 {} SELECT a FROM u WHERE d > 100", op), false, "setop_filter", false));
    }
    out.push(wq("SELECT a, n FROM (SELECT a, COUNT(*) AS n FROM t GROUP BY a) g WHERE n > 1".into(), false, "derived", false));
    out.push(wq("SELECT id, (SELECT COUNT(*) FROM u WHERE u.a = t.a) FROM t".into(), false, "scalar_subquery_projection", false));
    out.push(wq("SELECT id, (SELECT MAX(d) FROM u WHERE u.a = t.a) FROM t ORDER BY id".into(), true, "scalar_subquery_projection", false));
    out.push(wq("SELECT id, a + b, a * b, COALESCE(s, '-'), CASE WHEN a IS NULL THEN 0 ELSE a END FROM t".into(), false, "projection", false));
    out
}

/// Three deterministic 2 500-row tables. Text of the multi-row INSERTs is generated, 500 rows each.
fn big_prelude() -> Vec<String> {
    let mut out = vec![
        "CREATE TABLE big1 (id INT PRIMARY KEY, g INT, v INT, s VARCHAR(8))".to_string(),
        "CREATE TABLE big2 (id INT, g INT, w INT)".to_string(),
        "CREATE TABLE big3 (k INT, x DOUBLE)".to_string(),
    ];
    let n = 2500;
    for chunk in 0..5 {
        let (mut r1, mut r2, mut r3) = (vec![], vec![], vec![]);
        for i in (chunk * 500)..((chunk + 1) * 500).min(n) {
            let g = if i % 50 == 49 { "NULL".to_string() } else { (i % 7).to_string() };
            let v = (i * 7919) % 1000;
            r1.push(format!("({}, {}, {}, 'k{}')", i, g, v, i % 13));
            // big2: ids 1250..3749 (half overlap with big1), every 40th id NULL, descending w
            let id2 = if i % 40 == 7 { "NULL".to_string() } else { (i + 1250).to_string() };
            r2.push(format!("({}, {}, {})", id2, (i * 3) % 11, 5000 - i));
            let x = if i % 97 == 0 { "NULL".to_string() } else { format!("{}.5", (i * 31) % 400) };
            r3.push(format!("({}, {})", (i * 13) % 1000, x));
        }
        out.push(format!("INSERT INTO big1 VALUES {}", r1.join(", ")));
        out.push(format!("INSERT INTO big2 VALUES {}", r2.join(", ")));
        out.push(format!("INSERT INTO big3 VALUES {}", r3.join(", ")));
    }
    out.push("CREATE INDEX big1_v ON big1 (v)".into());
    // big4: a unique key in permuted insertion order with an index on it — an ORDER BY on that key can
    // be answered by the index scan, so whatever filters the scanned rows afterwards must keep their order
    out.push("CREATE TABLE big4 (k INT, v INT)".to_string());
    for chunk in 0..5 {
        let rows: Vec<String> = ((chunk * 500)..((chunk + 1) * 500)).map(|i: usize| format!("({}, {})", (i * 7919) % 2503, (i * 31) % 2000)).collect();
        out.push(format!("INSERT INTO big4 VALUES {}", rows.join(", ")));
    }
    out.push("CREATE INDEX big4_k ON big4 (k)".into());
    out
}

fn big_corpus() -> Vec<WQ> {
    let q = |s: &str, ordered: bool, fam: &'static str| wq(s.to_string(), ordered, fam, true);
    vec![
        // scans / filters: every chunk must contribute, the last (short) chunk too
        q("SELECT id FROM big1 WHERE v < 100 ORDER BY id", true, "big_filter_order"),
        q("SELECT id, g, v, s FROM big1 WHERE g = 3", false, "big_filter"),
        q("SELECT id FROM big1 WHERE g IS NULL ORDER BY id", true, "big_filter_order"),
        q("SELECT COUNT(*), SUM(id), MIN(id), MAX(id) FROM big1 WHERE v >= 500", true, "big_filter_aggregate"),
        q("SELECT COUNT(*), SUM(id), MAX(id) FROM big1 WHERE id >= 2000", true, "big_filter_aggregate"),
        q("SELECT COUNT(*), SUM(id) FROM big1 WHERE id >= 2400 OR id < 3", true, "big_filter_aggregate"),
        q("SELECT id FROM big1 WHERE s = 'k12' AND v > 10 ORDER BY id", true, "big_filter_order"),
        q("SELECT id FROM big1 WHERE v BETWEEN 10 AND 20 ORDER BY id", true, "big_index_range"),
        q("SELECT id FROM big1 WHERE v = 919 ORDER BY id", true, "big_index_point"),
        q("SELECT id FROM big1 WHERE v IN (1, 2, 3, 500, 999) ORDER BY id", true, "big_index_in"),
        q("SELECT id FROM big1 WHERE v > 990 AND g <> 2 ORDER BY id", true, "big_index_range_residual"),
        q("SELECT COUNT(*), SUM(w) FROM big2 WHERE id IS NULL", true, "big_filter_aggregate"),
        q("SELECT k, x FROM big3 WHERE x > 390 ORDER BY k, x", false, "big_filter"),
        q("SELECT COUNT(*), SUM(x), MIN(x), MAX(x), AVG(x) FROM big3", true, "big_aggregate"),
        q("SELECT COUNT(*), COUNT(g), SUM(v), MIN(v), MAX(v) FROM big1", true, "big_aggregate"),
        q("SELECT COUNT(*), SUM(v), AVG(v) FROM big1 WHERE v >= 0", true, "big_aggregate"),
        q("SELECT id FROM big1 WHERE v + id > 3400 ORDER BY id", true, "big_filter_order"),
        q("SELECT id FROM big1 WHERE id >= 2300 AND id IN (SELECT id FROM big2 WHERE w < 2600) ORDER BY id", true, "big_semi_join"),
        q("SELECT COUNT(*), SUM(id) FROM big1 WHERE id IN (SELECT id FROM big2)", true, "big_semi_join"),
        q("SELECT COUNT(*), SUM(id) FROM big1 WHERE id NOT IN (SELECT id FROM big2 WHERE id IS NOT NULL)", true, "big_anti_join"),
        q("SELECT COUNT(*) FROM big1 WHERE id NOT IN (SELECT id FROM big2)", true, "big_anti_join_null"),
        q("SELECT COUNT(*), SUM(id) FROM big1 WHERE EXISTS (SELECT 1 FROM big2 WHERE big2.id = big1.id)", true, "big_semi_join"),
        q("SELECT COUNT(*), SUM(id) FROM big1 WHERE NOT EXISTS (SELECT 1 FROM big2 WHERE big2.id = big1.id)", true, "big_anti_join"),
        q("SELECT id FROM big1 WHERE NOT EXISTS (SELECT 1 FROM big2 WHERE big2.id = big1.id) AND id >= 1240 ORDER BY id", true, "big_anti_join"),
        // index-provided order followed by a filter that is evaluated row by row (not columnar / SIMD)
        q("SELECT k, v FROM big4 WHERE k + k > 1500 OR v + v < 400 ORDER BY k", true, "big_index_order_filter"),
        q("SELECT k FROM big4 WHERE v + v < 3000 ORDER BY k DESC", true, "big_index_order_filter"),
        q("SELECT k FROM big4 WHERE k + 0 >= 0 ORDER BY k LIMIT 50 OFFSET 1200", true, "big_index_order_filter"),
        q("SELECT k, v FROM big4 WHERE k > 100 AND v + k > 1000 ORDER BY k", true, "big_index_order_filter"),
        // sorts
        q("SELECT id, v FROM big1 ORDER BY v, id", true, "big_sort"),
        q("SELECT id, v FROM big1 ORDER BY v DESC, id DESC", true, "big_sort"),
        q("SELECT id FROM big1 ORDER BY s, g, id", true, "big_sort"),
        q("SELECT id FROM big1 ORDER BY g, id LIMIT 10 OFFSET 2490", true, "big_sort_limit"),
        q("SELECT id, w FROM big2 ORDER BY w", true, "big_sort"),
        q("SELECT id FROM big1 ORDER BY id DESC LIMIT 5", true, "big_sort_limit"),
        q("SELECT k, x FROM big3 ORDER BY x, k", false, "big_sort_ties"),
        q("SELECT id FROM big1 WHERE v < 500 ORDER BY v, id LIMIT 20", true, "big_sort_filter_limit"),
        q("SELECT DISTINCT v FROM big1 ORDER BY v", true, "big_sort_distinct"),
        q("SELECT DISTINCT g, s FROM big1", false, "big_distinct"),
        // hash joins: build side of 2 500 rows, 1 / 2 / 3 chunks; keys in every chunk
        q("SELECT COUNT(*), SUM(big1.id), SUM(big2.w) FROM big1 JOIN big2 ON big1.id = big2.id", true, "big_hash_join"),
        q("SELECT COUNT(*), SUM(big1.id), SUM(big2.w) FROM big2 JOIN big1 ON big1.id = big2.id", true, "big_hash_join"),
        q("SELECT big1.id, big2.w FROM big1 JOIN big2 ON big1.id = big2.id ORDER BY big1.id", true, "big_hash_join_order"),
        q("SELECT big1.id, big2.w FROM big1 JOIN big2 ON big1.id = big2.id WHERE big1.id >= 2400 ORDER BY big1.id", true, "big_hash_join_order"),
        q("SELECT big1.id, big2.w FROM big1, big2 WHERE big1.id = big2.id AND big2.w < 2600 ORDER BY big1.id", true, "big_hash_join_order"),
        q("SELECT COUNT(*), SUM(big1.id), SUM(big3.x) FROM big1 JOIN big3 ON big1.v = big3.k", true, "big_hash_join_dup_keys"),
        q("SELECT COUNT(*), SUM(big3.x) FROM big3 JOIN big1 ON big1.v = big3.k WHERE big1.id >= 2000", true, "big_hash_join_dup_keys"),
        q("SELECT big1.id, big3.x FROM big1 JOIN big3 ON big1.v = big3.k WHERE big1.id < 40 ORDER BY big1.id, big3.x", false, "big_hash_join_dup_keys"),
        q("SELECT COUNT(*), SUM(big2.w) FROM (SELECT id FROM big1 WHERE id >= 2300) a LEFT JOIN big2 ON a.id = big2.id", true, "big_left_join"),
        q("SELECT COUNT(*), COUNT(b.id) FROM big1 LEFT JOIN (SELECT id FROM big2 WHERE id < 1500) b ON big1.id = b.id WHERE big1.id >= 1200", true, "big_left_join_heavy"),
        q("SELECT a.id FROM (SELECT id FROM big1 WHERE id >= 1200 AND id < 1300) a LEFT JOIN big2 ON a.id = big2.id WHERE big2.id IS NULL ORDER BY a.id", true, "big_left_join"),
        q("SELECT COUNT(*), SUM(a.id + b.id) FROM big1 a JOIN big1 b ON a.id = b.id", true, "big_self_join"),
        q("SELECT COUNT(*) FROM big1 a JOIN big2 b ON a.id = b.id JOIN big3 c ON a.v = c.k", true, "big_three_way_join"),
        q("SELECT COUNT(*), SUM(c.x) FROM big3 c, big1 a, big2 b WHERE a.id = b.id AND a.v = c.k AND b.w < 3000", true, "big_three_way_join"),
        // grouping / aggregation over the large inputs
        q("SELECT g, COUNT(*), SUM(v), MIN(id), MAX(id) FROM big1 GROUP BY g", false, "big_group"),
        q("SELECT s, COUNT(*), SUM(v) FROM big1 WHERE id >= 1000 GROUP BY s", false, "big_group"),
        q("SELECT g, COUNT(DISTINCT s), AVG(v) FROM big1 GROUP BY g HAVING COUNT(*) > 300", false, "big_group_having"),
        q("SELECT g, COUNT(*) FROM big1 GROUP BY g ORDER BY g", true, "big_group_order"),
        q("SELECT big2.g, COUNT(*), SUM(big1.v) FROM big1 JOIN big2 ON big1.id = big2.id GROUP BY big2.g", false, "big_group_join"),
        q("SELECT k, COUNT(*), SUM(x) FROM big3 GROUP BY k HAVING COUNT(*) > 2", false, "big_group_having"),
        // set operations and derived tables over large inputs
        q("SELECT id FROM big1 WHERE id >= 1000 INTERSECT SELECT id FROM big2", false, "big_setop"),
        q("SELECT id FROM big1 EXCEPT SELECT id FROM big2", false, "big_setop"),
        q("SELECT g FROM big1 UNION SELECT g FROM big2", false, "big_setop"),
        q("SELECT COUNT(*) FROM (SELECT id FROM big1 UNION ALL SELECT id FROM big2) z", true, "big_setop"),
        q("SELECT COUNT(*), SUM(n) FROM (SELECT v, COUNT(*) AS n FROM big1 GROUP BY v) z WHERE n >= 3", true, "big_derived"),
        q("WITH c AS (SELECT id, w FROM big2 WHERE w < 3000) SELECT COUNT(*), SUM(big1.v) FROM big1 WHERE id IN (SELECT id FROM c)", true, "big_cte_subquery"),
        q("WITH c AS (SELECT id, w FROM big2 WHERE w < 3000) SELECT big1.id FROM big1 JOIN c ON big1.id = c.id WHERE c.w > 2900 ORDER BY big1.id", true, "big_cte_join"),
        q("SELECT id, (SELECT COUNT(*) FROM big3 WHERE big3.k = big1.v) FROM big1 WHERE id < 30 ORDER BY id", true, "big_scalar_subquery"),
    ]
}

/// Queries that run a correlated subquery per row of a 2 500-row table, or a three-way join: they
/// cost seconds each and are left to the thorough tier.
const HEAVY: &[&str] = &["big_left_join_heavy", "big_three_way_join", "big_anti_join", "big_anti_join_null", "big_scalar_subquery", "big_self_join", "big_cte_subquery"];

/// `a [NOT] IN (SELECT a FROM …)`: the outer and the inner column have the same unqualified name.
fn same_name_in_subquery(sql: &str) -> bool {
    sql.contains(" a IN (SELECT a FROM") || sql.contains(" a NOT IN (SELECT a FROM")
}

pub fn corpus(thorough: bool) -> Vec<WQ> {
    let mut c = small_corpus();
    for q in c.iter_mut() {
        if same_name_in_subquery(&q.sql) {
            q.family = "in_subquery_same_column_name";
        }
    }
    c.extend(big_corpus().into_iter().filter(|q| {
        thorough || !(HEAVY.contains(&q.family) || q.sql.contains("EXISTS (SELECT 1 FROM big2"))
    }));
    c
}

fn setup() -> Result<Database, String> {
    let mut stmts: Vec<String> = SMALL_PRELUDE.iter().map(|s| s.to_string()).collect();
    stmts.extend(big_prelude());
    common::build_db(&stmts).map_err(|(s, o)| format!("{} => {}", vcore::util::trunc(&s, 120), o))
}

// ---------------------------------------------------------------------------------------------
// worker: one process = one configuration
// ---------------------------------------------------------------------------------------------

fn seq_hash(rows: &[Vec<val::NV>]) -> String {
    format!("{:032x}", vcore::util::hash128(format!("{:?}", rows).as_bytes()))
}

fn observe(db: &Database, sql: &str) -> (String, Vec<Vec<val::NV>>, String) {
    let o = vcore::exec::select(db, sql);
    match &o {
        vcore::exec::Out::Rows(r) => ("ok".into(), val::seq(r), String::new()),
        vcore::exec::Out::Panic(m) => ("panic".into(), vec![], m.clone()),
        other => ("err".into(), vec![], other.brief()),
    }
}

/// `aggcheck c04-worker <out> [<i,j,…>]` — configuration comes from the environment.
/// Writes one JSON line per query (flushed before the next query starts) and a final `done` line.
pub fn worker(out_path: &str, only: Option<Vec<usize>>) -> i32 {
    let mut f = match std::fs::File::create(out_path) {
        Ok(f) => f,
        Err(e) => {
            eprintln!("c04-worker: cannot create {}: {}", out_path, e);
            return 2;
        }
    };
    let t_setup = std::time::Instant::now();
    let db = match setup() {
        Ok(d) => d,
        Err(e) => {
            let _ = writeln!(f, "{}", json!({"setup_error": e}));
            return 2;
        }
    };
    let setup_ms = t_setup.elapsed().as_millis() as u64;
    vibesql_types::verif::reset();
    let qs = corpus(std::env::var("VERIF_C04_TIER").map(|t| t == "thorough").unwrap_or(false));
    let full = only.is_some();
    for (i, q) in qs.iter().enumerate() {
        if let Some(o) = &only {
            if !o.contains(&i) {
                continue;
            }
        }
        let _ = writeln!(f, "{}", json!({"start": i}));
        let _ = f.flush();
        let t0 = std::time::Instant::now();
        let (c1, r1, m1) = observe(&db, &q.sql);
        let (c2, r2, _m2) = observe(&db, &q.sql);
        let ms = t0.elapsed().as_millis() as u64;
        let mut b1 = r1.clone();
        b1.sort();
        let mut b2 = r2.clone();
        b2.sort();
        let repeat_same = c1 == c2 && if q.ordered { r1 == r2 } else { b1 == b2 };
        let mut line = json!({
            "i": i, "class": c1, "n": r1.len(), "seq": seq_hash(&r1), "bag": seq_hash(&b1),
            "repeat_same": repeat_same, "class2": c2, "n2": r2.len(), "ms": ms,
            "brief": vcore::util::trunc(&val::fmt_bag(&r1), 300), "msg": vcore::util::trunc(&m1, 200),
        });
        if full {
            line["rows"] = json!(r1.iter().map(|r| r.iter().map(val::fmt_nv).collect::<Vec<_>>().join(",")).collect::<Vec<_>>());
            line["rows2"] = json!(r2.iter().map(|r| r.iter().map(val::fmt_nv).collect::<Vec<_>>().join(",")).collect::<Vec<_>>());
        }
        let _ = writeln!(f, "{}", line);
        let _ = f.flush();
    }
    let reach: BTreeMap<String, u64> =
        vibesql_types::verif::snapshot().into_iter().filter(|(k, _)| k.starts_with("parallel_")).map(|(k, v)| (k.to_string(), v)).collect();
    let _ = writeln!(f, "{}", json!({"done": true, "reach": reach, "rayon_threads": rayon::current_num_threads(), "setup_ms": setup_ms}));
    0
}

// ---------------------------------------------------------------------------------------------
// driver
// ---------------------------------------------------------------------------------------------

thread_local! {
    /// tier of the running check (workers must generate the same corpus as the driver)
    static TIER: std::cell::RefCell<String> = std::cell::RefCell::new("quick".to_string());
}

/// At most this many new violation signatures are re-executed and written out per run.
const MAX_REPORTED: usize = 8;

#[derive(Clone, Debug, PartialEq, Eq, PartialOrd, Ord)]
struct Config {
    threshold: String,
    threads: usize,
}

impl Config {
    fn name(&self) -> String {
        format!("PARALLEL_THRESHOLD={} RAYON_NUM_THREADS={}", self.threshold, self.threads)
    }
}

struct WorkerResult {
    lines: BTreeMap<usize, Value>,
    /// index of the query in flight when the worker died, if it died
    died_at: Option<usize>,
    done: Option<Value>,
    error: Option<String>,
}

fn scratch_dir() -> String {
    let d = format!("/tmp/agg-c04-{}", std::process::id());
    let _ = std::fs::create_dir_all(&d);
    d
}

fn spawn_worker(cfg: &Config, tag: &str, only: Option<&[usize]>) -> Result<(std::process::Child, String), String> {
    let exe = std::env::current_exe().map_err(|e| e.to_string())?;
    let out = format!("{}/{}-{}-{}.jsonl", scratch_dir(), tag, cfg.threshold, cfg.threads);
    let mut cmd = Command::new(exe);
    cmd.arg("c04-worker").arg(&out);
    if let Some(o) = only {
        cmd.arg(o.iter().map(|i| i.to_string()).collect::<Vec<_>>().join(","));
    }
    cmd.env("PARALLEL_THRESHOLD", &cfg.threshold).env("RAYON_NUM_THREADS", cfg.threads.to_string());
    cmd.env("VERIF_C04_TIER", TIER.with(|t| t.borrow().clone()));
    cmd.stdin(Stdio::null()).stdout(Stdio::null()).stderr(Stdio::null());
    let child = cmd.spawn().map_err(|e| format!("cannot spawn worker: {}", e))?;
    Ok((child, out))
}

fn collect(mut child: std::process::Child, out: &str) -> WorkerResult {
    let status = child.wait();
    let text = std::fs::read_to_string(out).unwrap_or_default();
    let mut res = WorkerResult { lines: BTreeMap::new(), died_at: None, done: None, error: None };
    let mut in_flight: Option<usize> = None;
    for l in text.lines() {
        let Ok(v) = serde_json::from_str::<Value>(l) else { continue };
        if let Some(e) = v.get("setup_error") {
            res.error = Some(format!("worker setup failed: {}", e));
        } else if let Some(s) = v.get("start").and_then(|x| x.as_u64()) {
            in_flight = Some(s as usize);
        } else if let Some(i) = v.get("i").and_then(|x| x.as_u64()) {
            res.lines.insert(i as usize, v);
            in_flight = None;
        } else if v.get("done").is_some() {
            res.done = Some(v);
        }
    }
    if res.done.is_none() && res.error.is_none() {
        match in_flight {
            Some(i) => res.died_at = Some(i),
            None => res.error = Some(format!("worker ended without a result ({:?})", status.map(|s| s.to_string()))),
        }
    }
    res
}

fn run_configs(cfgs: &[Config], tag: &str, only: Option<&[usize]>, max_parallel: usize) -> Result<Vec<WorkerResult>, String> {
    let mut results: Vec<Option<WorkerResult>> = cfgs.iter().map(|_| None).collect();
    let mut next = 0;
    let mut running: Vec<(usize, std::process::Child, String)> = vec![];
    while next < cfgs.len() || !running.is_empty() {
        while next < cfgs.len() && running.len() < max_parallel {
            let (c, o) = spawn_worker(&cfgs[next], tag, only)?;
            running.push((next, c, o));
            next += 1;
        }
        let (i, c, o) = running.remove(0);
        results[i] = Some(collect(c, &o));
    }
    Ok(results.into_iter().map(|r| r.unwrap()).collect())
}

fn s(v: &Value, k: &str) -> String {
    v.get(k).and_then(|x| x.as_str()).unwrap_or("").to_string()
}

/// Why two observations of one query differ (None = they agree under the oracle).
fn differs(q: &WQ, base: &Value, other: &Value) -> Option<String> {
    let (cb, co) = (s(base, "class"), s(other, "class"));
    if cb != co {
        return Some(format!("outcome class {} vs {} ({})", cb, co, s(other, "msg")));
    }
    if cb != "ok" {
        return None; // both reject: not a case
    }
    let key = if q.ordered { "seq" } else { "bag" };
    if s(base, key) != s(other, key) {
        return Some(format!(
            "{} differs: {} rows {} vs {} rows {}",
            if q.ordered { "row sequence" } else { "row multiset" },
            base["n"],
            s(base, "brief"),
            other["n"],
            s(other, "brief")
        ));
    }
    None
}

fn diff_rows(a: &Value, b: &Value) -> String {
    let get = |v: &Value, k: &str| -> Vec<String> {
        v.get(k).and_then(|x| x.as_array()).map(|a| a.iter().filter_map(|s| s.as_str().map(|x| x.to_string())).collect()).unwrap_or_default()
    };
    let (ra, rb) = (get(a, "rows"), get(b, "rows"));
    let mut only_a = vec![];
    let mut bb = rb.clone();
    for r in &ra {
        if let Some(p) = bb.iter().position(|x| x == r) {
            bb.remove(p);
        } else {
            only_a.push(r.clone());
        }
    }
    let first_pos = ra.iter().zip(rb.iter()).position(|(x, y)| x != y);
    format!(
        "{} rows only under the sequential configuration (first: {:?}), {} rows only under the parallel one (first: {:?}), first position that differs: {:?}",
        only_a.len(),
        only_a.iter().take(3).collect::<Vec<_>>(),
        bb.len(),
        bb.iter().take(3).collect::<Vec<_>>(),
        first_pos
    )
}

pub fn run(tier: &str) -> i32 {
    let thorough = tier == "thorough";
    TIER.with(|t| *t.borrow_mut() = tier.to_string());
    let mut rep = Report::new("C04", tier, "exploration");
    let baseline = Config { threshold: "max".into(), threads: 1 };
    let mut cfgs: Vec<Config> = vec![baseline.clone()];
    let (ths, thr): (Vec<&str>, Vec<usize>) =
        if thorough { (vec!["0", "1", "2", "1000", "max"], vec![1, 2, 3, 16]) } else { (vec!["0", "2", "1000"], vec![2, 3]) };
    for t in &ths {
        for n in &thr {
            let c = Config { threshold: t.to_string(), threads: *n };
            if c != baseline {
                cfgs.push(c);
            }
        }
    }
    let qs = corpus(thorough);
    // quick: all 7 workers at once (at most 3 rayon threads each); thorough: 5 at a time (up to 16 threads each)
    let max_parallel = if thorough { 5 } else { 7 };
    let results = match run_configs(&cfgs, "main", None, max_parallel) {
        Ok(r) => r,
        Err(e) => {
            rep.machinery_error(e);
            return rep.finish();
        }
    };
    let base = &results[0];
    if let Some(e) = &base.error {
        rep.machinery_error(format!("baseline worker: {}", e));
        return rep.finish();
    }
    if let Some(i) = base.died_at {
        rep.machinery_error(format!("baseline worker died while executing query {}: {}", i, qs[i].sql));
        return rep.finish();
    }

    // candidates: (config index, query index, kind, description)
    let mut cands: Vec<(usize, usize, &'static str, String)> = vec![];
    let mut evaluations = 0u64;
    let mut both_reject = 0u64;
    let mut outcomes: HashSet<String> = HashSet::new();
    let mut per_cfg = vec![];
    let mut vacuous: Vec<String> = vec![];
    for (ci, (cfg, res)) in cfgs.iter().zip(results.iter()).enumerate() {
        if let Some(e) = &res.error {
            rep.machinery_error(format!("{}: {}", cfg.name(), e));
            continue;
        }
        if let Some(i) = res.died_at {
            cands.push((ci, i, "worker_died", "the worker process died while executing the query".into()));
        }
        let mut ok = 0;
        let mut err = 0;
        for (i, q) in qs.iter().enumerate() {
            let Some(line) = res.lines.get(&i) else { continue };
            evaluations += 2;
            outcomes.insert(format!("{}:{}", s(line, "class"), s(line, "bag")));
            if s(line, "class") == "ok" {
                ok += 1;
            } else {
                err += 1;
            }
            if s(line, "class") == "panic" {
                cands.push((ci, i, "panic", format!("the query panicked: {}", s(line, "msg"))));
                continue;
            }
            if line["repeat_same"] == json!(false) {
                cands.push((ci, i, "not_repeatable", format!("two executions in one process differ: {} rows then {} rows ({} / {})", line["n"], line["n2"], s(line, "class"), s(line, "class2"))));
            }
            if ci > 0 {
                if let Some(b) = base.lines.get(&i) {
                    if s(b, "class") != "ok" && s(line, "class") != "ok" {
                        both_reject += 1;
                    }
                    if let Some(d) = differs(q, b, line) {
                        cands.push((ci, i, "differs_from_sequential", d));
                    }
                }
            }
        }
        let reach = res.done.as_ref().map(|d| d["reach"].clone()).unwrap_or(json!({}));
        let threads_seen = res.done.as_ref().map(|d| d["rayon_threads"].clone()).unwrap_or(json!(null));
        if threads_seen != json!(cfg.threads) && res.done.is_some() {
            rep.machinery_error(format!("{}: rayon reports {} threads", cfg.name(), threads_seen));
        }
        let par_total: u64 = reach.as_object().map(|m| m.values().filter_map(|v| v.as_u64()).sum()).unwrap_or(0);
        if cfg.threshold != "max" && par_total == 0 {
            vacuous.push(format!("parallel branches under {}", cfg.name()));
        }
        if cfg.threshold == "max" && par_total != 0 {
            rep.machinery_error(format!("{}: parallel branches were taken ({})", cfg.name(), reach));
        }
        let mut slow: Vec<(u64, usize)> = res.lines.iter().map(|(i, l)| (l["ms"].as_u64().unwrap_or(0), *i)).collect();
        slow.sort();
        slow.reverse();
        let total_ms: u64 = slow.iter().map(|x| x.0).sum();
        let slowest: Vec<Value> = slow.iter().take(3).map(|(ms, i)| json!({"ms": ms, "query": qs[*i].sql})).collect();
        per_cfg.push(json!({"config": cfg.name(), "query_ms_total": total_ms, "slowest": slowest,
            "setup_ms": res.done.as_ref().map(|d| d["setup_ms"].clone()).unwrap_or(json!(null)), "queries_ok": ok, "queries_rejected": err, "parallel_branch_decisions": reach, "rayon_threads": threads_seen}));
    }

    // every candidate is re-executed twice in fresh processes (both configurations) before it is reported
    let mut reported: HashSet<String> = HashSet::new();
    let findings = vcore::report::load_findings("C04");
    let (mut new_kept, mut cut) = (0usize, 0usize);
    let mut n_reported = 0u64;
    cands.sort_by_key(|c| (c.1, c.0));
    for (ci, qi, kind, what) in &cands {
        let q = &qs[*qi];
        let cfg = &cfgs[*ci];
        let sig = vec![
            ("kind", kind.to_string()),
            ("family", q.family.to_string()),
            ("query", q.sql.clone()),
            ("parallel", if cfg.threshold == "max" { "no".to_string() } else { "yes".to_string() }),
        ];
        let key = format!("{:?}", sig);
        if reported.contains(&key) {
            continue;
        }
        reported.insert(key);
        let known = findings.iter().any(|k| k.sig.iter().all(|(a, want)| sig.iter().any(|(b, v)| b == a && v == want)));
        if !known {
            if new_kept >= MAX_REPORTED {
                cut += 1;
                continue;
            }
            new_kept += 1;
        } else {
            // an open known finding: reported as such, not re-confirmed in fresh processes
            let case = json!({
                "kind": "c04", "tier": tier, "query_index": qi, "query": q.sql, "ordered": q.ordered, "family": q.family,
                "config": {"threshold": cfg.threshold, "threads": cfg.threads},
                "baseline": {"threshold": "max", "threads": 1},
            });
            rep.violation(&sig.iter().map(|(k, v)| (*k, v.clone())).collect::<Vec<_>>(), format!("{} under {}: {}", q.sql, cfg.name(), what), case);
            n_reported += 1;
            continue;
        }
        let mut confirmed = 0;
        let mut detail = String::new();
        for round in 0..2 {
            let pair = [baseline.clone(), cfg.clone()];
            match run_configs(&pair, &format!("re{}", round), Some(&[*qi]), 2) {
                Err(e) => rep.machinery_error(e),
                Ok(rr) => {
                    let again = match *kind {
                        "worker_died" => rr[1].died_at == Some(*qi),
                        "panic" => rr[1].lines.get(qi).map(|l| s(l, "class") == "panic").unwrap_or(false),
                        "not_repeatable" => {
                            // a schedule-dependent failure need not recur in a fresh process; a
                            // difference from the sequential result counts as the same failure
                            rr[1].lines.get(qi).map(|l| l["repeat_same"] == json!(false)).unwrap_or(false)
                                || match (rr[0].lines.get(qi), rr[1].lines.get(qi)) {
                                    (Some(b), Some(o)) => differs(q, b, o).is_some(),
                                    _ => false,
                                }
                        }
                        _ => match (rr[0].lines.get(qi), rr[1].lines.get(qi)) {
                            (Some(b), Some(o)) => {
                                if detail.is_empty() {
                                    detail = diff_rows(b, o);
                                }
                                differs(q, b, o).is_some()
                            }
                            _ => false,
                        },
                    };
                    if again {
                        confirmed += 1;
                    }
                }
            }
        }
        let case = json!({
            "kind": "c04", "tier": tier, "query_index": qi, "query": q.sql, "ordered": q.ordered, "family": q.family,
            "config": {"threshold": cfg.threshold, "threads": cfg.threads},
            "baseline": {"threshold": "max", "threads": 1},
            "setup": "SMALL_PRELUDE + big_prelude() of harness/agg/src/c04.rs (deterministic)",
        });
        let text = format!("{} under {} vs sequential: {} {}", q.sql, cfg.name(), what, detail);
        if confirmed == 2 {
            rep.violation(&sig.iter().map(|(k, v)| (*k, v.clone())).collect::<Vec<_>>(), text, case);
            n_reported += 1;
        } else if confirmed == 1 || *kind == "not_repeatable" {
            // depends on the schedule: reported (it was observed), marked as intermittent
            let mut sig2 = sig.clone();
            sig2.push(("intermittent", "yes".into()));
            rep.violation(
                &sig2.iter().map(|(k, v)| (*k, v.clone())).collect::<Vec<_>>(),
                format!("{} [reproduced in {} of 2 fresh process pairs]", text, confirmed),
                case,
            );
            n_reported += 1;
        } else {
            rep.machinery_error(format!("observation did not reproduce in fresh processes: {}", text));
        }
    }
    rep.merge_violations(vec![], (cands.len() as u64).saturating_sub(n_reported));
    let _ = std::fs::remove_dir_all(scratch_dir());

    let n_small = qs.iter().filter(|q| !q.big).count();
    let n_big = qs.len() - n_small;
    rep.set("evaluations", json!(evaluations));
    rep.set("distinct_nontrivial", json!(outcomes.len()));
    rep.set("distinct_outcomes", json!(outcomes.len()));
    rep.set("exhaustive", json!(true));
    rep.set(
        "rule",
        json!("for every configuration (PARALLEL_THRESHOLD × RAYON_NUM_THREADS, one worker process each) and every corpus query: the result equals the result under (max, 1 thread) — as a sequence when ORDER BY totally orders it, else as a multiset — and two executions in the same process agree"),
    );
    rep.set(
        "bounds",
        json!({
            "configurations": cfgs.iter().map(|c| c.name()).collect::<Vec<_>>(),
            "thresholds": ths, "threads": thr,
            "queries_small_tables": n_small, "queries_2500_row_tables": n_big,
            "executions_per_query_per_process": 2,
        }),
    );
    rep.set(
        "exhaustive_scope",
        json!("the configuration space × the fixed corpus is covered completely; the schedules of rayon's threads inside one configuration are NOT enumerated (no tool here controls them) — each (configuration, query) pair is observed on the two schedules that occurred"),
    );
    rep.set("per_configuration", json!(per_cfg));
    rep.set("cases_both_reject", json!(both_reject));
    rep.set("violation_signatures_not_written_out", json!(cut));
    if cut > 0 {
        println!("note: {} further violation signatures were counted but not written out (limit {})", cut, MAX_REPORTED);
    }
    rep.set("vacuous_mechanisms", json!(vacuous));
    rep.set(
        "samples",
        json!(qs.iter().step_by(qs.len() / 8).map(|q| json!({"query": q.sql, "ordered": q.ordered, "family": q.family})).collect::<Vec<_>>()),
    );
    rep.assume("rayon closures in the parallel operators map one item to one output and share no mutable state (read off the code, DESIGN §6); under that assumption one execution per configuration represents its schedules");
    println!(
        "C04 {}: {} configurations × {} queries ({} small-table, {} over 2500-row tables) × 2 executions = {} executions, {} distinct outcomes, {} candidates",
        tier,
        cfgs.len(),
        qs.len(),
        n_small,
        n_big,
        evaluations,
        outcomes.len(),
        cands.len()
    );
    for v in &vacuous {
        println!("WARNING vacuous mechanism: {}", v);
    }
    rep.finish()
}

pub fn replay(case: &Value) -> i32 {
    let qi = case["query_index"].as_u64().unwrap_or(0) as usize;
    let tier = case["tier"].as_str().unwrap_or("quick").to_string();
    TIER.with(|t| *t.borrow_mut() = tier.clone());
    let qs = corpus(tier == "thorough");
    if qi >= qs.len() || Some(qs[qi].sql.as_str()) != case["query"].as_str() {
        eprintln!("MACHINERY-ERROR replay: the corpus no longer has this query at index {}", qi);
        return 2;
    }
    let cfg = Config {
        threshold: case["config"]["threshold"].as_str().unwrap_or("0").to_string(),
        threads: case["config"]["threads"].as_u64().unwrap_or(2) as usize,
    };
    let baseline = Config { threshold: "max".into(), threads: 1 };
    println!("{}", qs[qi].sql);
    match run_configs(&[baseline.clone(), cfg.clone()], "replay", Some(&[qi]), 2) {
        Err(e) => {
            eprintln!("MACHINERY-ERROR replay: {}", e);
            2
        }
        Ok(rr) => {
            let _ = std::fs::remove_dir_all(scratch_dir());
            for (c, r) in [&baseline, &cfg].iter().zip(rr.iter()) {
                match r.lines.get(&qi) {
                    Some(l) => println!("   {} => {} {} rows {} (second run equal: {})", c.name(), s(l, "class"), l["n"], s(l, "brief"), l["repeat_same"]),
                    None => println!("   {} => no result (worker died: {:?})", c.name(), r.died_at),
                }
            }
            let bad = match (rr[0].lines.get(&qi), rr[1].lines.get(&qi)) {
                (Some(b), Some(o)) => differs(&qs[qi], b, o).is_some() || o["repeat_same"] == json!(false),
                _ => true,
            };
            if bad {
                println!("REPRODUCED");
                1
            } else {
                println!("not reproduced");
                0
            }
        }
    }
}
