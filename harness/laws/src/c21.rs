//! C21 — SqlValue equality, ordering and hashing are mutually consistent (DESIGN §5 C21).
//!
//! What the code under test offers (read off crates/vibesql-types/src/sql_value/*.rs):
//!   `PartialEq`/`Eq` (grouping equality: NULL==NULL, NaN==NaN), `Ord` (total order used by the
//!   `BTreeMap<Vec<SqlValue>,_>` of user indexes), `PartialOrd` (SQL comparison, `None` for NULL,
//!   NaN and type mismatches; ORDER BY sorts with `partial_cmp(..).unwrap_or(Equal)`, NULLs last),
//!   `Hash` (DISTINCT = `IndexSet<Vec<SqlValue>>`, GROUP BY / set operations / hash join / PK and
//!   UNIQUE indexes = `HashMap`/`HashSet` keyed by `SqlValue` or `Vec<SqlValue>`).
//!
//! Tier 1: the laws on all pairs and all triples of the explicit value set V.
//! Tier 2: the stated consequence through SQL on a real `Database`, for every pair of V-values of
//!   one column type.

use std::cmp::Ordering;
use std::collections::{BTreeMap, BTreeSet};
use std::hash::{Hash, Hasher};
use std::panic::{catch_unwind, AssertUnwindSafe};

use serde_json::{json, Value};
use vibesql_ast::{Expression, InsertSource, InsertStmt};
use vibesql_storage::{Database, IndexData, Row};
use vibesql_types::SqlValue;

use vcore::exec::{self, Out};
use vcore::report::Report;
use vcore::util::par_map;

use crate::values::{self, class_of, enc, exact, kinds_of, value_set, variant, variants_of, V};

// ---------------------------------------------------------------------------------------------
// observations of the code under test (every call is wrapped in catch_unwind by the callers)

pub fn h_default<T: Hash>(v: &T) -> u64 {
    let mut h = std::collections::hash_map::DefaultHasher::new();
    v.hash(&mut h);
    h.finish()
}

#[allow(deprecated)]
pub fn h_sip<T: Hash>(v: &T) -> u64 {
    let mut h = std::hash::SipHasher::new_with_keys(0x0123_4567_89ab_cdef, 0xfedc_ba98_7654_3210);
    v.hash(&mut h);
    h.finish()
}

fn ord_s(o: Ordering) -> &'static str {
    match o {
        Ordering::Less => "Less",
        Ordering::Equal => "Equal",
        Ordering::Greater => "Greater",
    }
}

/// Everything the laws look at for one ordered pair.
#[derive(Debug, Clone, PartialEq)]
pub struct PairObs {
    pub eq_ab: bool,
    pub eq_ba: bool,
    pub ne_ab: bool,
    pub cmp_ab: Ordering,
    pub cmp_ba: Ordering,
    pub pcmp_ab: Option<Ordering>,
    pub hd: (u64, u64),
    pub hs: (u64, u64),
    /// hash of the one-element key vectors (what DISTINCT / GROUP BY really hash)
    pub hv: (u64, u64),
}

pub fn observe_pair(a: &SqlValue, b: &SqlValue) -> Result<PairObs, String> {
    catch_unwind(AssertUnwindSafe(|| PairObs {
        eq_ab: a == b,
        eq_ba: b == a,
        ne_ab: a != b,
        cmp_ab: a.cmp(b),
        cmp_ba: b.cmp(a),
        pcmp_ab: a.partial_cmp(b),
        hd: (h_default(a), h_default(b)),
        hs: (h_sip(a), h_sip(b)),
        hv: (h_default(&vec![a.clone()]), h_default(&vec![b.clone()])),
    }))
    .map_err(exec::panic_msg)
}

impl PairObs {
    pub fn describe(&self) -> String {
        format!(
            "a==b:{} b==a:{} a!=b:{} cmp(a,b):{} cmp(b,a):{} partial_cmp(a,b):{:?} DefaultHasher:{:016x}/{:016x} SipHasher:{:016x}/{:016x} Vec-key hash:{:016x}/{:016x}",
            self.eq_ab,
            self.eq_ba,
            self.ne_ab,
            ord_s(self.cmp_ab),
            ord_s(self.cmp_ba),
            self.pcmp_ab.map(ord_s),
            self.hd.0,
            self.hd.1,
            self.hs.0,
            self.hs.1,
            self.hv.0,
            self.hv.1
        )
    }
}

/// The pair laws. Returns (law, family, premise_held, law_held) for every law instance.
pub fn pair_laws(o: &PairObs, same: bool) -> Vec<(&'static str, &'static str, bool, bool)> {
    let mut out = vec![];
    if same {
        out.push(("eq_reflexive", "eq_equivalence", true, o.eq_ab));
        out.push(("cmp_reflexive", "cmp_order", true, o.cmp_ab == Ordering::Equal));
    }
    out.push(("eq_symmetric", "eq_equivalence", true, o.eq_ab == o.eq_ba));
    out.push(("ne_is_not_eq", "eq_equivalence", true, o.ne_ab == !o.eq_ab));
    out.push(("cmp_antisymmetric", "cmp_order", true, o.cmp_ab == o.cmp_ba.reverse()));
    out.push(("cmp_equal_iff_eq", "eq_vs_cmp", true, (o.cmp_ab == Ordering::Equal) == o.eq_ab));
    out.push(("partial_cmp_agrees_with_cmp", "eq_vs_cmp", o.pcmp_ab.is_some(), o.pcmp_ab.map_or(true, |p| p == o.cmp_ab)));
    out.push(("eq_implies_hash_eq_default", "eq_vs_hash", o.eq_ab, !o.eq_ab || o.hd.0 == o.hd.1));
    out.push(("eq_implies_hash_eq_sip", "eq_vs_hash", o.eq_ab, !o.eq_ab || o.hs.0 == o.hs.1));
    out.push(("eq_implies_hash_eq_vec_key", "eq_vs_hash", o.eq_ab, !o.eq_ab || o.hv.0 == o.hv.1));
    out
}

/// triple laws on real calls; returns (law, family, premise_held, law_held)
pub fn triple_laws(a: &SqlValue, b: &SqlValue, c: &SqlValue) -> Result<Vec<(&'static str, &'static str, bool, bool)>, String> {
    catch_unwind(AssertUnwindSafe(|| {
        let (eab, ebc, eac) = (a == b, b == c, a == c);
        let (cab, cbc, cac) = (a.cmp(b), b.cmp(c), a.cmp(c));
        let le = |o: Ordering| o != Ordering::Greater;
        let prem = le(cab) && le(cbc);
        let strict = cab == Ordering::Less || cbc == Ordering::Less;
        let held = !prem || (if strict { cac == Ordering::Less } else { cac == Ordering::Equal });
        vec![("eq_transitive", "eq_equivalence", eab && ebc, !(eab && ebc) || eac), ("cmp_transitive", "cmp_order", prem, held)]
    }))
    .map_err(exec::panic_msg)
}

#[derive(Default, Clone)]
struct LawCount {
    checked: u64,
    premise_held: u64,
    failed: u64,
}

#[derive(Default)]
struct Counts {
    laws: BTreeMap<String, LawCount>,
}

impl Counts {
    fn add(&mut self, law: &str, prem: bool, held: bool) {
        let e = self.laws.entry(law.to_string()).or_default();
        e.checked += 1;
        if prem {
            e.premise_held += 1;
        }
        if !held {
            e.failed += 1;
        }
    }
    fn merge(&mut self, o: Counts) {
        for (k, v) in o.laws {
            let e = self.laws.entry(k).or_default();
            e.checked += v.checked;
            e.premise_held += v.premise_held;
            e.failed += v.failed;
        }
    }
    fn json(&self) -> Value {
        let mut m = serde_json::Map::new();
        for (k, v) in &self.laws {
            m.insert(k.clone(), json!({"checked": v.checked, "premise_held": v.premise_held, "failed": v.failed}));
        }
        Value::Object(m)
    }
}

fn sig(law: &str, family: &str, vals: &[&SqlValue]) -> Vec<(&'static str, String)> {
    vec![("law", law.to_string()), ("family", family.to_string()), ("kinds", kinds_of(vals)), ("class", class_of(vals))]
}

// ---------------------------------------------------------------------------------------------
// tier 1: laws

fn run_laws(rep: &Report, vals: &[V]) -> (Counts, u64, BTreeSet<String>, u64, Vec<Value>) {
    let n = vals.len();
    let idx: Vec<usize> = (0..n).collect();

    // pairs
    let rows = par_map(&idx, |_, &i| {
        let mut cnt = Counts::default();
        let mut classes: BTreeSet<String> = BTreeSet::new();
        let mut evals = 0u64;
        let mut nontrivial = 0u64;
        for j in 0..n {
            let (a, b) = (&vals[i].v, &vals[j].v);
            evals += 1;
            match observe_pair(a, b) {
                Err(p) => {
                    rep.violation(
                        &sig("panic", "panic", &[a, b]),
                        format!("comparing/hashing {} with {} panicked: {}", vals[i].label, vals[j].label, p),
                        json!({"kind":"law_pair","law":"panic","a":enc(a),"b":enc(b)}),
                    );
                }
                Ok(o) => {
                    // determinism (R3): observe twice more; a differing observation is a machinery error
                    let heq = o.hd.0 == o.hd.1;
                    classes.insert(format!("{}|{}|eq={}|cmp={}|hash_eq={}", variant(a), variant(b), o.eq_ab, ord_s(o.cmp_ab), heq));
                    if values::kind(a) == values::kind(b) {
                        nontrivial += 1;
                    }
                    for (law, family, prem, held) in pair_laws(&o, i == j) {
                        cnt.add(law, prem, held);
                        if !held {
                            let o2 = observe_pair(a, b);
                            let o3 = observe_pair(a, b);
                            if o2.as_ref().ok() != Some(&o) || o3.as_ref().ok() != Some(&o) {
                                rep.machinery_error(format!("non-deterministic observation for {} / {}", vals[i].label, vals[j].label));
                                continue;
                            }
                            rep.violation(
                                &sig(law, family, &[a, b]),
                                format!("law {} fails for a={} b={} ({}): {}", law, vals[i].label, vals[j].label, variants_of(&[a, b]), o.describe()),
                                json!({"kind":"law_pair","law":law,"a":enc(a),"b":enc(b),"labels":[vals[i].label, vals[j].label]}),
                            );
                        }
                    }
                }
            }
        }
        (cnt, classes, evals, nontrivial)
    });
    let mut counts = Counts::default();
    let mut classes = BTreeSet::new();
    let mut evals = 0u64;
    let mut nontrivial = 0u64;
    for (c, cl, e, nt) in rows {
        counts.merge(c);
        classes.extend(cl);
        evals += e;
        nontrivial += nt;
    }

    // triples
    let rows = par_map(&idx, |_, &i| {
        let mut cnt = Counts::default();
        let mut evals = 0u64;
        for j in 0..n {
            for k in 0..n {
                let (a, b, c) = (&vals[i].v, &vals[j].v, &vals[k].v);
                evals += 1;
                match triple_laws(a, b, c) {
                    Err(p) => rep.violation(
                        &sig("panic", "panic", &[a, b, c]),
                        format!("triple ({}, {}, {}) panicked: {}", vals[i].label, vals[j].label, vals[k].label, p),
                        json!({"kind":"law_triple","law":"panic","a":enc(a),"b":enc(b),"c":enc(c)}),
                    ),
                    Ok(ls) => {
                        for (law, family, prem, held) in ls {
                            cnt.add(law, prem, held);
                            if !held {
                                let again = triple_laws(a, b, c).ok().map(|l| l.iter().any(|x| x.0 == law && !x.3));
                                if again != Some(true) {
                                    rep.machinery_error(format!("non-deterministic triple observation ({}, {}, {})", vals[i].label, vals[j].label, vals[k].label));
                                    continue;
                                }
                                rep.violation(
                                    &sig(law, family, &[a, b, c]),
                                    format!(
                                        "law {} fails for a={} b={} c={}: a==b:{} b==c:{} a==c:{} cmp(a,b):{} cmp(b,c):{} cmp(a,c):{}",
                                        law,
                                        vals[i].label,
                                        vals[j].label,
                                        vals[k].label,
                                        a == b,
                                        b == c,
                                        a == c,
                                        ord_s(a.cmp(b)),
                                        ord_s(b.cmp(c)),
                                        ord_s(a.cmp(c))
                                    ),
                                    json!({"kind":"law_triple","law":law,"a":enc(a),"b":enc(b),"c":enc(c),"labels":[vals[i].label, vals[j].label, vals[k].label]}),
                                );
                            }
                        }
                    }
                }
            }
        }
        (cnt, evals)
    });
    for (c, e) in rows {
        counts.merge(c);
        evals += e;
    }

    let samples = vec![
        json!({"tier":"laws","pair":[vals[0].label, vals[n - 1].label]}),
        json!({"tier":"laws","pair":[vals[n / 3].label, vals[n / 3 + 1].label]}),
        json!({"tier":"laws","triple":[vals[n / 2].label, vals[n / 2 + 1].label, vals[n / 2 + 2].label]}),
    ];
    (counts, evals, classes, nontrivial, samples)
}

// ---------------------------------------------------------------------------------------------
// tier 2: the consequence through SQL

/// (SQL column type, SqlValue variant stored in it)
pub const COLUMN_TYPES: &[(&str, &str)] = &[
    ("INTEGER", "Integer"),
    ("SMALLINT", "Smallint"),
    ("BIGINT", "Bigint"),
    ("UNSIGNED", "Unsigned"),
    ("NUMERIC(38, 10)", "Numeric"),
    ("FLOAT", "Float"),
    ("REAL", "Real"),
    ("DOUBLE PRECISION", "Double"),
    ("CHAR(2)", "Character"),
    ("VARCHAR(10)", "Varchar"),
    ("BOOLEAN", "Boolean"),
    ("DATE", "Date"),
    ("TIME", "Time"),
    ("TIMESTAMP", "Timestamp"),
    ("INTERVAL DAY", "Interval"),
];

/// Store one value through the public API: first as an INSERT statement (AST literal → the real
/// InsertExecutor with its coercions), else directly through `Database::insert_row`.
fn store(db: &mut Database, table: &str, v: &SqlValue) -> Result<&'static str, String> {
    let stmt = vibesql_ast::Statement::Insert(InsertStmt {
        table_name: table.to_string(),
        columns: vec![],
        source: InsertSource::Values(vec![vec![Expression::Literal(v.clone())]]),
        conflict_clause: None,
        on_duplicate_key_update: None,
    });
    match exec::exec_stmt(db, &stmt) {
        Out::Count(1) => return Ok("insert_stmt"),
        Out::Panic(p) => return Err(format!("PANIC {}", p)),
        _ => {}
    }
    match catch_unwind(AssertUnwindSafe(|| db.insert_row(table, Row::new(vec![v.clone()])))) {
        Ok(Ok(())) => Ok("insert_row"),
        Ok(Err(e)) => Err(format!("{}", e)),
        Err(p) => Err(format!("PANIC {}", exec::panic_msg(p))),
    }
}

fn stored(db: &Database, table: &str) -> Vec<SqlValue> {
    vcore::obs::rows_of(db, table).into_iter().map(|r| r[0].clone()).collect()
}

#[derive(Debug, Clone, PartialEq, Default)]
pub struct SqlObs {
    pub storable: bool,
    pub why_not: String,
    pub stored: Vec<String>,
    pub stored_eq: bool,
    pub stored_null: (bool, bool),
    pub stored_nan: (bool, bool),
    pub route: String,
    /// query label -> observation rendered as text (row count, or sequence of exact values)
    pub q: BTreeMap<String, String>,
    pub index_keys: Option<usize>,
    pub index_scan_reached: bool,
}

fn is_nan(v: &SqlValue) -> bool {
    match v {
        SqlValue::Double(f) | SqlValue::Numeric(f) => f.is_nan(),
        SqlValue::Float(f) | SqlValue::Real(f) => f.is_nan(),
        _ => false,
    }
}

fn nrows(o: &Out) -> String {
    match o {
        Out::Rows(r) => format!("{}", r.len()),
        other => format!("!{}", other.brief()),
    }
}

fn seq(o: &Out) -> String {
    match o {
        Out::Rows(r) => r.iter().map(|x| x.iter().map(exact).collect::<Vec<_>>().join(",")).collect::<Vec<_>>().join(" ; "),
        other => format!("!{}", other.brief()),
    }
}

fn scalar(o: &Out) -> String {
    match o {
        Out::Rows(r) if r.len() == 1 && r[0].len() == 1 => match &r[0][0] {
            SqlValue::Integer(i) | SqlValue::Bigint(i) => i.to_string(),
            SqlValue::Numeric(f) | SqlValue::Double(f) => format!("{}", f),
            other => exact(other),
        },
        other => format!("!{}", other.brief()),
    }
}

pub const QUERIES: &[(&str, &str)] = &[
    ("distinct", "SELECT DISTINCT v FROM t"),
    ("group_by", "SELECT v, COUNT(*) FROM t GROUP BY v"),
    ("count_distinct", "SELECT COUNT(DISTINCT v) FROM t"),
    ("union", "SELECT v FROM ta UNION SELECT v FROM tb"),
    ("intersect", "SELECT v FROM ta INTERSECT SELECT v FROM tb"),
    ("except", "SELECT v FROM ta EXCEPT SELECT v FROM tb"),
    ("hash_join", "SELECT COUNT(*) FROM ta JOIN tb ON ta.v = tb.v"),
    ("order_by_t", "SELECT v FROM t ORDER BY v"),
    ("order_by_t2", "SELECT v FROM t2 ORDER BY v"),
    // after CREATE INDEX ix ON t (v):
    ("index_order_scan", "SELECT v FROM t ORDER BY v"),
    ("index_distinct", "SELECT DISTINCT v FROM t ORDER BY v"),
];

/// Run the whole scenario for one pair on a fresh database.
pub fn sql_scenario(coltype: &str, a: &SqlValue, b: &SqlValue) -> SqlObs {
    let mut o = SqlObs::default();
    let mut db = Database::new();
    for t in ["t", "t2", "ta", "tb"] {
        let r = exec::exec(&mut db, &format!("CREATE TABLE {} (v {})", t, coltype));
        if !r.is_ok() {
            o.why_not = format!("CREATE TABLE failed: {}", r.brief());
            return o;
        }
    }
    let mut routes = vec![];
    for (t, v) in [("T", a), ("T", b), ("T2", b), ("T2", a), ("TA", a), ("TB", b)] {
        match store(&mut db, t, v) {
            Ok(r) => routes.push(r),
            Err(e) => {
                o.why_not = format!("cannot store {} in {}: {}", exact(v), coltype, vcore::util::trunc(&e, 120));
                return o;
            }
        }
    }
    routes.dedup();
    o.route = routes.join("+");
    let st = stored(&db, "T");
    if st.len() != 2 {
        o.why_not = format!("table holds {} rows after two inserts", st.len());
        return o;
    }
    o.storable = true;
    o.stored = st.iter().map(exact).collect();
    o.stored_eq = st[0] == st[1];
    o.stored_null = (st[0].is_null(), st[1].is_null());
    o.stored_nan = (is_nan(&st[0]), is_nan(&st[1]));

    for (label, q) in QUERIES.iter().take(9) {
        let r = exec::select(&db, q);
        let s = match *label {
            "count_distinct" | "hash_join" => scalar(&r),
            "order_by_t" | "order_by_t2" => seq(&r),
            _ => nrows(&r),
        };
        o.q.insert(label.to_string(), s);
    }
    let r = exec::exec(&mut db, "CREATE INDEX ix ON t (v)");
    if !r.is_ok() {
        o.q.insert("create_index".into(), format!("!{}", r.brief()));
        return o;
    }
    o.index_keys = match db.get_index_data("IX").or_else(|| db.get_index_data("ix")) {
        Some(IndexData::InMemory { data }) => Some(data.iter().filter(|(_, p)| !p.is_empty()).count()),
        _ => None,
    };
    let before = reach("index_scan");
    let r = exec::select(&db, QUERIES[9].1);
    o.index_scan_reached = reach("index_scan") > before;
    o.q.insert("index_order_scan".into(), seq(&r));
    let r = exec::select(&db, QUERIES[10].1);
    o.q.insert("index_distinct".into(), nrows(&r));
    o
}

fn reach(site: &str) -> u64 {
    vibesql_types::verif::snapshot().into_iter().find(|(k, _)| *k == site).map(|(_, v)| v).unwrap_or(0)
}

/// what the ORDER BY of the engine says about the stored pair, read off the two insertion orders
/// (the sort is stable: a tie keeps insertion order) — None when it cannot be observed
fn orderby_relation(o: &SqlObs) -> Option<Result<Ordering, String>> {
    let (x, y) = (&o.stored[0], &o.stored[1]);
    if x == y {
        return None; // bit-identical values: a tie is unobservable
    }
    let r1 = o.q.get("order_by_t")?;
    let r2 = o.q.get("order_by_t2")?;
    let fwd = format!("{} ; {}", x, y);
    let bwd = format!("{} ; {}", y, x);
    Some(if *r1 == fwd && *r2 == fwd {
        Ok(Ordering::Less)
    } else if *r1 == bwd && *r2 == bwd {
        Ok(Ordering::Greater)
    } else if *r1 == fwd && *r2 == bwd {
        Ok(Ordering::Equal)
    } else {
        Err(format!("ORDER BY on (a,b) gives [{}], on (b,a) gives [{}]", r1, r2))
    })
}

/// The SQL-level expectations for one scenario: (law, family, held, explanation)
pub fn sql_laws(o: &SqlObs, a: &SqlValue, b: &SqlValue) -> Vec<(&'static str, &'static str, bool, String)> {
    let mut out = vec![];
    if !o.storable {
        return out;
    }
    let eq = o.stored_eq;
    let n = if eq { 1 } else { 2 };
    let any_null = o.stored_null.0 || o.stored_null.1;
    let any_nan = o.stored_nan.0 || o.stored_nan.1;
    let want = |label: &str, expect: String, law: &'static str, family: &'static str, out: &mut Vec<(&'static str, &'static str, bool, String)>| {
        if let Some(got) = o.q.get(label) {
            let q = QUERIES.iter().find(|x| x.0 == label).map(|x| x.1).unwrap_or("");
            out.push((law, family, *got == expect, format!("`{}` → {} (expected {}, because stored a==b is {})", q, got, expect, eq)));
        }
    };
    want("distinct", n.to_string(), "sql_distinct", "eq_vs_hash", &mut out);
    want("group_by", n.to_string(), "sql_group_by", "eq_vs_hash", &mut out);
    let nn = match o.stored_null {
        (true, true) => 0,
        (true, false) | (false, true) => 1,
        _ => n,
    };
    want("count_distinct", nn.to_string(), "sql_count_distinct", "eq_vs_hash", &mut out);
    want("union", n.to_string(), "sql_union", "eq_vs_hash", &mut out);
    want("intersect", (if eq { 1 } else { 0 }).to_string(), "sql_intersect", "eq_vs_hash", &mut out);
    want("except", (if eq { 0 } else { 1 }).to_string(), "sql_except", "eq_vs_hash", &mut out);
    if !any_null && !any_nan {
        // NULL = NULL and NaN = NaN are not TRUE under SQL comparison; the join is only asked about ordinary values
        want("hash_join", (if eq { 1 } else { 0 }).to_string(), "sql_hash_join", "eq_vs_hash", &mut out);
    }
    want("index_distinct", n.to_string(), "sql_index_distinct", "eq_vs_hash", &mut out);
    if let Some(k) = o.index_keys {
        out.push(("sql_index_keys", "eq_vs_cmp", k == n, format!("CREATE INDEX ix ON t (v): the sorted index holds {} distinct key(s) (expected {}, because stored a==b is {})", k, n, eq)));
    }
    if let Some(got) = o.q.get("index_order_scan") {
        // the index-ordered scan must return exactly the two stored rows
        let mut want_rows = o.stored.clone();
        want_rows.sort();
        let mut got_rows: Vec<String> = got.split(" ; ").map(|s| s.to_string()).collect();
        got_rows.sort();
        out.push(("sql_index_scan_rows", "eq_vs_cmp", got_rows == want_rows, format!("index-ordered `SELECT v FROM t ORDER BY v` → [{}] (expected the stored rows {:?})", got, o.stored)));
    }
    match orderby_relation(o) {
        None => {}
        Some(Err(e)) => out.push(("sql_orderby_consistent", "cmp_order", false, e)),
        Some(Ok(rel)) => {
            out.push((
                "sql_orderby_tie_iff_eq",
                "eq_vs_cmp",
                (rel == Ordering::Equal) == eq,
                format!("ORDER BY v ranks the stored pair {} (t: [{}], t2: [{}]) but a==b is {}", ord_s(rel), o.q["order_by_t"], o.q["order_by_t2"], eq),
            ));
            if !any_null && rel != Ordering::Equal {
                // read back the stored values to compare with Ord (the index order)
                let c = catch_unwind(AssertUnwindSafe(|| a.cmp(b))).ok();
                if exact(a) == o.stored[0] && exact(b) == o.stored[1] {
                    if let Some(c) = c {
                        out.push(("sql_orderby_agrees_with_cmp", "eq_vs_cmp", c == rel, format!("ORDER BY ranks a {} b, Ord::cmp (index order) says {}", ord_s(rel), ord_s(c))));
                    }
                }
            }
        }
    }
    out
}

struct SqlCase {
    coltype: &'static str,
    ia: usize,
    ib: usize,
}

fn run_sql(rep: &Report, vals: &[V]) -> (Counts, u64, Value, Vec<Value>, BTreeSet<String>) {
    let mut cases = vec![];
    for (coltype, var) in COLUMN_TYPES {
        let members: Vec<usize> = (0..vals.len()).filter(|&i| variant(&vals[i].v) == *var || vals[i].v.is_null()).collect();
        for (x, &ia) in members.iter().enumerate() {
            for &ib in &members[x..] {
                cases.push(SqlCase { coltype, ia, ib });
            }
        }
    }
    let res = par_map(&cases, |_, c| {
        let (a, b) = (&vals[c.ia].v, &vals[c.ib].v);
        let o = sql_scenario(c.coltype, a, b);
        let laws = sql_laws(&o, a, b);
        (o, laws)
    });
    let mut counts = Counts::default();
    let mut evals = 0u64;
    let mut per_type: BTreeMap<String, (u64, u64, u64, u64)> = BTreeMap::new(); // pairs, storable, eq pairs, index scan reached
    let mut not_storable: BTreeSet<String> = BTreeSet::new();
    let mut normalised = 0u64;
    let mut classes = BTreeSet::new();
    // ORDER BY relation per type for the transitivity check
    let mut rel: BTreeMap<&str, BTreeMap<(usize, usize), Ordering>> = BTreeMap::new();
    for (c, (o, laws)) in cases.iter().zip(res.iter()) {
        let (a, b) = (&vals[c.ia].v, &vals[c.ib].v);
        let e = per_type.entry(c.coltype.to_string()).or_default();
        e.0 += 1;
        if !o.storable {
            not_storable.insert(format!("{}: {}", c.coltype, o.why_not));
            continue;
        }
        e.1 += 1;
        if o.stored_eq {
            e.2 += 1;
        }
        if o.index_scan_reached {
            e.3 += 1;
        }
        if o.stored[0] != exact(a) || o.stored[1] != exact(b) {
            normalised += 1;
        }
        evals += o.q.len() as u64 + 1;
        classes.insert(format!("{}|eq={}|distinct={}|index_keys={:?}|join={}", c.coltype, o.stored_eq, o.q.get("distinct").cloned().unwrap_or_default(), o.index_keys, o.q.get("hash_join").cloned().unwrap_or_default()));
        if let Some(Ok(r)) = orderby_relation(o) {
            if exact(a) == o.stored[0] && exact(b) == o.stored[1] {
                let m = rel.entry(c.coltype).or_default();
                m.insert((c.ia, c.ib), r);
                m.insert((c.ib, c.ia), r.reverse());
            }
        }
        for (law, family, held, why) in laws {
            counts.add(law, true, *held);
            if !*held {
                // R3: re-execute from scratch until the failure of this law has been seen twice more.
                // Observations of hash-based operators may legitimately differ between executions
                // (std RandomState + an Eq/Hash mismatch makes the engine itself non-deterministic), so
                // the requirement is reproduction of the *law failure*, not bit-equal observations.
                let mut reproduced = 0;
                let mut differing = 0;
                for _ in 0..6 {
                    let o2 = sql_scenario(c.coltype, a, b);
                    if mask(&o2) != mask(o) {
                        differing += 1;
                    }
                    if sql_laws(&o2, a, b).iter().any(|x| x.0 == *law && !x.2) {
                        reproduced += 1;
                        if reproduced == 2 {
                            break;
                        }
                    }
                }
                if reproduced < 2 {
                    rep.machinery_error(format!("failure of {} for {} / {} in {} did not reproduce ({} of 6 re-executions)", law, vals[c.ia].label, vals[c.ib].label, c.coltype, reproduced));
                    continue;
                }
                let why = if differing > 0 { format!("{} [the engine's answer varies between executions: {} differing re-execution(s)]", why, differing) } else { why.clone() };
                rep.violation(
                    &sig(law, family, &[a, b]),
                    format!("column {}: a={} b={}: {}", c.coltype, vals[c.ia].label, vals[c.ib].label, why),
                    json!({"kind":"sql_pair","law":law,"coltype":c.coltype,"a":enc(a),"b":enc(b),"labels":[vals[c.ia].label, vals[c.ib].label]}),
                );
            }
        }
    }
    // transitivity of the observed ORDER BY relation (all triples of one column type)
    for (coltype, m) in &rel {
        let ids: BTreeSet<usize> = m.keys().map(|k| k.0).collect();
        for &i in &ids {
            for &j in &ids {
                for &k in &ids {
                    let (Some(ab), Some(bc), Some(ac)) = (m.get(&(i, j)), m.get(&(j, k)), m.get(&(i, k))) else { continue };
                    // a tie between values that are not == is already reported by sql_orderby_tie_iff_eq;
                    // transitivity is asked of triples whose ties are genuine
                    let false_tie = |x: usize, y: usize, o: &Ordering| *o == Ordering::Equal && vals[x].v != vals[y].v;
                    if false_tie(i, j, ab) || false_tie(j, k, bc) || false_tie(i, k, ac) {
                        counts.add("sql_orderby_transitive_skipped_false_tie", true, true);
                        continue;
                    }
                    let le = |o: Ordering| o != Ordering::Greater;
                    let prem = le(*ab) && le(*bc);
                    let strict = *ab == Ordering::Less || *bc == Ordering::Less;
                    let held = !prem || (if strict { *ac == Ordering::Less } else { *ac == Ordering::Equal });
                    counts.add("sql_orderby_transitive", prem, held);
                    evals += 1;
                    if !held {
                        let (a, b, c) = (&vals[i].v, &vals[j].v, &vals[k].v);
                        rep.violation(
                            &sig("sql_orderby_transitive", "cmp_order", &[a, b, c]),
                            format!(
                                "column {}: ORDER BY ranks {} {} {}, {} {} {}, but {} {} {}",
                                coltype,
                                vals[i].label,
                                ord_s(*ab),
                                vals[j].label,
                                vals[j].label,
                                ord_s(*bc),
                                vals[k].label,
                                vals[i].label,
                                ord_s(*ac),
                                vals[k].label
                            ),
                            json!({"kind":"sql_triple","law":"sql_orderby_transitive","coltype":coltype,"a":enc(a),"b":enc(b),"c":enc(c)}),
                        );
                    }
                }
            }
        }
    }
    let mut pt = serde_json::Map::new();
    for (k, v) in &per_type {
        pt.insert(k.clone(), json!({"pairs": v.0, "storable_pairs": v.1, "pairs_with_a_eq_b": v.2}));
    }
    let info = json!({
        "per_column_type": Value::Object(pt),
        "pairs_total": cases.len(),
        "pairs_normalised_on_store": normalised,
        "not_storable": not_storable.iter().take(40).collect::<Vec<_>>(),
    });
    let samples: Vec<Value> = cases
        .iter()
        .zip(res.iter())
        .filter(|(_, (o, _))| o.storable)
        .step_by((cases.len() / 4).max(1))
        .take(4)
        .map(|(c, (o, _))| json!({"tier":"sql","coltype":c.coltype,"a":vals[c.ia].label,"b":vals[c.ib].label,"stored_eq":o.stored_eq,"observations":o.q,"index_keys":o.index_keys}))
        .collect();
    (counts, evals, info, samples, classes)
}

/// the part of an observation that must be reproducible (reach counters are process-wide)
fn mask(o: &SqlObs) -> SqlObs {
    let mut m = o.clone();
    m.index_scan_reached = false;
    m
}

// ---------------------------------------------------------------------------------------------

pub fn run(tier: &str) -> i32 {
    let mut rep = Report::new("C21", tier, "exploration");
    vibesql_types::verif::reset();
    let vals = value_set();
    let n = vals.len() as u64;

    let (mut counts, evals1, classes, nontrivial, mut samples) = run_laws(&rep, &vals);
    let (c2, evals2, sql_info, s2, sql_classes) = run_sql(&rep, &vals);
    counts.merge(c2);
    samples.extend(s2);

    let mut per_variant: BTreeMap<&str, u64> = BTreeMap::new();
    for v in &vals {
        *per_variant.entry(variant(&v.v)).or_default() += 1;
    }
    rep.set("value_set_size", json!(n));
    rep.set("values_per_variant", json!(per_variant));
    rep.set("pairs", json!(n * n));
    rep.set("triples", json!(n * n * n));
    rep.set("evaluations", json!(evals1 + evals2));
    rep.set("law_evaluations", json!(evals1));
    rep.set("sql_evaluations", json!(evals2));
    rep.set("distinct_nontrivial", json!(classes.len() + sql_classes.len()));
    rep.set("distinct_pair_outcome_classes", json!(classes.len()));
    rep.set("distinct_sql_outcome_classes", json!(sql_classes.len()));
    rep.set("same_kind_pairs", json!(nontrivial));
    rep.set("laws", counts.json());
    rep.set("sql", sql_info);
    rep.set("exhaustive", json!(true));
    rep.set("samples", json!(samples));
    rep.set(
        "rule",
        json!("explicit value set V over every SqlValue variant; every ordered pair and every ordered triple of V is evaluated with the real PartialEq/Eq, Ord, PartialOrd and Hash impls (std DefaultHasher, fixed-key SipHasher, and the Vec<SqlValue> key the engine hashes) against the equivalence / total-order / eq⇔cmp / eq⇒hash laws; then every unordered pair of V-values of one column type (plus NULL) is stored in real tables through InsertExecutor (AST literal) or Database::insert_row and DISTINCT, GROUP BY, COUNT(DISTINCT), UNION, INTERSECT, EXCEPT, an equi hash join, ORDER BY in both insertion orders, and a user index (key count, index-ordered scan) must see one value iff the stored values are ==; distinct_nontrivial = number of distinct (variant_a, variant_b, eq, cmp, hash_equal) classes + distinct SQL outcome classes observed"),
    );
    let (reach, vac) = vcore::report::reach_json(&["index_scan"]);
    rep.set("reach", reach);
    rep.set("vacuous_mechanisms", vac);
    rep.assume("eq/cmp/hash are pure functions of their arguments (each failing case is re-observed twice; a differing observation is exit 2)");
    rep.assume("values outside V (other floats, longer strings, collations) are not covered");
    rep.finish()
}

// ---------------------------------------------------------------------------------------------
// replay

pub fn replay(case: &Value) -> i32 {
    let get = |k: &str| values::dec(&case[k]);
    let law = case["law"].as_str().unwrap_or("?");
    match case["kind"].as_str().unwrap_or("") {
        "law_pair" => {
            let (Ok(a), Ok(b)) = (get("a"), get("b")) else {
                eprintln!("bad replay file: cannot decode values");
                return 2;
            };
            println!("a = {}   [{}]", exact(&a), variant(&a));
            println!("b = {}   [{}]", exact(&b), variant(&b));
            match observe_pair(&a, &b) {
                Err(p) => println!("observed: PANIC {}", p),
                Ok(o) => {
                    println!("observed: {}", o.describe());
                    for (l, _, prem, held) in pair_laws(&o, exact(&a) == exact(&b)) {
                        if l == law || !held {
                            println!("law {:<32} premise:{} holds:{}   <- expected holds:true", l, prem, held);
                        }
                    }
                }
            }
            0
        }
        "law_triple" => {
            let (Ok(a), Ok(b), Ok(c)) = (get("a"), get("b"), get("c")) else {
                eprintln!("bad replay file: cannot decode values");
                return 2;
            };
            println!("a = {}\nb = {}\nc = {}", exact(&a), exact(&b), exact(&c));
            match triple_laws(&a, &b, &c) {
                Err(p) => println!("observed: PANIC {}", p),
                Ok(ls) => {
                    println!("observed: a==b:{} b==c:{} a==c:{} cmp(a,b):{} cmp(b,c):{} cmp(a,c):{}", a == b, b == c, a == c, ord_s(a.cmp(&b)), ord_s(b.cmp(&c)), ord_s(a.cmp(&c)));
                    for (l, _, prem, held) in ls {
                        println!("law {:<32} premise:{} holds:{}   <- expected holds:true", l, prem, held);
                    }
                }
            }
            0
        }
        "sql_pair" | "sql_triple" => {
            let coltype = case["coltype"].as_str().unwrap_or("INTEGER").to_string();
            let mut vs = vec![];
            for k in ["a", "b", "c"] {
                if !case[k].is_null() {
                    match get(k) {
                        Ok(v) => vs.push(v),
                        Err(e) => {
                            eprintln!("bad replay file: {}", e);
                            return 2;
                        }
                    }
                }
            }
            for i in 0..vs.len() {
                for j in (i + 1)..vs.len() {
                    let (a, b) = (&vs[i], &vs[j]);
                    println!("-- column type {}: a = {}, b = {}", coltype, exact(a), exact(b));
                    println!("   CREATE TABLE t/t2/ta/tb (v {}); t <- a,b; t2 <- b,a; ta <- a; tb <- b", coltype);
                    let o = sql_scenario(&coltype, a, b);
                    if !o.storable {
                        println!("   not storable: {}", o.why_not);
                        continue;
                    }
                    println!("   stored (via {}): {:?}; stored a==b: {}", o.route, o.stored, o.stored_eq);
                    for (label, q) in QUERIES {
                        if let Some(r) = o.q.get(*label) {
                            println!("   {:<18} {:<52} => {}", label, q, r);
                        }
                    }
                    println!("   index ix ON t(v): distinct keys = {:?}", o.index_keys);
                    for (l, _, held, why) in sql_laws(&o, a, b) {
                        println!("   {} {:<28} {}", if held { "ok  " } else { "FAIL" }, l, why);
                    }
                }
            }
            0
        }
        other => {
            eprintln!("unknown C21 case kind {:?}", other);
            2
        }
    }
}
