//! E4 — deviation-bounded enumeration of text inputs (DESIGN §4 E4): all ≤k-edit mutants over an
//! alphabet, all truncations, all short strings.

/// Σ of C22: digits at the boundaries, the separators of the temporal grammars, two letters that
/// are meaningful to them (T, Z), a letter that is not (Y), and 2-, 3- and 4-byte UTF-8 characters.
pub const SIGMA: &[char] = &['0', '1', '9', '-', '+', ':', '.', ' ', 'T', 'Z', 'é', '€', '𝄞', 'Y'];

/// All results of exactly one edit (substitute / insert / delete one char), in a fixed order,
/// without duplicates and without the input itself.
pub fn edits1(s: &str, sigma: &[char]) -> Vec<String> {
    let cs: Vec<char> = s.chars().collect();
    let mut out: Vec<String> = Vec::with_capacity(cs.len() * (2 * sigma.len() + 1) + sigma.len());
    let mut seen = std::collections::HashSet::new();
    let mut push = |v: Vec<char>, out: &mut Vec<String>| {
        let t: String = v.into_iter().collect();
        if t != s && seen.insert(t.clone()) {
            out.push(t);
        }
    };
    // deletions
    for i in 0..cs.len() {
        let mut v = cs.clone();
        v.remove(i);
        push(v, &mut out);
    }
    // substitutions
    for i in 0..cs.len() {
        for &c in sigma {
            if cs[i] != c {
                let mut v = cs.clone();
                v[i] = c;
                push(v, &mut out);
            }
        }
    }
    // insertions
    for i in 0..=cs.len() {
        for &c in sigma {
            let mut v = cs.clone();
            v.insert(i, c);
            push(v, &mut out);
        }
    }
    out
}

/// every proper prefix and every proper suffix (at char boundaries), including the empty string
pub fn truncations(s: &str) -> Vec<String> {
    let cs: Vec<char> = s.chars().collect();
    let mut out = vec![];
    for i in 0..cs.len() {
        out.push(cs[..i].iter().collect::<String>());
    }
    for i in 1..cs.len() {
        out.push(cs[i..].iter().collect::<String>());
    }
    out.sort();
    out.dedup();
    out
}

/// all strings over `sigma` of length 1..=n that start with `first` (n ≥ 1), shortest first
/// (iterative deepening, constant memory)
pub fn strings_with_first(first: char, n: usize, sigma: &[char], mut f: impl FnMut(&str)) {
    fn rec(buf: &mut String, remaining: usize, sigma: &[char], f: &mut dyn FnMut(&str)) {
        if remaining == 0 {
            f(buf);
            return;
        }
        for &c in sigma {
            buf.push(c);
            rec(buf, remaining - 1, sigma, f);
            buf.pop();
        }
    }
    let mut buf = String::with_capacity(4 * n);
    for len in 1..=n {
        buf.clear();
        buf.push(first);
        rec(&mut buf, len - 1, sigma, &mut f);
    }
}
