//! `lawcheck` — E5 law checks (C21, C22).
//!   lawcheck check <C21|C22> <quick|thorough>
//!   lawcheck replay <path>
//!   lawcheck worker c22 <tier> <shard> | worker c22-careful <tier> <shard> <batch> | worker c22-one <parser> <input>

mod c21;
mod c22;
mod mutate;
mod values;

fn usage() -> ! {
    eprintln!("usage: lawcheck check <C21|C22> <quick|thorough> | lawcheck replay <path>");
    std::process::exit(2)
}

fn replay(path: &str) -> i32 {
    let text = match std::fs::read_to_string(path) {
        Ok(t) => t,
        Err(e) => {
            eprintln!("cannot read {}: {}", path, e);
            return 2;
        }
    };
    let v: serde_json::Value = match serde_json::from_str(&text) {
        Ok(v) => v,
        Err(e) => {
            eprintln!("bad replay file: {}", e);
            return 2;
        }
    };
    println!("property: {}", v["property"].as_str().unwrap_or("?"));
    println!("signature: {}", v["signature"]);
    println!("recorded: {}", v["what"].as_str().unwrap_or(""));
    println!("-- re-execution");
    match v["property"].as_str() {
        Some("C21") => c21::replay(&v["case"]),
        Some("C22") => c22::replay(&v["case"]),
        _ => {
            eprintln!("not a C21/C22 replay file");
            2
        }
    }
}

fn main() {
    let args: Vec<String> = std::env::args().collect();
    if args.len() < 2 {
        usage();
    }
    if std::env::var("PARALLEL_THRESHOLD").is_err() {
        std::env::set_var("PARALLEL_THRESHOLD", "max");
    }
    vcore::exec::silence_panics();
    let code = match args[1].as_str() {
        "check" if args.len() >= 4 => match args[2].as_str() {
            "C21" => c21::run(&args[3]),
            "C22" => c22::run(&args[3]),
            other => {
                eprintln!("lawcheck does not implement {}", other);
                2
            }
        },
        "replay" if args.len() >= 3 => replay(&args[2]),
        "worker" if args.len() >= 5 => match args[2].as_str() {
            "c22" => c22::worker(&args[3], &args[4]),
            "c22-careful" if args.len() >= 6 => c22::worker_careful(&args[3], &args[4], &args[5]),
            "c22-one" => c22::worker_one(&args[3], &args[4]),
            _ => usage(),
        },
        _ => usage(),
    };
    std::process::exit(code);
}
