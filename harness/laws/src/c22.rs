//! C22 — temporal values round-trip through text; parsing is total (DESIGN §5 C22).
//!
//! Entry points of the code under test (crates/vibesql-types/src/temporal/*.rs):
//!   `Date::new` / `Time::new` / `Timestamp::new` (constructors), `Display` for all four types (and
//!   `Display for SqlValue`, which delegates), `FromStr` for Date / Time / Timestamp (fallible),
//!   `Interval::new(String)` = `Interval::from_str` (infallible: unparsable text gives a zero interval).
//!
//! Round trip runs in-process (`par_map`, `catch_unwind`). Totality runs in worker subprocesses
//! (`lawcheck worker c22 <tier> <shard>`), each input through the release build of vibesql-types
//! *and* through `temporal_ovf` (the same source files compiled with overflow-checks), plus an
//! independent i128 recomputation of the interval arithmetic, so that an integer overflow is
//! observed both as the wrap it is in release and as the panic it is in a debug build.

use std::collections::{BTreeMap, BTreeSet, HashSet};
use std::hash::{Hash, Hasher};
use std::io::{BufRead, BufReader, Write};
use std::panic::{catch_unwind, AssertUnwindSafe};
use std::process::{Command, Stdio};
use std::str::FromStr;

use serde_json::{json, Value};
use vibesql_types::{Date, Interval, SqlValue, Time, Timestamp};

use vcore::exec::panic_msg;
use vcore::report::Report;
use vcore::util::{hash128, par_map, trunc};

use crate::mutate::{edits1, strings_with_first, truncations, SIGMA};

pub const PARSERS: [&str; 4] = ["date", "time", "timestamp", "interval"];

// =============================================================================================
// round trip

pub const NS_SET: [u32; 10] = [0, 1, 10, 999, 1_000, 1_000_000, 123_456_789, 500_000_000, 999_999_999, 100_000_000];

fn frac_class(ns: u32) -> &'static str {
    if ns == 0 {
        return "no_fraction";
    }
    let mut digits = 9;
    let mut x = ns;
    while x % 10 == 0 {
        x /= 10;
        digits -= 1;
    }
    match digits {
        1..=3 => "frac_digits_1_to_3",
        4..=6 => "frac_digits_4_to_6",
        _ => "frac_digits_7_to_9",
    }
}

fn year_class(y: i32) -> &'static str {
    match y {
        i32::MIN..=0 => "year_le_0",
        1..=9 => "year_1_digit",
        10..=99 => "year_2_digits",
        100..=999 => "year_3_digits",
        1000..=9999 => "year_4_digits",
        _ => "year_gt_9999",
    }
}

/// class of a timestamp: the non-default component classes (4-digit year, no fraction are defaults)
fn ts_class(y: &str, f: &str) -> String {
    let mut v = vec![];
    if y != "year_4_digits" {
        v.push(y);
    }
    if f != "no_fraction" {
        v.push(f);
    }
    if v.is_empty() {
        "plain".into()
    } else {
        v.join("+")
    }
}

/// class of a *text* that parsed to a value, in the terms used for constructed values
/// (number of significant fraction digits, number of year digits) — features of the text only
fn text_value_class(parser: &str, s: &str) -> String {
    let t = s.trim();
    let frac = || -> &'static str {
        match t.find('.') {
            None => "no_fraction",
            Some(p) => {
                // u32::from_str accepts a leading '+', so ".+5" is a fraction too
                let digits: String = t[p + 1..].trim_start_matches('+').chars().take_while(|c| c.is_ascii_digit()).take(9).collect();
                let sig = digits.trim_end_matches('0').len();
                match sig {
                    0 => "no_fraction",
                    1..=3 => "frac_digits_1_to_3",
                    4..=6 => "frac_digits_4_to_6",
                    _ => "frac_digits_7_to_9",
                }
            }
        }
    };
    let year = || -> &'static str {
        let body = t.trim_start_matches('+');
        let digits: String = body.chars().take_while(|c| c.is_ascii_digit()).collect();
        digits.parse::<i32>().map(year_class).unwrap_or("year_other")
    };
    match parser {
        "date" => year().to_string(),
        "time" => frac().to_string(),
        "timestamp" => ts_class(year(), frac()),
        _ => interval_form_class(s),
    }
}

/// `parse(format(x)) == x` for one Date; Err(observation) on failure
pub fn rt_date(d: Date) -> Result<(), String> {
    catch_unwind(|| {
        let s = d.to_string();
        let s2 = SqlValue::Date(d).to_string();
        if s2 != s {
            return Err(format!("SqlValue::Date displays {:?} but Date displays {:?}", s2, s));
        }
        match Date::from_str(&s) {
            Ok(p) if p == d && p.year == d.year && p.month == d.month && p.day == d.day => Ok(()),
            Ok(p) => Err(format!("format = {:?}, parse(format) = {:?} ≠ {:?}", s, p, d)),
            Err(e) => Err(format!("format = {:?}, parse(format) = Err({:?})", s, e)),
        }
    })
    .unwrap_or_else(|p| Err(format!("PANIC {}", panic_msg(p))))
}

pub fn rt_time(t: Time) -> Result<(), String> {
    catch_unwind(|| {
        let s = t.to_string();
        let s2 = SqlValue::Time(t).to_string();
        if s2 != s {
            return Err(format!("SqlValue::Time displays {:?} but Time displays {:?}", s2, s));
        }
        match Time::from_str(&s) {
            Ok(p) if p == t && p.nanosecond == t.nanosecond && p.second == t.second && p.minute == t.minute && p.hour == t.hour => Ok(()),
            Ok(p) => Err(format!("format = {:?}, parse(format) = {:?} ≠ {:?}", s, p, t)),
            Err(e) => Err(format!("format = {:?}, parse(format) = Err({:?})", s, e)),
        }
    })
    .unwrap_or_else(|p| Err(format!("PANIC {}", panic_msg(p))))
}

pub fn rt_timestamp(x: Timestamp) -> Result<(), String> {
    catch_unwind(|| {
        let s = x.to_string();
        let s2 = SqlValue::Timestamp(x).to_string();
        if s2 != s {
            return Err(format!("SqlValue::Timestamp displays {:?} but Timestamp displays {:?}", s2, s));
        }
        match Timestamp::from_str(&s) {
            Ok(p) if p == x && format!("{:?}", p) == format!("{:?}", x) => Ok(()),
            Ok(p) => Err(format!("format = {:?}, parse(format) = {:?} ≠ {:?}", s, p, x)),
            Err(e) => Err(format!("format = {:?}, parse(format) = Err({:?})", s, e)),
        }
    })
    .unwrap_or_else(|p| Err(format!("PANIC {}", panic_msg(p))))
}

fn h64<T: Hash>(v: &T) -> u64 {
    let mut h = std::collections::hash_map::DefaultHasher::new();
    v.hash(&mut h);
    h.finish()
}

/// the private normalised fields, read off the derived Debug output
pub fn interval_fields(i: &Interval) -> Option<(i64, i64, i64)> {
    let d = format!("{:?}", i);
    let grab = |key: &str| -> Option<i64> {
        let p = d.rfind(key)? + key.len();
        let rest = &d[p..];
        let end = rest.find(|c: char| c != '-' && !c.is_ascii_digit()).unwrap_or(rest.len());
        rest[..end].parse().ok()
    };
    Some((grab("months: ")?, grab("days: ")?, grab("microseconds: ")?))
}

pub fn rt_interval(text: &str) -> Result<(), String> {
    catch_unwind(|| {
        let x = Interval::new(text.to_string());
        let s = x.to_string();
        let s2 = SqlValue::Interval(x.clone()).to_string();
        if s2 != s {
            return Err(format!("SqlValue::Interval displays {:?} but Interval displays {:?}", s2, s));
        }
        let y = match Interval::from_str(&s) {
            Ok(y) => y,
            Err(e) => return Err(format!("format = {:?}, parse(format) = Err({:?})", s, e)),
        };
        let same_fields = interval_fields(&x) == interval_fields(&y);
        if !(x == y) || !same_fields || x.cmp(&y) != std::cmp::Ordering::Equal || h64(&x) != h64(&y) {
            return Err(format!("x = {:?}, format = {:?}, parse(format) = {:?}: equal:{} same_fields:{} cmp:{:?} hash_equal:{}", x, s, y, x == y, same_fields, x.cmp(&y), h64(&x) == h64(&y)));
        }
        Ok(())
    })
    .unwrap_or_else(|p| Err(format!("PANIC {}", panic_msg(p))))
}

pub const MAGNITUDES: [i64; 5] = [0, 1, 59, 60, 2147483647];

/// every unit / compound form the parser distinguishes × the magnitude set
pub fn interval_forms() -> Vec<String> {
    let mut out: Vec<String> = vec![];
    let units = ["YEAR", "YEARS", "MONTH", "MONTHS", "DAY", "DAYS", "HOUR", "HOURS", "MINUTE", "MINUTES", "SECOND", "SECONDS"];
    for u in units {
        for m in MAGNITUDES {
            for sign in ["", "-", "+"] {
                out.push(format!("{}{} {}", sign, m, u));
                out.push(format!("{}{} {}", sign, m, u.to_lowercase()));
            }
        }
    }
    for m in MAGNITUDES {
        for f in ["5", "500000", "000001", "999999", "1234567"] {
            out.push(format!("{}.{} SECOND", m, f));
            out.push(format!("-{}.{} SECOND", m, f));
        }
    }
    for a in MAGNITUDES {
        out.push(format!("{} YEAR TO MONTH", a));
        for b in MAGNITUDES {
            out.push(format!("{}-{} YEAR TO MONTH", a, b));
            out.push(format!("{} {} DAY TO HOUR", a, b));
            out.push(format!("{}:{} HOUR TO MINUTE", a, b));
            out.push(format!("{}:{} MINUTE TO SECOND", a, b));
            for c in MAGNITUDES {
                out.push(format!("{} {}:{} DAY TO MINUTE", a, b, c));
                out.push(format!("{}:{}:{} HOUR TO SECOND", a, b, c));
                out.push(format!("{}:{}:{}.5 HOUR TO SECOND", a, b, c));
                for d in [0i64, 59] {
                    out.push(format!("{} {}:{}:{} DAY TO SECOND", a, b, c, d));
                    out.push(format!("{} {}:{}:{}.123456 DAY TO SECOND", a, b, c, d));
                }
            }
        }
    }
    out.extend(["".to_string(), "5".to_string(), "5 FORTNIGHT".to_string(), "YEAR".to_string()]);
    out.sort();
    out.dedup();
    out
}

fn interval_form_class(text: &str) -> String {
    let toks: Vec<String> = text.split_whitespace().map(|t| t.to_uppercase()).collect();
    let units: Vec<&str> = toks.iter().map(|s| s.as_str()).filter(|t| t.chars().all(|c| c.is_ascii_alphabetic())).collect();
    if units.is_empty() {
        "no_unit".into()
    } else {
        units.join("_")
    }
}

pub fn date_boundary_set() -> Vec<Date> {
    let mut v = vec![];
    for (y, m, d) in [
        (1, 1, 1),
        (1, 12, 31),
        (9, 12, 31),
        (10, 1, 1),
        (99, 12, 31),
        (100, 1, 1),
        (999, 12, 31),
        (1000, 1, 1),
        (1582, 10, 4),
        (1582, 10, 15),
        (1899, 12, 31),
        (1900, 1, 1),
        (1969, 12, 31),
        (1970, 1, 1),
        (1999, 12, 31),
        (2000, 1, 1),
        (2000, 2, 29),
        (2024, 2, 29),
        (2038, 1, 19),
        (9999, 1, 1),
        (9999, 12, 31),
    ] {
        v.push(Date::new(y, m, d).expect("harness date"));
    }
    for y in [2023, 2024] {
        for m in 1..=12u8 {
            v.push(Date::new(y, m, 1).unwrap());
            v.push(Date::new(y, m, 28).unwrap());
            v.push(Date::new(y, m, 31).unwrap()); // Date::new accepts day 31 in every month
        }
    }
    v
}

pub fn time_boundary_set() -> Vec<Time> {
    let mut v = vec![];
    for h in [0u8, 1, 9, 10, 12, 23] {
        for m in [0u8, 1, 59] {
            for s in [0u8, 1, 59] {
                for ns in NS_SET {
                    v.push(Time::new(h, m, s, ns).expect("harness time"));
                }
            }
        }
    }
    v
}

struct RtStats {
    evaluations: u64,
    by_type: BTreeMap<&'static str, u64>,
    samples: Vec<Value>,
}

fn run_roundtrip(rep: &Report) -> RtStats {
    let mut st = RtStats { evaluations: 0, by_type: BTreeMap::new(), samples: vec![] };

    // Date: every (y, m, d) that Date::new accepts, y in 1..=9999
    let years: Vec<i32> = (1..=9999).collect();
    let per_year = par_map(&years, |_, &y| {
        let mut n = 0u64;
        for m in 0..=13u8 {
            for d in 0..=32u8 {
                let Ok(Ok(dt)) = catch_unwind(|| Date::new(y, m, d)) else { continue };
                n += 1;
                if let Err(obs) = rt_date(dt) {
                    if rt_date(dt).err() != Some(obs.clone()) {
                        rep.machinery_error(format!("non-deterministic Date round trip for {}-{}-{}", y, m, d));
                    }
                    rep.violation(
                        &[("kind", "roundtrip".into()), ("type", "date".into()), ("class", year_class(y).into())],
                        format!("Date {{year:{}, month:{}, day:{}}} does not round-trip: {}", y, m, d, obs),
                        json!({"kind":"roundtrip","type":"date","ymd":[y, m, d]}),
                    );
                }
            }
        }
        n
    });
    let n_date: u64 = per_year.iter().sum();
    st.by_type.insert("date", n_date);
    st.samples.push(json!({"roundtrip":"date","value":"0001-01-01 … 9999-12-31 (every y/m/d accepted by Date::new)","count":n_date}));

    // Time: every (h, m, s) × NS_SET
    let hours: Vec<u8> = (0..24).collect();
    let per_hour = par_map(&hours, |_, &h| {
        let mut n = 0u64;
        for m in 0..60u8 {
            for s in 0..60u8 {
                for ns in NS_SET {
                    let Ok(t) = Time::new(h, m, s, ns) else { continue };
                    n += 1;
                    if let Err(obs) = rt_time(t) {
                        if rt_time(t).err() != Some(obs.clone()) {
                            rep.machinery_error(format!("non-deterministic Time round trip for {:?}", t));
                        }
                        rep.violation(
                            &[("kind", "roundtrip".into()), ("type", "time".into()), ("class", frac_class(ns).into())],
                            format!("{:?} does not round-trip: {}", t, obs),
                            json!({"kind":"roundtrip","type":"time","hmsn":[h, m, s, ns]}),
                        );
                    }
                }
            }
        }
        n
    });
    let n_time: u64 = per_hour.iter().sum();
    st.by_type.insert("time", n_time);
    st.samples.push(json!({"roundtrip":"time","value":"every h:m:s × ns set","ns_set":NS_SET,"count":n_time}));

    // Timestamp: date boundary set × time boundary set
    let dates = date_boundary_set();
    let times = time_boundary_set();
    let per_date = par_map(&dates, |_, d| {
        let mut n = 0u64;
        for t in &times {
            let x = Timestamp::new(*d, *t);
            n += 1;
            if let Err(obs) = rt_timestamp(x) {
                rep.violation(
                    &[("kind", "roundtrip".into()), ("type", "timestamp".into()), ("class", ts_class(year_class(d.year), frac_class(t.nanosecond)))],
                    format!("{:?} does not round-trip: {}", x, obs),
                    json!({"kind":"roundtrip","type":"timestamp","ymd":[d.year, d.month, d.day],"hmsn":[t.hour, t.minute, t.second, t.nanosecond]}),
                );
            }
        }
        n
    });
    let n_ts: u64 = per_date.iter().sum();
    st.by_type.insert("timestamp", n_ts);
    st.samples.push(json!({"roundtrip":"timestamp","dates":dates.len(),"times":times.len(),"count":n_ts}));

    // Interval: every form × magnitudes
    let forms = interval_forms();
    let r = par_map(&forms, |_, f| {
        if let Err(obs) = rt_interval(f) {
            rep.violation(
                &[("kind", "roundtrip".into()), ("type", "interval".into()), ("class", interval_form_class(f))],
                format!("Interval::new({:?}) does not round-trip: {}", f, obs),
                json!({"kind":"roundtrip","type":"interval","text":f}),
            );
        }
        1u64
    });
    let n_iv: u64 = r.iter().sum();
    st.by_type.insert("interval", n_iv);
    st.samples.push(json!({"roundtrip":"interval","forms":forms.len(),"example":forms[forms.len() / 2]}));

    st.evaluations = n_date + n_time + n_ts + n_iv;
    st
}

// =============================================================================================
// totality

pub const SEEDS: &[&str] = &[
    "2024-01-31",
    "12:34:56.123456789",
    "2024-01-31 12:34:56+05:30",
    "2024-01-31T12:34:56Z",
    "1.123456 SECOND",
    "5 12:30:45.5 DAY TO SECOND",
    "1-6 YEAR TO MONTH",
    "2147483647 YEAR",
    "9223372036854775807 HOUR",
    // the same grammars at other shapes / magnitudes
    "12:34:56",
    "0001-01-01",
    "9999-12-31 23:59:59.999999999",
    "2024-01-31T12:34:56.5-0800",
    "2024-01-31 12:34:56.123456+05",
    "30 DAY",
    "-1 MONTH",
    "90 MINUTE",
    "12:30:45.123456 HOUR TO SECOND",
    "100:59 MINUTE TO SECOND",
    "178956970 YEAR",
    "178956970-7 YEAR TO MONTH",
    "2562047788 HOUR",
    "153722867280 MINUTE",
    "9223372036854 SECOND",
];

#[derive(Debug, Clone, PartialEq)]
pub enum Res {
    Ok(String),
    Err(String),
    Panic(String),
}

impl Res {
    pub fn kind(&self) -> &'static str {
        match self {
            Res::Ok(_) => "ok",
            Res::Err(_) => "err",
            Res::Panic(_) => "panic",
        }
    }
    pub fn brief(&self) -> String {
        match self {
            Res::Ok(s) => format!("Ok({})", trunc(s, 160)),
            Res::Err(s) => format!("Err({})", trunc(s, 100)),
            Res::Panic(s) => format!("PANIC: {}", trunc(s, 200)),
        }
    }
}

fn wrap<T: std::fmt::Debug>(r: std::thread::Result<Result<T, String>>) -> Res {
    match r {
        Ok(Ok(v)) => Res::Ok(format!("{:?}", v)),
        Ok(Err(e)) => Res::Err(e),
        Err(p) => Res::Panic(panic_msg(p)),
    }
}

/// the release build of vibesql-types (what the engine links)
pub fn parse_release(parser: &str, s: &str) -> Res {
    match parser {
        "date" => wrap(catch_unwind(|| Date::from_str(s))),
        "time" => wrap(catch_unwind(|| Time::from_str(s))),
        "timestamp" => wrap(catch_unwind(|| Timestamp::from_str(s))),
        _ => wrap(catch_unwind(|| {
            let x = Interval::new(s.to_string());
            let y = Interval::from_str(s)?;
            // everything a stored interval is subjected to
            let _ = x.to_string();
            let _ = x == y;
            let _ = x.cmp(&y);
            let _ = x.partial_cmp(&y);
            let _ = h64(&x);
            Ok(x)
        })),
    }
}

/// the same sources compiled with overflow-checks (debug-build semantics of integer overflow)
pub fn parse_twin(parser: &str, s: &str) -> Res {
    use temporal_ovf as t;
    match parser {
        "date" => wrap(catch_unwind(|| t::Date::from_str(s))),
        "time" => wrap(catch_unwind(|| t::Time::from_str(s))),
        "timestamp" => wrap(catch_unwind(|| t::Timestamp::from_str(s))),
        _ => wrap(catch_unwind(|| {
            let x = t::Interval::new(s.to_string());
            let y = t::Interval::from_str(s)?;
            let _ = x.to_string();
            let _ = x == y;
            let _ = x.cmp(&y);
            let _ = x.partial_cmp(&y);
            let _ = h64(&x);
            Ok(x)
        })),
    }
}

/// Independent exact (i128) evaluation of the interval arithmetic for the forms whose meaning is
/// unambiguous. Returns the name of the first computation whose exact result does not fit the
/// field type (i32 months / i64 microseconds), i.e. where machine arithmetic must overflow.
pub fn interval_overflow_site(s: &str) -> Option<(&'static str, String)> {
    let parts: Vec<&str> = s.split_whitespace().collect();
    if parts.len() < 2 {
        return None;
    }
    let i32r = |x: i128| x >= i32::MIN as i128 && x <= i32::MAX as i128;
    let i64r = |x: i128| x >= i64::MIN as i128 && x <= i64::MAX as i128;
    let p32 = |t: &str| t.parse::<i32>().ok().map(|x| x as i128);
    let p64 = |t: &str| t.parse::<i64>().ok().map(|x| x as i128);
    // "<whole>[.<frac>]" seconds → (exact microseconds, overflow?)
    let seconds = |t: &str| -> (i128, Option<(&'static str, String)>) {
        match t.find('.') {
            Some(p) => {
                let w = p64(&t[..p]).unwrap_or(0);
                let padded = format!("{:0<6}", &t[p + 1..]);
                let frac = padded.get(..6).and_then(|x| x.parse::<i64>().ok()).unwrap_or(0) as i128;
                let us = w * 1_000_000;
                if !i64r(us) || !i64r(us + frac) {
                    return (us + frac, Some(("second_overflow", format!("{} s × 10^6 + {} µs = {} does not fit i64", w, frac, us + frac))));
                }
                (us + frac, None)
            }
            None => {
                let w = p64(t).unwrap_or(0);
                let us = w * 1_000_000;
                if !i64r(us) {
                    return (us, Some(("second_overflow", format!("{} s × 10^6 µs = {} does not fit i64", w, us))));
                }
                (us, None)
            }
        }
    };
    let hms = |t: &str| -> Option<(&'static str, String)> {
        let f: Vec<&str> = t.split(':').collect();
        let mut total: i128 = 0;
        if let Some(h) = f.first().and_then(|x| p64(x)) {
            let us = h * 3600 * 1_000_000;
            if !i64r(h * 3600) || !i64r(us) {
                return Some(("hour_overflow", format!("{} h × 3600 × 10^6 µs = {} does not fit i64", h, us)));
            }
            total += us;
        }
        if let Some(m) = f.get(1).and_then(|x| p64(x)) {
            let us = m * 60 * 1_000_000;
            if !i64r(m * 60) || !i64r(us) {
                return Some(("minute_overflow", format!("{} min × 60 × 10^6 µs = {} does not fit i64", m, us)));
            }
            total += us;
            if !i64r(total) {
                return Some(("time_sum_overflow", format!("hours + minutes = {} µs does not fit i64", total)));
            }
        }
        if let Some(sec) = f.get(2) {
            let (us, o) = seconds(sec);
            if o.is_some() {
                return o;
            }
            total += us;
            if !i64r(total) {
                return Some(("time_sum_overflow", format!("h:m:s total = {} µs does not fit i64", total)));
            }
        }
        None
    };
    if let Some(to) = parts.iter().position(|p| p.eq_ignore_ascii_case("TO")) {
        if to < 2 || to + 1 >= parts.len() {
            return None;
        }
        let (v, from, to_u) = (parts[0], parts[to - 1].to_uppercase(), parts[to + 1].to_uppercase());
        if from == "YEAR" && to_u == "MONTH" {
            let (y, m) = match v.find('-') {
                Some(p) => (p32(&v[..p]).unwrap_or(0), p32(&v[p + 1..]).unwrap_or(0)),
                None => (p32(v).unwrap_or(0), 0),
            };
            if !i32r(y * 12) || !i32r(y * 12 + m) {
                return Some(("year_overflow", format!("{} years × 12 + {} = {} months does not fit i32", y, m, y * 12 + m)));
            }
            return None;
        }
        if from == "HOUR" || from == "MINUTE" || from == "SECOND" {
            return hms(v);
        }
        return None;
    }
    let (v, unit) = (parts[0], parts[1].to_uppercase());
    match unit.as_str() {
        "YEAR" | "YEARS" => {
            let y = p32(v)?;
            if !i32r(y * 12) {
                return Some(("year_overflow", format!("{} years × 12 = {} months does not fit i32", y, y * 12)));
            }
            None
        }
        "HOUR" | "HOURS" => {
            let h = p64(v)?;
            let us = h * 3600 * 1_000_000;
            if !i64r(h * 3600) || !i64r(us) {
                return Some(("hour_overflow", format!("{} h × 3600 × 10^6 µs = {} does not fit i64", h, us)));
            }
            None
        }
        "MINUTE" | "MINUTES" => {
            let m = p64(v)?;
            let us = m * 60 * 1_000_000;
            if !i64r(m * 60) || !i64r(us) {
                return Some(("minute_overflow", format!("{} min × 60 × 10^6 µs = {} does not fit i64", m, us)));
            }
            None
        }
        "SECOND" | "SECONDS" => seconds(v).1,
        _ => None,
    }
}

/// Class of a totality input: a decision list over features of the *input text* only.
/// Returns (class, site): `class` names the grammar component the input deviates in, `site` refines
/// it (which multiplication overflows); findings match on the class.
pub fn input_class2(parser: &str, s: &str) -> (String, String) {
    if parser == "interval" {
        let toks: Vec<&str> = s.split_whitespace().collect();
        if let Some(p) = toks.iter().position(|t| t.eq_ignore_ascii_case("TO")) {
            if p >= 2 && p + 1 == toks.len() {
                return ("interval_dangling_TO".into(), String::new());
            }
        }
    }
    if !s.is_ascii() {
        let non_ascii_at: Vec<usize> = s.char_indices().filter(|(_, c)| !c.is_ascii()).map(|(i, _)| i).collect();
        if parser == "interval" {
            // the seconds fraction lives in the first whitespace-separated token, after a '.'
            let lead = s.len() - s.trim_start().len();
            let t0_end = s[lead..].find(char::is_whitespace).map(|p| p + lead).unwrap_or(s.len());
            if let Some(d) = s[lead..t0_end].find('.').map(|p| p + lead) {
                if non_ascii_at.iter().any(|&i| i > d && i < t0_end) {
                    return ("interval_seconds_fraction_non_ascii".into(), String::new());
                }
            }
            if let Some((site, _)) = interval_overflow_site(s) {
                return ("interval_field_arithmetic_overflow".into(), site.to_string());
            }
            return ("interval_non_ascii_elsewhere".into(), String::new());
        }
        // Time::from_str treats everything after the first '.' as the fraction (Timestamp delegates)
        if parser != "date" {
            if let Some(d) = s.find('.') {
                if non_ascii_at.iter().any(|&i| i > d) {
                    return ("time_fraction_non_ascii".into(), String::new());
                }
            }
        }
        if parser == "timestamp" {
            // a '+' / '-' beyond the date part starts a candidate timezone suffix
            let t = s.trim();
            let off = s.len() - s.trim_start().len();
            if let Some(p) = t.rfind(['+', '-']) {
                if p > 10 && non_ascii_at.iter().any(|&i| i > p + off) {
                    return ("timestamp_tz_suffix_non_ascii".into(), String::new());
                }
            }
        }
        return (format!("{}_non_ascii_elsewhere", parser), String::new());
    }
    if parser == "interval" {
        if let Some((site, _)) = interval_overflow_site(s) {
            return ("interval_field_arithmetic_overflow".into(), site.to_string());
        }
    }
    // fallback: the shape of the input (digit runs → d, letter runs → a)
    let mut shape = String::new();
    for c in s.chars() {
        let k = if c.is_ascii_digit() {
            'd'
        } else if c.is_alphabetic() {
            'a'
        } else {
            c
        };
        if (k == 'd' || k == 'a') && shape.ends_with(k) {
            continue;
        }
        shape.push(k);
    }
    (format!("shape:{}", trunc(&shape, 24)), String::new())
}

pub fn input_class(parser: &str, s: &str) -> String {
    let (c, site) = input_class2(parser, s);
    if site.is_empty() {
        c
    } else {
        format!("{}/{}", c, site)
    }
}

#[derive(Debug, Clone)]
pub struct Probe {
    pub release: Res,
    pub twin: Res,
    pub overflow: Option<(&'static str, String)>,
    /// for Ok values of date/time/timestamp in the valid range: does the parsed value round-trip
    pub reparse: Option<Result<(), String>>,
}

pub fn probe(parser: &str, s: &str) -> Probe {
    let release = parse_release(parser, s);
    let twin = parse_twin(parser, s);
    let overflow = if parser == "interval" { interval_overflow_site(s) } else { None };
    let reparse = match (&release, parser) {
        (Res::Ok(_), "date") => Date::from_str(s).ok().filter(|d| (1..=9999).contains(&d.year)).map(rt_date),
        (Res::Ok(_), "time") => Time::from_str(s).ok().map(rt_time),
        (Res::Ok(_), "timestamp") => Timestamp::from_str(s).ok().filter(|d| (1..=9999).contains(&d.date.year)).map(rt_timestamp),
        (Res::Ok(_), "interval") => Some(rt_interval(s)),
        _ => None,
    };
    Probe { release, twin, overflow, reparse }
}

/// verdicts for one probe: (failure kind, explanation)
pub fn verdicts(parser: &str, s: &str, p: &Probe) -> Vec<(&'static str, String)> {
    let mut v = vec![];
    if let Res::Panic(m) = &p.release {
        v.push(("panic", format!("{} parser panics on {:?}: {}", parser, s, trunc(m, 200))));
    } else if let Res::Panic(m) = &p.twin {
        v.push((
            "overflow",
            format!(
                "{} parser on {:?}: integer overflow — release build returns {} (wrapped), the overflow-checked build of the same source panics: {}{}",
                parser,
                s,
                p.release.brief(),
                trunc(m, 120),
                p.overflow.as_ref().map(|o| format!("; exact arithmetic: {}", o.1)).unwrap_or_default()
            ),
        ));
    } else if let (Some(o), Res::Ok(got)) = (&p.overflow, &p.release) {
        // two independent oracles disagree: that is a harness problem, never a verdict
        v.push(("model_disagrees", format!("{} parser on {:?}: the i128 model says {}, but the overflow-checked build did not panic and returned {}", parser, s, o.1, trunc(got, 160))));
    }
    if p.release.kind() != "panic" && p.twin.kind() != "panic" && p.release.kind() != p.twin.kind() {
        v.push(("twin_diverges", format!("release {} vs overflow-checked twin {}", p.release.brief(), p.twin.brief())));
    }
    if let Some(Err(e)) = &p.reparse {
        v.push(("roundtrip", format!("{} value parsed from {:?} does not round-trip: {}", parser, s, e)));
    }
    v
}

// ---------------------------------------------------------------------------------------------
// shards and batches (shared by worker and driver)

/// shard ids: `seed:<i>` for every seed, `short:<k>` for every first character of Σ, `short:empty`
pub fn shard_ids() -> Vec<String> {
    let mut v: Vec<String> = (0..SEEDS.len()).map(|i| format!("seed:{}", i)).collect();
    v.push("short:empty".into());
    for k in 0..SIGMA.len() {
        v.push(format!("short:{}", k));
    }
    v
}

fn short_len(thorough: bool) -> usize {
    if thorough {
        7
    } else {
        4
    }
}

/// Enumerate the inputs of one shard, batch by batch. `f(batch_id, input)`; `only_batch` restricts
/// the enumeration (careful mode).
fn enumerate_shard(shard: &str, thorough: bool, only_batch: Option<&str>, mut start_batch: impl FnMut(&str), mut f: impl FnMut(&str)) {
    let want = |b: &str| only_batch.map_or(true, |o| o == b);
    if shard == "short:empty" {
        if want("short:empty") {
            start_batch("short:empty");
            f("");
        }
        return;
    }
    if let Some(k) = shard.strip_prefix("short:") {
        let k: usize = k.parse().expect("shard id");
        let b = format!("short:{}", k);
        if want(&b) {
            start_batch(&b);
            strings_with_first(SIGMA[k], short_len(thorough), SIGMA, |s| f(s));
        }
        return;
    }
    let i: usize = shard.strip_prefix("seed:").expect("shard id").parse().expect("shard id");
    let seed = SEEDS[i];
    let mut seen: HashSet<u128> = HashSet::new();
    let b0 = format!("seed:{}:e0", i);
    // the seed itself, its truncations
    let mut level0 = vec![seed.to_string()];
    level0.extend(truncations(seed));
    for s in &level0 {
        seen.insert(hash128(s.as_bytes()));
    }
    if want(&b0) {
        start_batch(&b0);
        for s in &level0 {
            f(s);
        }
    }
    let e1 = edits1(seed, SIGMA);
    let b1 = format!("seed:{}:e1", i);
    let fresh1: Vec<&String> = e1.iter().filter(|s| seen.insert(hash128(s.as_bytes()))).collect();
    if want(&b1) {
        start_batch(&b1);
        for s in &fresh1 {
            f(s);
        }
    }
    if thorough {
        for (j, m) in e1.iter().enumerate() {
            let b2 = format!("seed:{}:e2:{}", i, j);
            let e2 = edits1(m, SIGMA);
            // dedup is global per seed, so it must be advanced even for batches that are skipped
            let fresh2: Vec<&String> = e2.iter().filter(|s| seen.insert(hash128(s.as_bytes()))).collect();
            if want(&b2) {
                start_batch(&b2);
                for s in &fresh2 {
                    f(s);
                }
            }
        }
    }
}

#[derive(Default)]
struct WorkerStats {
    inputs: u64,
    evaluations: u64,
    outcome: BTreeMap<String, u64>,
    classes: BTreeSet<String>,
    fails: BTreeMap<String, (u64, Value)>,
    ok_samples: Vec<Value>,
}

fn err_prefix(e: &str) -> String {
    // error messages embed the input; keep the constant prefix only
    let p = e.split(|c| c == ':' || c == '\'').next().unwrap_or("");
    trunc(p.trim(), 40)
}

fn fail_sig(fk: &str, parser: &str, s: &str) -> Vec<(String, String)> {
    let (class, site) = input_class2(parser, s);
    let mut v = if fk == "roundtrip" {
        vec![("kind".to_string(), "roundtrip".to_string()), ("type".to_string(), parser.to_string()), ("class".to_string(), text_value_class(parser, s))]
    } else {
        vec![("kind".to_string(), "totality".to_string()), ("parser".to_string(), parser.to_string()), ("class".to_string(), class)]
    };
    if !site.is_empty() && fk != "roundtrip" {
        v.push(("site".to_string(), site));
    }
    v
}

/// `lawcheck worker c22 <tier> <shard>`: prints `B <batch>` before each batch, `F <json>` per new
/// failing signature, `D <json>` at the end.
pub fn worker(tier: &str, shard: &str) -> i32 {
    let thorough = tier == "thorough";
    let out = std::io::stdout();
    let mut st = WorkerStats::default();
    {
        let st = &mut st;
        enumerate_shard(
            shard,
            thorough,
            None,
            |b| {
                let mut o = out.lock();
                let _ = writeln!(o, "B {}", b);
                let _ = o.flush();
            },
            |s| {
                st.inputs += 1;
                for parser in PARSERS {
                    st.evaluations += 1;
                    let p = probe(parser, s);
                    let oc = match &p.release {
                        Res::Ok(_) => "ok".to_string(),
                        Res::Err(e) => format!("err:{}", err_prefix(e)),
                        Res::Panic(_) => "panic".to_string(),
                    };
                    *st.outcome.entry(format!("{}:{}", parser, p.release.kind())).or_default() += 1;
                    st.classes.insert(format!("{}:{}", parser, oc));
                    if p.release.kind() == "ok" && parser != "interval" && st.ok_samples.len() < 3 && !SEEDS.contains(&s) {
                        st.ok_samples.push(json!({"parser":parser,"input":s,"result":p.release.brief()}));
                    }
                    for (fk, why) in verdicts(parser, s, &p) {
                        let sig = fail_sig(fk, parser, s);
                        let key = sig.iter().map(|(k, v)| format!("{}={}", k, v)).collect::<Vec<_>>().join(";");
                        *st.outcome.entry(format!("{}:fail:{}", parser, fk)).or_default() += 1;
                        let e = st.fails.entry(key).or_insert_with(|| {
                            (
                                0,
                                json!({"sig": sig.iter().cloned().collect::<BTreeMap<String,String>>(), "what": why, "failure": fk,
                                       "case": {"kind":"totality","parser":parser,"input":s}}),
                            )
                        });
                        e.0 += 1;
                    }
                }
            },
        );
    }
    let mut o = out.lock();
    for (_, (n, f)) in &st.fails {
        let mut f = f.clone();
        f["count"] = json!(n);
        let _ = writeln!(o, "F {}", f);
    }
    let _ = writeln!(
        o,
        "D {}",
        json!({"inputs": st.inputs, "evaluations": st.evaluations, "outcome": st.outcome, "classes": st.classes, "ok_samples": st.ok_samples})
    );
    let _ = o.flush();
    0
}

/// `lawcheck worker c22-careful <tier> <shard> <batch>`: prints every input before it is parsed
pub fn worker_careful(tier: &str, shard: &str, batch: &str) -> i32 {
    let out = std::io::stdout();
    enumerate_shard(
        shard,
        tier == "thorough",
        Some(batch),
        |_| {},
        |s| {
            for parser in PARSERS {
                {
                    let mut o = out.lock();
                    let _ = writeln!(o, "I {}", json!({"parser":parser,"input":s}));
                    let _ = o.flush();
                }
                let _ = probe(parser, s);
            }
        },
    );
    println!("D {{}}");
    0
}

struct ShardResult {
    shard: String,
    done: Option<Value>,
    fails: Vec<Value>,
    died: Option<String>,
}

fn run_shard(tier: &str, shard: &str) -> ShardResult {
    let exe = std::env::current_exe().expect("current_exe");
    let mut res = ShardResult { shard: shard.to_string(), done: None, fails: vec![], died: None };
    let child = Command::new(&exe).args(["worker", "c22", tier, shard]).stdin(Stdio::null()).stdout(Stdio::piped()).stderr(Stdio::null()).spawn();
    let mut child = match child {
        Ok(c) => c,
        Err(e) => {
            res.died = Some(format!("spawn failed: {}", e));
            return res;
        }
    };
    let mut last_batch = String::new();
    if let Some(so) = child.stdout.take() {
        for line in BufReader::new(so).lines().map_while(Result::ok) {
            if let Some(b) = line.strip_prefix("B ") {
                last_batch = b.to_string();
            } else if let Some(f) = line.strip_prefix("F ") {
                if let Ok(v) = serde_json::from_str::<Value>(f) {
                    res.fails.push(v);
                }
            } else if let Some(d) = line.strip_prefix("D ") {
                res.done = serde_json::from_str::<Value>(d).ok();
            }
        }
    }
    let status = child.wait();
    if res.done.is_none() {
        // the worker died (abort, stack overflow, kill): find the in-flight input by re-running the
        // in-flight batch in careful mode (R4)
        let mut culprit = String::new();
        if let Ok(mut c) = Command::new(&exe).args(["worker", "c22-careful", tier, shard, &last_batch]).stdin(Stdio::null()).stdout(Stdio::piped()).stderr(Stdio::null()).spawn() {
            if let Some(so) = c.stdout.take() {
                for line in BufReader::new(so).lines().map_while(Result::ok) {
                    if let Some(i) = line.strip_prefix("I ") {
                        culprit = i.to_string();
                    } else if line.starts_with("D ") {
                        culprit.clear(); // careful run completed: not reproducible
                    }
                }
            }
            let _ = c.wait();
        }
        res.died = Some(format!("status {:?} in batch {:?}; in-flight input: {}", status.ok(), last_batch, if culprit.is_empty() { "<not reproduced>".to_string() } else { culprit }));
    }
    res
}

pub fn run(tier: &str) -> i32 {
    let mut rep = Report::new("C22", tier, "exploration");
    let thorough = tier == "thorough";
    if !temporal_ovf::overflow_checks_enabled() {
        rep.machinery_error("temporal_ovf was not compiled with overflow-checks (workspace profile override missing)".into());
    }

    // --- round trip (in-process)
    let t0 = std::time::Instant::now();
    let rt = run_roundtrip(&rep);
    let rt_secs = t0.elapsed().as_secs_f64();

    // --- totality (worker subprocesses, one per shard, all cores)
    let t1 = std::time::Instant::now();
    let shards = shard_ids();
    let results = par_map(&shards, |_, s| run_shard(tier, s));
    let mut inputs = 0u64;
    let mut evals = 0u64;
    let mut outcome: BTreeMap<String, u64> = BTreeMap::new();
    let mut classes: BTreeSet<String> = BTreeSet::new();
    let mut samples = rt.samples.clone();
    for r in &results {
        if let Some(why) = &r.died {
            // attribute the death to the in-flight case
            let culprit: Option<Value> = why.split("in-flight input: ").nth(1).and_then(|s| serde_json::from_str(s).ok());
            match culprit {
                Some(c) => {
                    let parser = c["parser"].as_str().unwrap_or("?").to_string();
                    let input = c["input"].as_str().unwrap_or("").to_string();
                    rep.violation(
                        &[("kind", "totality".into()), ("parser", parser.clone()), ("class", format!("abort:{}", input_class(&parser, &input)))],
                        format!("worker process died while the {} parser was given {:?} ({})", parser, input, why),
                        json!({"kind":"totality","parser":parser,"input":input,"isolate":true}),
                    );
                }
                None => rep.machinery_error(format!("worker for shard {} died and the case could not be isolated: {}", r.shard, why)),
            }
            continue;
        }
        let d = r.done.as_ref().unwrap();
        inputs += d["inputs"].as_u64().unwrap_or(0);
        evals += d["evaluations"].as_u64().unwrap_or(0);
        if let Some(m) = d["outcome"].as_object() {
            for (k, v) in m {
                *outcome.entry(k.clone()).or_default() += v.as_u64().unwrap_or(0);
            }
        }
        if let Some(a) = d["classes"].as_array() {
            for c in a {
                classes.insert(c.as_str().unwrap_or("").to_string());
            }
        }
        if samples.len() < 8 {
            if let Some(a) = d["ok_samples"].as_array() {
                samples.extend(a.iter().take(1).cloned());
            }
        }
    }
    // failing cases: re-execute each witness twice in this process (R3) before reporting
    for r in &results {
        for f in &r.fails {
            let case = &f["case"];
            let parser = case["parser"].as_str().unwrap_or("");
            let input = case["input"].as_str().unwrap_or("");
            let fk = f["failure"].as_str().unwrap_or("");
            if fk == "model_disagrees" || fk == "twin_diverges" {
                rep.machinery_error(format!("oracles disagree: {}", f["what"].as_str().unwrap_or("")));
                continue;
            }
            let again1 = verdicts(parser, input, &probe(parser, input));
            let again2 = verdicts(parser, input, &probe(parser, input));
            if !again1.iter().any(|v| v.0 == fk) || !again2.iter().any(|v| v.0 == fk) {
                rep.machinery_error(format!("failure {:?} of {} parser on {:?} did not reproduce in the driver", fk, parser, input));
                continue;
            }
            let sig: Vec<(String, String)> = f["sig"].as_object().map(|m| m.iter().map(|(k, v)| (k.clone(), v.as_str().unwrap_or("").to_string())).collect()).unwrap_or_default();
            let sigref: Vec<(&str, String)> = sig.iter().map(|(k, v)| (k.as_str(), v.clone())).collect();
            let n = f["count"].as_u64().unwrap_or(1);
            rep.violation(&sigref, f["what"].as_str().unwrap_or("").to_string(), case.clone());
            if n > 1 {
                rep.total_failing_cases.fetch_add(n - 1, std::sync::atomic::Ordering::Relaxed);
            }
        }
    }
    let tot_secs = t1.elapsed().as_secs_f64();

    let mut rtm = serde_json::Map::new();
    for (k, v) in &rt.by_type {
        rtm.insert(k.to_string(), json!(v));
    }
    rep.set("evaluations", json!(rt.evaluations + evals));
    rep.set("roundtrip_evaluations", Value::Object(rtm));
    rep.set("roundtrip_wall_s", json!(rt_secs));
    rep.set("totality_inputs", json!(inputs));
    rep.set("totality_evaluations", json!(evals));
    rep.set("totality_wall_s", json!(tot_secs));
    rep.set("totality_outcomes", json!(outcome));
    rep.set("distinct_nontrivial", json!(classes.len()));
    rep.set("distinct_outcome_classes", json!(classes));
    rep.set("seeds", json!(SEEDS));
    rep.set("alphabet", json!(SIGMA.iter().map(|c| c.to_string()).collect::<Vec<_>>()));
    rep.set("edit_bound", json!(if thorough { 2 } else { 1 }));
    rep.set("short_string_length_bound", json!(short_len(thorough)));
    rep.set("worker_shards", json!(shards.len()));
    rep.set("exhaustive", json!(true));
    rep.set("samples", json!(samples));
    rep.set(
        "rule",
        json!("round trip: every (y,m,d) accepted by Date::new for y in 1..=9999; every (h,m,s) × 10 nanosecond values; date boundary set × time boundary set; every interval unit/compound form × magnitudes {0,1,59,60,2^31-1}; oracle parse(format(x)) == x field by field (Display of the type and of SqlValue). totality: every seed, every truncation, every ≤k-edit mutant (substitute/insert/delete one char of Σ; k = 1 quick, 2 thorough) and every string over Σ up to the length bound, each through Date/Time/Timestamp::from_str and Interval::new/from_str (+ Display, ==, cmp, hash of the result) in worker subprocesses; oracle: returns Ok or Err in the release build, does not panic in the overflow-checked build of the same sources, and no modelled multiplication exceeds its field type under exact i128 arithmetic; values that parse Ok (years 1..=9999) must also round-trip. distinct_nontrivial = distinct (parser, outcome, error-message prefix) classes observed"),
    );
    rep.assume("Date validity is what Date::new accepts (day 31 in every month); negative years and years > 9999 are outside valid DATE and are not round-tripped");
    rep.assume("inputs further than the edit bound from every seed and longer than the length bound are not covered");
    rep.finish()
}

// =============================================================================================
// replay

pub fn replay(case: &Value) -> i32 {
    match case["kind"].as_str().unwrap_or("") {
        "totality" => {
            let parser = case["parser"].as_str().unwrap_or("interval");
            let input = case["input"].as_str().unwrap_or("");
            println!("parser: {}   input: {:?}   class: {}", parser, input, input_class(parser, input));
            if case["isolate"].as_bool() == Some(true) && std::env::var("LAWCHECK_NO_ISOLATE").is_err() {
                // a case that killed a worker is replayed in a child process
                let exe = std::env::current_exe().expect("current_exe");
                let tmp = format!("{}", json!({"kind":"totality","parser":parser,"input":input}));
                let st = Command::new(exe).args(["worker", "c22-one", parser, input]).status();
                println!("child process status: {:?} (case: {})", st, tmp);
                return 0;
            }
            let p = probe(parser, input);
            println!("release build (overflow wraps):          {}", p.release.brief());
            println!("overflow-checked build of same sources:  {}", p.twin.brief());
            if parser == "interval" {
                match &p.overflow {
                    Some((site, why)) => println!("exact i128 arithmetic:                   {} — {}", site, why),
                    None => println!("exact i128 arithmetic:                   no modelled computation overflows"),
                }
            }
            if let Some(r) = &p.reparse {
                println!("parsed value round-trips:                {:?}", r);
            }
            println!("expected: Ok or Err from both builds, no overflow, parsed values round-trip");
            for (fk, why) in verdicts(parser, input, &p) {
                println!("FAIL [{}] {}", fk, why);
            }
            0
        }
        "roundtrip" => {
            let a = |k: &str, i: usize| case[k][i].as_i64().unwrap_or(0);
            let r = match case["type"].as_str().unwrap_or("") {
                "date" => {
                    let d = Date { year: a("ymd", 0) as i32, month: a("ymd", 1) as u8, day: a("ymd", 2) as u8 };
                    println!("value: {:?}\nformat(value): {:?}", d, catch_unwind(|| d.to_string()).unwrap_or_else(|_| "PANIC".into()));
                    rt_date(d)
                }
                "time" => {
                    let t = Time { hour: a("hmsn", 0) as u8, minute: a("hmsn", 1) as u8, second: a("hmsn", 2) as u8, nanosecond: a("hmsn", 3) as u32 };
                    println!("value: {:?}\nformat(value): {:?}", t, catch_unwind(|| t.to_string()).unwrap_or_else(|_| "PANIC".into()));
                    rt_time(t)
                }
                "timestamp" => {
                    let d = Date { year: a("ymd", 0) as i32, month: a("ymd", 1) as u8, day: a("ymd", 2) as u8 };
                    let t = Time { hour: a("hmsn", 0) as u8, minute: a("hmsn", 1) as u8, second: a("hmsn", 2) as u8, nanosecond: a("hmsn", 3) as u32 };
                    let x = Timestamp::new(d, t);
                    println!("value: {:?}\nformat(value): {:?}", x, catch_unwind(|| x.to_string()).unwrap_or_else(|_| "PANIC".into()));
                    rt_timestamp(x)
                }
                _ => {
                    let text = case["text"].as_str().unwrap_or("");
                    println!("value: Interval::new({:?}) = {:?}", text, catch_unwind(AssertUnwindSafe(|| format!("{:?}", Interval::new(text.to_string())))).unwrap_or_else(|_| "PANIC".into()));
                    rt_interval(text)
                }
            };
            match r {
                Ok(()) => println!("observed: parse(format(value)) == value\nexpected: parse(format(value)) == value"),
                Err(e) => println!("observed: {}\nexpected: parse(format(value)) == value", e),
            }
            0
        }
        other => {
            eprintln!("unknown C22 case kind {:?}", other);
            2
        }
    }
}

/// `lawcheck worker c22-one <parser> <input>`: one probe in this process (used by isolated replay)
pub fn worker_one(parser: &str, input: &str) -> i32 {
    let p = probe(parser, input);
    println!("release: {}\ntwin: {}", p.release.brief(), p.twin.brief());
    0
}
