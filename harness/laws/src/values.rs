//! The explicit value set V of C21 (DESIGN §5 C21), value classes (features of the *input* used in
//! signatures) and a lossless JSON encoding of `SqlValue` for replay files.

use std::str::FromStr;

use serde_json::{json, Value};
use vibesql_types::{Date, Interval, SqlValue, Time, Timestamp};

#[derive(Clone)]
pub struct V {
    pub v: SqlValue,
    /// short human readable label, e.g. `Double(-0.0)`
    pub label: String,
}

pub fn variant(v: &SqlValue) -> &'static str {
    match v {
        SqlValue::Integer(_) => "Integer",
        SqlValue::Smallint(_) => "Smallint",
        SqlValue::Bigint(_) => "Bigint",
        SqlValue::Unsigned(_) => "Unsigned",
        SqlValue::Numeric(_) => "Numeric",
        SqlValue::Float(_) => "Float",
        SqlValue::Real(_) => "Real",
        SqlValue::Double(_) => "Double",
        SqlValue::Character(_) => "Character",
        SqlValue::Varchar(_) => "Varchar",
        SqlValue::Boolean(_) => "Boolean",
        SqlValue::Date(_) => "Date",
        SqlValue::Time(_) => "Time",
        SqlValue::Timestamp(_) => "Timestamp",
        SqlValue::Interval(_) => "Interval",
        SqlValue::Null => "Null",
    }
}

/// coarse kind: the four float-carrying variants share one kind (they share one implementation
/// pattern in comparison.rs / hash.rs), likewise the integer variants and the string variants
pub fn kind(v: &SqlValue) -> &'static str {
    match v {
        SqlValue::Integer(_) | SqlValue::Smallint(_) | SqlValue::Bigint(_) | SqlValue::Unsigned(_) => "int",
        SqlValue::Numeric(_) | SqlValue::Float(_) | SqlValue::Real(_) | SqlValue::Double(_) => "float",
        SqlValue::Character(_) | SqlValue::Varchar(_) => "string",
        SqlValue::Boolean(_) => "bool",
        SqlValue::Date(_) => "date",
        SqlValue::Time(_) => "time",
        SqlValue::Timestamp(_) => "timestamp",
        SqlValue::Interval(_) => "interval",
        SqlValue::Null => "null",
    }
}

fn fclass(x: f64, subnormal: bool) -> &'static str {
    if x.is_nan() {
        "nan"
    } else if x == 0.0 {
        if x.is_sign_negative() {
            "neg_zero"
        } else {
            "pos_zero"
        }
    } else if x.is_infinite() {
        if x > 0.0 {
            "pos_inf"
        } else {
            "neg_inf"
        }
    } else if subnormal {
        "subnormal"
    } else {
        "finite"
    }
}

fn iclass(mag: u64) -> &'static str {
    if mag == 0 {
        "zero"
    } else if mag <= (1u64 << 53) {
        "small"
    } else {
        "magnitude_gt_2^53"
    }
}

/// Which of the three normalised fields an interval text addresses, judged from its unit keywords
/// only (a feature of the input text; the parsed fields are private to the code under test).
pub fn interval_profile(text: &str) -> &'static str {
    let up = text.to_uppercase();
    let toks: Vec<&str> = up.split_whitespace().collect();
    let is_m = |t: &str| matches!(t, "YEAR" | "YEARS" | "MONTH" | "MONTHS");
    let is_d = |t: &str| matches!(t, "DAY" | "DAYS");
    let is_t = |t: &str| matches!(t, "HOUR" | "HOURS" | "MINUTE" | "MINUTES" | "SECOND" | "SECONDS");
    let m = toks.iter().any(|t| is_m(t));
    let d = toks.iter().any(|t| is_d(t));
    let t = toks.iter().any(|t| is_t(t));
    match (m, d, t) {
        (true, false, false) => "months",
        (false, true, false) => "days",
        (false, false, true) => "time",
        (false, true, true) => "days+time",
        (false, false, false) => "no_unit",
        _ => "mixed",
    }
}

/// value class: a feature of the value itself
pub fn vclass(v: &SqlValue) -> String {
    match v {
        // integers: what matters to the engine is whether the value survives a trip through f64
        SqlValue::Integer(i) | SqlValue::Bigint(i) => iclass(i.unsigned_abs()).into(),
        SqlValue::Smallint(i) => iclass(i.unsigned_abs() as u64).into(),
        SqlValue::Unsigned(u) => iclass(*u).into(),
        SqlValue::Numeric(f) | SqlValue::Double(f) => fclass(*f, f.is_subnormal()).into(),
        SqlValue::Float(f) | SqlValue::Real(f) => fclass(*f as f64, f.is_subnormal()).into(),
        SqlValue::Character(s) | SqlValue::Varchar(s) => {
            if s.is_empty() {
                "empty".into()
            } else if !s.is_ascii() {
                "non_ascii".into()
            } else if s.ends_with(' ') {
                "trailing_space".into()
            } else {
                "plain".into()
            }
        }
        SqlValue::Boolean(b) => format!("{}", b),
        SqlValue::Date(_) | SqlValue::Time(_) | SqlValue::Timestamp(_) => "t".into(),
        SqlValue::Interval(i) => interval_profile(&i.value).into(),
        SqlValue::Null => "null".into(),
    }
}

/// class of a pair / triple: symmetric in its arguments (sorted), computed from the inputs only
pub fn class_of(vals: &[&SqlValue]) -> String {
    let mut c: Vec<String> = vals.iter().map(|v| vclass(v)).collect();
    c.sort();
    c.dedup();
    if vals.iter().all(|v| matches!(v, SqlValue::Interval(_))) {
        return if c.len() == 1 { "same_fields".to_string() } else { "cross_fields".to_string() };
    }
    if c == ["neg_zero", "pos_zero"] {
        return "neg_zero_vs_pos_zero".into();
    }
    if c.len() >= 2 && c.contains(&"nan".to_string()) && vals.iter().all(|v| kind(v) == "float") {
        return "nan_vs_number".into();
    }
    if vals.iter().all(|v| kind(v) == "int") && c.contains(&"magnitude_gt_2^53".to_string()) {
        return "magnitude_gt_2^53".into();
    }
    c.join("|")
}

pub fn kinds_of(vals: &[&SqlValue]) -> String {
    let mut k: Vec<&str> = vals.iter().map(|v| kind(v)).collect();
    k.sort();
    k.dedup();
    k.join(",")
}

pub fn variants_of(vals: &[&SqlValue]) -> String {
    vals.iter().map(|v| variant(v)).collect::<Vec<_>>().join(",")
}

fn d(y: i32, m: u8, dd: u8) -> Date {
    Date::new(y, m, dd).expect("harness date")
}
fn t(h: u8, m: u8, s: u8, ns: u32) -> Time {
    Time::new(h, m, s, ns).expect("harness time")
}

pub const INTERVAL_TEXTS: &[&str] = &[
    "1 YEAR",
    "12 MONTH",
    "1-0 YEAR TO MONTH",
    "360 DAY",
    "1 MONTH",
    "30 DAY",
    "1 DAY",
    "24 HOUR",
    "1440 MINUTE",
    "86400 SECOND",
    "1.5 SECOND",
    "1.500000 SECOND",
    "0 DAY",
    "0 YEAR",
    "-1 DAY",
    "1-6 YEAR TO MONTH",
    "18 MONTH",
    "1 HOUR",
    "60 MINUTE",
    "3600 SECOND",
    "1 0:00:00 DAY TO SECOND",
    "1:00:00 HOUR TO SECOND",
    "0 SECOND",
    "-24 HOUR",
    "-1 MONTH",
    "-30 DAY",
    "2 YEARS",
    "1 day",
    "",
    "garbage",
];

/// The explicit value set V.
pub fn value_set() -> Vec<V> {
    let mut out: Vec<V> = vec![];
    let mut push = |v: SqlValue, label: String| out.push(V { v, label });

    for i in [i64::MIN, i64::MIN + 1, -1, 0, 1, (1i64 << 53), (1i64 << 53) + 1, i64::MAX - 1, i64::MAX] {
        push(SqlValue::Integer(i), format!("Integer({})", i));
    }
    for i in [i64::MIN, -1, 0, 1, (1i64 << 53), (1i64 << 53) + 1, i64::MAX] {
        push(SqlValue::Bigint(i), format!("Bigint({})", i));
    }
    for i in [i16::MIN, -1, 0, 1, i16::MAX] {
        push(SqlValue::Smallint(i), format!("Smallint({})", i));
    }
    for u in [0u64, 1, 1u64 << 53, (1u64 << 53) + 1, i64::MAX as u64, i64::MAX as u64 + 1, u64::MAX] {
        push(SqlValue::Unsigned(u), format!("Unsigned({})", u));
    }
    // f64 carriers
    let nan1 = f64::NAN;
    let nan2 = f64::from_bits(0xfff8_0000_0000_beef); // negative quiet NaN with payload
    let f64s: Vec<(f64, &str)> = vec![
        (nan1, "NaN"),
        (nan2, "NaN#fff800000000beef"),
        (0.0, "0.0"),
        (-0.0, "-0.0"),
        (f64::INFINITY, "inf"),
        (f64::NEG_INFINITY, "-inf"),
        (1.5, "1.5"),
        (-1.5, "-1.5"),
        (f64::MIN_POSITIVE, "MIN_POSITIVE"),
        (f64::from_bits(1), "subnormal(5e-324)"),
        (9007199254740992.0, "2^53"),
        (9007199254740994.0, "2^53+2"),
        (1.0, "1.0"),
    ];
    for (x, l) in &f64s {
        push(SqlValue::Double(*x), format!("Double({})", l));
    }
    for (x, l) in &f64s {
        push(SqlValue::Numeric(*x), format!("Numeric({})", l));
    }
    let f32s: Vec<(f32, &str)> = vec![
        (f32::NAN, "NaN"),
        (f32::from_bits(0xffc0_beef), "NaN#ffc0beef"),
        (0.0, "0.0"),
        (-0.0, "-0.0"),
        (f32::INFINITY, "inf"),
        (f32::NEG_INFINITY, "-inf"),
        (1.5, "1.5"),
        (-1.5, "-1.5"),
        (f32::MIN_POSITIVE, "MIN_POSITIVE"),
        (f32::from_bits(1), "subnormal(1e-45)"),
        (16777216.0, "2^24"),
        (16777218.0, "2^24+2"),
        (1.0, "1.0"),
    ];
    for (x, l) in &f32s {
        push(SqlValue::Float(*x), format!("Float({})", l));
    }
    for (x, l) in &f32s {
        push(SqlValue::Real(*x), format!("Real({})", l));
    }
    for s in ["", "a", "A", "a ", "é", "ab", "1"] {
        push(SqlValue::Character(s.to_string()), format!("Character({:?})", s));
    }
    for s in ["", "a", "A", "a ", "é", "ab", "1"] {
        push(SqlValue::Varchar(s.to_string()), format!("Varchar({:?})", s));
    }
    push(SqlValue::Boolean(false), "Boolean(false)".into());
    push(SqlValue::Boolean(true), "Boolean(true)".into());

    for dt in [d(-1, 12, 31), d(0, 1, 1), d(1, 1, 1), d(1999, 12, 31), d(2000, 1, 1), d(2000, 1, 2), d(2000, 2, 1), d(2024, 2, 29), d(9999, 12, 31)] {
        push(SqlValue::Date(dt), format!("Date({})", dt));
    }
    for tm in [
        t(0, 0, 0, 0),
        t(0, 0, 0, 1),
        t(0, 0, 0, 1000),
        t(0, 0, 1, 0),
        t(0, 1, 0, 0),
        t(1, 0, 0, 0),
        t(12, 34, 56, 123_456_789),
        t(12, 34, 56, 123_456_790),
        t(23, 59, 59, 0),
        t(23, 59, 59, 999_999_999),
    ] {
        push(SqlValue::Time(tm), format!("Time({})", tm));
    }
    let ts = |dd: Date, tt: Time| Timestamp::new(dd, tt);
    let mut tss = vec![
        ts(d(1, 1, 1), t(0, 0, 0, 0)),
        ts(d(1999, 12, 31), t(23, 59, 59, 999_999_999)),
        ts(d(2000, 1, 1), t(0, 0, 0, 0)),
        ts(d(2000, 1, 1), t(0, 0, 0, 1)),
        ts(d(2000, 1, 1), t(0, 0, 1, 0)),
        ts(d(2000, 1, 2), t(0, 0, 0, 0)),
        ts(d(9999, 12, 31), t(23, 59, 59, 999_999_999)),
    ];
    // the same instant written in the other accepted text forms
    for s in ["2000-01-01T00:00:00Z", "2000-01-01", "2000-01-01 00:00:00.000000001+05:30"] {
        if let Ok(x) = Timestamp::from_str(s) {
            tss.push(x);
        }
    }
    for x in tss {
        push(SqlValue::Timestamp(x), format!("Timestamp({})", x));
    }
    for s in INTERVAL_TEXTS {
        push(SqlValue::Interval(Interval::new(s.to_string())), format!("Interval({:?})", s));
    }
    push(SqlValue::Null, "Null".into());
    out
}

// ---------------------------------------------------------------------------------------------
// lossless JSON encoding (replay files)

pub fn enc(v: &SqlValue) -> Value {
    match v {
        SqlValue::Integer(i) => json!({"t":"Integer","i":i.to_string()}),
        SqlValue::Smallint(i) => json!({"t":"Smallint","i":i.to_string()}),
        SqlValue::Bigint(i) => json!({"t":"Bigint","i":i.to_string()}),
        SqlValue::Unsigned(i) => json!({"t":"Unsigned","i":i.to_string()}),
        SqlValue::Numeric(f) => json!({"t":"Numeric","bits":format!("{:016x}", f.to_bits()),"approx":format!("{:?}", f)}),
        SqlValue::Double(f) => json!({"t":"Double","bits":format!("{:016x}", f.to_bits()),"approx":format!("{:?}", f)}),
        SqlValue::Float(f) => json!({"t":"Float","bits":format!("{:08x}", f.to_bits()),"approx":format!("{:?}", f)}),
        SqlValue::Real(f) => json!({"t":"Real","bits":format!("{:08x}", f.to_bits()),"approx":format!("{:?}", f)}),
        SqlValue::Character(s) => json!({"t":"Character","s":s}),
        SqlValue::Varchar(s) => json!({"t":"Varchar","s":s}),
        SqlValue::Boolean(b) => json!({"t":"Boolean","b":b}),
        SqlValue::Date(d) => json!({"t":"Date","ymd":[d.year, d.month, d.day]}),
        SqlValue::Time(t) => json!({"t":"Time","hmsn":[t.hour, t.minute, t.second, t.nanosecond]}),
        SqlValue::Timestamp(x) => json!({"t":"Timestamp","ymd":[x.date.year, x.date.month, x.date.day],"hmsn":[x.time.hour, x.time.minute, x.time.second, x.time.nanosecond]}),
        SqlValue::Interval(i) => json!({"t":"Interval","text":i.value}),
        SqlValue::Null => json!({"t":"Null"}),
    }
}

pub fn dec(j: &Value) -> Result<SqlValue, String> {
    let t = j["t"].as_str().ok_or("value without t")?;
    let int = || -> Result<&str, String> { j["i"].as_str().ok_or_else(|| "missing i".to_string()) };
    let bits = || -> Result<u64, String> { u64::from_str_radix(j["bits"].as_str().ok_or("missing bits")?, 16).map_err(|e| e.to_string()) };
    let s = || -> Result<String, String> { Ok(j["s"].as_str().ok_or("missing s")?.to_string()) };
    let ymd = || -> Result<Date, String> {
        let a = j["ymd"].as_array().ok_or("missing ymd")?;
        Ok(Date { year: a[0].as_i64().ok_or("y")? as i32, month: a[1].as_u64().ok_or("m")? as u8, day: a[2].as_u64().ok_or("d")? as u8 })
    };
    let hmsn = || -> Result<Time, String> {
        let a = j["hmsn"].as_array().ok_or("missing hmsn")?;
        Ok(Time {
            hour: a[0].as_u64().ok_or("h")? as u8,
            minute: a[1].as_u64().ok_or("m")? as u8,
            second: a[2].as_u64().ok_or("s")? as u8,
            nanosecond: a[3].as_u64().ok_or("n")? as u32,
        })
    };
    Ok(match t {
        "Integer" => SqlValue::Integer(int()?.parse().map_err(|_| "bad int")?),
        "Smallint" => SqlValue::Smallint(int()?.parse().map_err(|_| "bad int")?),
        "Bigint" => SqlValue::Bigint(int()?.parse().map_err(|_| "bad int")?),
        "Unsigned" => SqlValue::Unsigned(int()?.parse().map_err(|_| "bad int")?),
        "Numeric" => SqlValue::Numeric(f64::from_bits(bits()?)),
        "Double" => SqlValue::Double(f64::from_bits(bits()?)),
        "Float" => SqlValue::Float(f32::from_bits(bits()? as u32)),
        "Real" => SqlValue::Real(f32::from_bits(bits()? as u32)),
        "Character" => SqlValue::Character(s()?),
        "Varchar" => SqlValue::Varchar(s()?),
        "Boolean" => SqlValue::Boolean(j["b"].as_bool().ok_or("missing b")?),
        "Date" => SqlValue::Date(ymd()?),
        "Time" => SqlValue::Time(hmsn()?),
        "Timestamp" => SqlValue::Timestamp(Timestamp::new(ymd()?, hmsn()?)),
        "Interval" => SqlValue::Interval(Interval::new(j["text"].as_str().ok_or("missing text")?.to_string())),
        "Null" => SqlValue::Null,
        other => return Err(format!("unknown variant {}", other)),
    })
}

/// bit-exact rendering of a value (Debug is lossy for NaN payloads)
pub fn exact(v: &SqlValue) -> String {
    vcore::val::exact(v)
}
