//! The *current working-tree* temporal sources of vibesql-types, compiled a second time.
//! The workspace manifest sets `[profile.release.package.temporal-ovf] overflow-checks = true`,
//! so an integer overflow in Date/Time/Timestamp/Interval parsing panics here exactly as it does
//! in a debug build of vibesql-types, while `vibesql-types` itself keeps release semantics.
//! If one of the included files ever grows a `crate::` dependency, this crate stops compiling
//! (exit 2 = machinery failure, never a verdict).
#![allow(dead_code, unused_imports, clippy::all)]

#[path = "/repo/crates/vibesql-types/src/temporal/mod.rs"]
pub mod temporal;

pub use temporal::{Date, Interval, IntervalField, Time, Timestamp};

/// true iff this crate was really compiled with overflow checks (asserted by the harness at start-up)
pub fn overflow_checks_enabled() -> bool {
    let x: i32 = std::hint::black_box(i32::MAX);
    std::panic::catch_unwind(|| {
        let y = x + std::hint::black_box(1);
        std::hint::black_box(y);
    })
    .is_err()
}
