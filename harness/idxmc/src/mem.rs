//! In-memory `StorageBackend` (one flat byte vector per file name). No fsync, no file system:
//! the explorer owns the bytes, so a page image can be copied and re-attached freely.

use std::collections::HashMap;
use std::sync::{Arc, Mutex};

use vibesql_storage::{StorageBackend, StorageError, StorageFile};

pub type Bytes = Arc<Mutex<Vec<u8>>>;

#[derive(Default)]
pub struct MemStore {
    files: Mutex<HashMap<String, Bytes>>,
}

impl MemStore {
    pub fn new() -> Self {
        MemStore::default()
    }
    /// A store holding one file with the given content; returns the shared handle to its bytes.
    pub fn with_file(name: &str, content: Vec<u8>) -> (Arc<MemStore>, Bytes) {
        let b: Bytes = Arc::new(Mutex::new(content));
        let s = MemStore::default();
        s.files.lock().unwrap().insert(name.to_string(), b.clone());
        (Arc::new(s), b)
    }
}

pub struct MemFile {
    data: Bytes,
}

impl StorageFile for MemFile {
    fn read_at(&mut self, offset: u64, buf: &mut [u8]) -> Result<usize, StorageError> {
        let d = self.data.lock().unwrap();
        let off = offset as usize;
        if off >= d.len() {
            return Ok(0);
        }
        let n = buf.len().min(d.len() - off);
        buf[..n].copy_from_slice(&d[off..off + n]);
        Ok(n)
    }
    fn write_at(&mut self, offset: u64, buf: &[u8]) -> Result<usize, StorageError> {
        let mut d = self.data.lock().unwrap();
        let off = offset as usize;
        if d.len() < off + buf.len() {
            d.resize(off + buf.len(), 0);
        }
        d[off..off + buf.len()].copy_from_slice(buf);
        Ok(buf.len())
    }
    fn sync_all(&mut self) -> Result<(), StorageError> {
        Ok(())
    }
    fn sync_data(&mut self) -> Result<(), StorageError> {
        Ok(())
    }
    fn size(&self) -> Result<u64, StorageError> {
        Ok(self.data.lock().unwrap().len() as u64)
    }
}

impl StorageBackend for MemStore {
    fn create_file(&self, path: &str) -> Result<Box<dyn StorageFile>, StorageError> {
        let b: Bytes = Arc::new(Mutex::new(vec![]));
        self.files.lock().unwrap().insert(path.to_string(), b.clone());
        Ok(Box::new(MemFile { data: b }))
    }
    fn open_file(&self, path: &str) -> Result<Box<dyn StorageFile>, StorageError> {
        let mut f = self.files.lock().unwrap();
        let b = f.entry(path.to_string()).or_insert_with(|| Arc::new(Mutex::new(vec![]))).clone();
        Ok(Box::new(MemFile { data: b }))
    }
    fn delete_file(&self, path: &str) -> Result<(), StorageError> {
        match self.files.lock().unwrap().remove(path) {
            Some(_) => Ok(()),
            None => Err(StorageError::IoError(format!("no such file {}", path))),
        }
    }
    fn file_exists(&self, path: &str) -> bool {
        self.files.lock().unwrap().contains_key(path)
    }
    fn file_size(&self, path: &str) -> Result<u64, StorageError> {
        match self.files.lock().unwrap().get(path) {
            Some(b) => Ok(b.lock().unwrap().len() as u64),
            None => Err(StorageError::IoError(format!("no such file {}", path))),
        }
    }
}
