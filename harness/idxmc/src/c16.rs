//! C16 — query results do not depend on the index storage backend (DESIGN §5 C16).
//!
//! Twin execution: every history of the alphabet (DML on an indexed table, CREATE/DROP INDEX at any
//! position) is executed from scratch on `Database::new()` (user indexes in memory) and on
//! `Database::with_path_and_config(private dir, tiny memory budget, SpillToDisk | BestEffort)` (user
//! indexes spilled to the disk-backed B+ tree when they are created over data). After the last
//! statement of every history a probe battery (point, range, IN, BETWEEN, IS NULL, ORDER BY, GROUP BY
//! on the indexed columns) and the statement outcomes themselves have to agree. Disk-backed indexes
//! alias through `Arc<Mutex<…>>` between clones of a `Database`, so nothing is cloned: each history
//! is a replay from the empty database in a private directory that is removed afterwards.

use std::collections::{BTreeMap, HashSet};
use std::path::PathBuf;
use std::sync::atomic::{AtomicU64, Ordering};
use std::time::Instant;

use serde::{Deserialize, Serialize};
use serde_json::{json, Value};
use vibesql_storage::database::{DatabaseConfig, IndexData, SpillPolicy};
use vibesql_storage::Database;
use vibesql_types::SqlValue;

use vcore::exec::{self, Out};
use vcore::report::Report;
use vcore::util::par_map;
use vcore::val;

#[derive(Clone, Debug)]
pub struct Cfg {
    pub name: &'static str,
    pub budget: usize,
    pub policy: SpillPolicy,
}

fn policy_name(p: SpillPolicy) -> &'static str {
    match p {
        SpillPolicy::Reject => "Reject",
        SpillPolicy::SpillToDisk => "SpillToDisk",
        SpillPolicy::BestEffort => "BestEffort",
    }
}

fn configs() -> Vec<Cfg> {
    vec![
        Cfg { name: "budget0_SpillToDisk", budget: 0, policy: SpillPolicy::SpillToDisk },
        Cfg { name: "budget100_BestEffort", budget: 100, policy: SpillPolicy::BestEffort },
        Cfg { name: "budget0_BestEffort", budget: 0, policy: SpillPolicy::BestEffort },
        Cfg { name: "budget100_SpillToDisk", budget: 100, policy: SpillPolicy::SpillToDisk },
        Cfg { name: "budget1MiB_SpillToDisk", budget: 1 << 20, policy: SpillPolicy::SpillToDisk },
    ]
}

pub const PRELUDE: &[&str] = &["CREATE TABLE t (id INT, v INT, s VARCHAR(20), w DOUBLE)"];

/// rows present before the history starts (second initial state)
pub const PREFILL: &[&str] = &["INSERT INTO t VALUES (1, 10, 'a', 0.5), (2, 10, 'b', 10.5), (3, 20, 'b', 10.0), (4, NULL, NULL, NULL)"];

pub fn alphabet(thorough: bool) -> Vec<String> {
    let mut a: Vec<&str> = vec![
        "CREATE INDEX iv ON t (v)",
        "CREATE INDEX isx ON t (s)",
        "CREATE INDEX ivs ON t (v, s)",
        "CREATE INDEX isv ON t (s, v)",
        "INSERT INTO t VALUES (5, 10, 'c', 0.5)",
        "INSERT INTO t VALUES (6, 30, 'a', 11.0), (7, 5, 'ab', 10.25)",
        "INSERT INTO t VALUES (1, 10, 'a', 0.5), (2, 10, 'b', 10.5)",
        "UPDATE t SET v = 20 WHERE id = 1",
        "UPDATE t SET s = 'b' WHERE id = 1",
        "UPDATE t SET v = v + 1",
        "DELETE FROM t WHERE id = 2",
        "DELETE FROM t WHERE v >= 20",
        "DELETE FROM t",
    ];
    if thorough {
        a.extend([
            "CREATE INDEX iwv ON t (w, v)",
            "CREATE INDEX iw ON t (w)",
            "DROP INDEX iv",
            "CREATE UNIQUE INDEX uv ON t (id)",
            "UPDATE t SET v = 10 WHERE s = 'b'",
            "UPDATE t SET v = NULL WHERE id = 3",
            "UPDATE t SET w = w + 0.5 WHERE v = 10",
            "DELETE FROM t WHERE s = 'b'",
            "INSERT INTO t VALUES (8, NULL, 'a', 0.0)",
            "TRUNCATE TABLE t",
        ]);
    }
    a.into_iter().map(|s| s.to_string()).collect()
}

// ------------------------------------------------------------------------------------------------
// scratch directories

static DIR_SEQ: AtomicU64 = AtomicU64::new(0);
/// worker mode: print a progress marker before every statement, so that the driver knows which
/// statement a worker that stopped answering was executing
static MARK: std::sync::atomic::AtomicBool = std::sync::atomic::AtomicBool::new(false);

fn mark(step: usize) {
    if MARK.load(Ordering::Relaxed) {
        use std::io::Write;
        let o = std::io::stdout();
        let mut l = o.lock();
        let _ = writeln!(l, "M {}", step);
        let _ = l.flush();
    }
}

/// tmpfs when there is one (every page write of the disk-backed tree is followed by an fsync),
/// otherwise /tmp; always a private directory of this process
fn scratch_base() -> PathBuf {
    let shm = PathBuf::from("/dev/shm");
    let root = if std::env::var("VERIF_C16_SCRATCH").is_ok() {
        PathBuf::from(std::env::var("VERIF_C16_SCRATCH").unwrap())
    } else if shm.is_dir() && std::fs::create_dir_all(shm.join(format!("idxmc-{}", std::process::id()))).is_ok() {
        shm
    } else {
        PathBuf::from("/tmp")
    };
    root.join(format!("idxmc-{}", std::process::id()))
}

struct Scratch {
    path: PathBuf,
}
impl Scratch {
    fn new(base: &PathBuf) -> Result<Scratch, String> {
        let p = base.join(format!("h{}", DIR_SEQ.fetch_add(1, Ordering::Relaxed)));
        std::fs::create_dir_all(&p).map_err(|e| format!("cannot create {}: {}", p.display(), e))?;
        Ok(Scratch { path: p })
    }
}
impl Drop for Scratch {
    fn drop(&mut self) {
        let _ = std::fs::remove_dir_all(&self.path);
    }
}

fn mk_b(cfg: &Cfg, dir: &PathBuf) -> Database {
    let c = DatabaseConfig { memory_budget: cfg.budget, disk_budget: 1 << 30, spill_policy: cfg.policy, sql_mode: vibesql_types::SqlMode::default() };
    Database::with_path_and_config(dir.clone(), c)
}

// ------------------------------------------------------------------------------------------------
// observations

fn out_text(o: &Out) -> String {
    match o {
        Out::Rows(r) => val::fmt_bag(&val::bag(r)),
        Out::Count(n) => format!("count({})", n),
        Out::Done => "ok".into(),
        Out::Err(..) => "err".into(),
        Out::Panic(_) => "PANIC".into(),
    }
}

fn distinct_vals(rows: &[Vec<SqlValue>], col: usize, max: usize) -> Vec<SqlValue> {
    let mut v: Vec<SqlValue> = vec![];
    for r in rows {
        if let Some(x) = r.get(col) {
            if !x.is_null() && !v.iter().any(|y| val::exact(y) == val::exact(x)) {
                v.push(x.clone());
            }
        }
    }
    v.sort_by(|a, b| val::norm(a).cmp(&val::norm(b)));
    v.truncate(max);
    v
}

/// (class, sql): the probe battery derived from the table content of the in-memory twin
pub fn battery(a: &Database, thorough: bool, extra_v: &[String]) -> Vec<(&'static str, String)> {
    let rows = vcore::obs::rows_of(a, "T");
    let mut q: Vec<(&'static str, String)> = vec![("full", "SELECT * FROM t".into()), ("count", "SELECT COUNT(*) FROM t".into())];
    let big = rows.len() > 20_000;
    let cols: &[(usize, &str)] = if big { &[(1, "v")] } else if thorough { &[(1, "v"), (2, "s"), (3, "w")] } else { &[(1, "v"), (2, "s")] };
    for (ci, c) in cols.iter().copied() {
        if big {
            // a table this size: probes on the indexed column at the given literals only
            for l in extra_v {
                q.push(("eq", format!("SELECT * FROM t WHERE v = {}", l)));
                q.push(("le", format!("SELECT id FROM t WHERE v <= {}", l)));
                q.push(("ge", format!("SELECT id FROM t WHERE v >= {}", l)));
            }
            q.push(("in", format!("SELECT * FROM t WHERE v IN ({})", extra_v.join(", "))));
            q.push(("isnull", "SELECT * FROM t WHERE v IS NULL".to_string()));
            continue;
        }
        let mut lits: Vec<String> = distinct_vals(&rows, ci, if thorough { 3 } else { 2 }).iter().map(vcore::obs::sql_lit).collect();
        // literals that need not be in the table
        let extra: &[&str] = match (c, thorough) {
            ("v", true) => &["10", "15"],
            ("v", false) => &["15"],
            ("s", true) => &["'b'", "'aa'"],
            ("s", false) => &["'aa'"],
            (_, _) => &["10", "0"],
        };
        for l in extra {
            if !lits.contains(&l.to_string()) {
                lits.push(l.to_string());
            }
        }
        if c == "v" {
            for l in extra_v {
                if !lits.contains(l) {
                    lits.push(l.clone());
                }
            }
        }
        for l in &lits {
            q.push(("eq", format!("SELECT * FROM t WHERE {} = {}", c, l)));
            q.push(("ge", format!("SELECT * FROM t WHERE {} >= {}", c, l)));
            q.push(("gt", format!("SELECT * FROM t WHERE {} > {}", c, l)));
            q.push(("lt", format!("SELECT * FROM t WHERE {} < {}", c, l)));
            q.push(("le", format!("SELECT * FROM t WHERE {} <= {}", c, l)));
        }
        if lits.len() >= 2 {
            q.push(("in", format!("SELECT * FROM t WHERE {} IN ({}, {})", c, lits[0], lits[1])));
            q.push(("between", format!("SELECT * FROM t WHERE {} BETWEEN {} AND {}", c, lits[0], lits[1])));
            q.push(("range2", format!("SELECT * FROM t WHERE {} > {} AND {} <= {}", c, lits[0], c, lits[lits.len() - 1])));
            q.push(("range_ge_lt", format!("SELECT * FROM t WHERE {} >= {} AND {} < {}", c, lits[0], c, lits[1])));
        }
        q.push(("isnull", format!("SELECT * FROM t WHERE {} IS NULL", c)));
        q.push(("notnull", format!("SELECT * FROM t WHERE {} IS NOT NULL", c)));
        q.push(("orderby", format!("SELECT * FROM t ORDER BY {}", c)));
        q.push(("orderby_desc", format!("SELECT id FROM t ORDER BY {} DESC", c)));
        q.push(("groupby", format!("SELECT {}, COUNT(*) FROM t GROUP BY {}", c, c)));
        q.push(("minmax", format!("SELECT MIN({}), MAX({}) FROM t", c, c)));
    }
    // both indexed columns in one predicate (composite index / index choice)
    if big {
        return q;
    }
    let vs = distinct_vals(&rows, 1, 2);
    let ss = distinct_vals(&rows, 2, 2);
    for v in &vs {
        for s in &ss {
            q.push(("eq_eq", format!("SELECT * FROM t WHERE v = {} AND s = {}", vcore::obs::sql_lit(v), vcore::obs::sql_lit(s))));
            q.push(("eq_ge", format!("SELECT * FROM t WHERE v = {} AND s >= {}", vcore::obs::sql_lit(v), vcore::obs::sql_lit(s))));
        }
    }
    q
}

thread_local! {
    static PARSED: std::cell::RefCell<std::collections::HashMap<String, Option<std::rc::Rc<vibesql_ast::SelectStmt>>>> = std::cell::RefCell::new(std::collections::HashMap::new());
}

/// probe texts repeat across histories: parse each once per thread (always through the real parser)
fn parsed_select(sql: &str) -> Option<std::rc::Rc<vibesql_ast::SelectStmt>> {
    PARSED.with(|p| {
        let mut p = p.borrow_mut();
        if let Some(x) = p.get(sql) {
            return x.clone();
        }
        let v = match exec::parse(sql) {
            Ok(vibesql_ast::Statement::Select(s)) => Some(std::rc::Rc::new(*s)),
            _ => None,
        };
        p.insert(sql.to_string(), v.clone());
        v
    })
}

/// names of the user indexes of `db` that are disk-backed right now
fn disk_backed(db: &Database) -> Vec<String> {
    let mut v: Vec<String> = db.list_indexes().into_iter().filter(|i| matches!(db.get_index_data(i), Some(IndexData::DiskBacked { .. }))).collect();
    v.sort();
    v
}

#[derive(Clone, Debug)]
pub struct Diff {
    /// 1-based step of the history at which the twins differ
    pub step: usize,
    /// "statement" or the probe class
    pub class: String,
    pub sql: String,
    pub a: String,
    pub b: String,
    pub disk_backed: Vec<String>,
}

#[derive(Default, Clone, Debug)]
pub struct HStats {
    pub stmts: u64,
    pub ok: u64,
    pub err: u64,
    pub probes: u64,
    pub ended_disk_backed: bool,
    pub stmts_while_disk_backed: u64,
    pub outcomes: HashSet<u64>,
}

/// statement kind for signatures: first two words and the column a SET / WHERE names
fn stmt_shape(sql: &str) -> String {
    let w: Vec<&str> = sql.split_whitespace().collect();
    let head = w.iter().take(2).copied().collect::<Vec<_>>().join(" ");
    let mut extra = String::new();
    if let Some(p) = w.iter().position(|x| *x == "SET") {
        extra.push_str(&format!(" SET {}", w.get(p + 1).unwrap_or(&"")));
    }
    if let Some(p) = w.iter().position(|x| *x == "WHERE") {
        extra.push_str(&format!(" WHERE {} {}", w.get(p + 1).unwrap_or(&""), w.get(p + 2).unwrap_or(&"")));
    }
    if head == "CREATE INDEX" || head == "CREATE UNIQUE" || head == "DROP INDEX" {
        return sql.to_string();
    }
    format!("{}{}", head, extra)
}

/// Execute prelude + init + ops on both twins. `probe_every_step`: battery after every step (replay /
/// confirmation), otherwise after the last one only. Err = machinery problem.
pub fn run_history(cfg: &Cfg, base: &PathBuf, thorough: bool, init: &[&str], ops: &[String], probe_every_step: bool, st: &mut HStats, log: Option<&mut Vec<String>>) -> Result<Option<Diff>, String> {
    let setup: Vec<String> = PRELUDE.iter().chain(init.iter()).map(|s| s.to_string()).collect();
    run_twins(cfg, base, thorough, &setup, &setup, ops, probe_every_step, &[], st, log)
}

/// The general form: each twin has its own setup statements (they must succeed and are not compared:
/// the large-table family creates the index before the rows on one side and after them on the other),
/// then `ops` are executed on both and compared. `extra_v` are further literals for the probes on `v`.
#[allow(clippy::too_many_arguments)]
pub fn run_twins(cfg: &Cfg, base: &PathBuf, thorough: bool, setup_a: &[String], setup_b: &[String], ops: &[String], probe_every_step: bool, extra_v: &[String], st: &mut HStats, log: Option<&mut Vec<String>>) -> Result<Option<Diff>, String> {
    let scratch = Scratch::new(base)?;
    let mut a = Database::new();
    let mut b = mk_b(cfg, &scratch.path);
    let mut log = log;
    mark(0);
    for s in setup_a {
        let oa = exec::exec(&mut a, s);
        if !oa.is_ok() {
            return Err(format!("setup statement `{}` failed on the in-memory twin: {}", vcore::util::trunc(s, 80), oa.brief()));
        }
    }
    for s in setup_b {
        let ob = exec::exec(&mut b, s);
        if !ob.is_ok() {
            if setup_a.contains(s) {
                // the in-memory twin accepted the very same statement
                return Ok(Some(Diff { step: 0, class: "statement".into(), sql: vcore::util::trunc(s, 120), a: "ok".into(), b: ob.brief(), disk_backed: disk_backed(&b) }));
            }
            return Err(format!("setup statement `{}` failed on the spill twin: {}", vcore::util::trunc(s, 80), ob.brief()));
        }
    }
    let mut result = None;
    for (i, op) in ops.iter().enumerate() {
        let was_disk = !disk_backed(&b).is_empty();
        mark(i + 1);
        let oa = exec::exec(&mut a, op);
        let ob = exec::exec(&mut b, op);
        st.stmts += 1;
        if was_disk {
            st.stmts_while_disk_backed += 1;
        }
        if oa.is_ok() {
            st.ok += 1
        } else {
            st.err += 1
        }
        let (ta, tb) = (out_text(&oa), out_text(&ob));
        if let Some(l) = log.as_deref_mut() {
            l.push(format!("step {}: {}  => in-memory: {} | spill config: {}   [disk-backed now: {:?}]", i + 1, op, oa.brief(), ob.brief(), disk_backed(&b)));
        }
        if ta != tb {
            // a statement both sides reject is not a case; one side rejecting is
            result = Some(Diff { step: i + 1, class: "statement".into(), sql: op.clone(), a: oa.brief(), b: ob.brief(), disk_backed: disk_backed(&b) });
            break;
        }
        if probe_every_step || i + 1 == ops.len() {
            let db_now = disk_backed(&b);
            for (class, sql) in battery(&a, thorough, extra_v) {
                let (ra, rb) = match parsed_select(&sql) {
                    Some(stmt) => (exec::select_stmt(&a, &stmt), exec::select_stmt(&b, &stmt)),
                    None => (exec::select(&a, &sql), exec::select(&b, &sql)),
                };
                st.probes += 1;
                let (ta, tb) = (out_text(&ra), out_text(&rb));
                st.outcomes.insert(vcore::util::hash64(ta.as_bytes()));
                if ta != tb {
                    if ra.is_err() && rb.is_err() {
                        continue;
                    }
                    if let Some(l) = log.as_deref_mut() {
                        l.push(format!("   probe {} => in-memory: {} | spill config: {}", sql, ta, tb));
                    }
                    result = Some(Diff { step: i + 1, class: class.to_string(), sql, a: ta, b: tb, disk_backed: db_now.clone() });
                    break;
                }
            }
            if result.is_some() {
                break;
            }
        }
    }
    st.ended_disk_backed = !disk_backed(&b).is_empty();
    drop(b);
    drop(a);
    drop(scratch);
    Ok(result)
}

/// Signature of a differing case, from the input only: the probe class and column, the indexes on
/// that column the history has created (single-column / composite-leading), the kind of the last
/// statement. Configuration and initial rows are not part of it (they are in the replay file).
fn signature(_cfg: &Cfg, _init: &str, ops: &[String], d: &Diff) -> Vec<(&'static str, String)> {
    let last = ops.get(d.step - 1).map(|s| stmt_shape(s)).unwrap_or_default();
    let mut idx: Vec<String> = vec![];
    for o in &ops[..d.step] {
        let w: Vec<&str> = o.split_whitespace().collect();
        if o.starts_with("CREATE") {
            if let Some(p) = w.iter().position(|x| *x == "INDEX") {
                let n = w.get(p + 1).unwrap_or(&"").to_string();
                if !idx.contains(&n) {
                    idx.push(n);
                }
            }
        }
        if o.starts_with("DROP INDEX") {
            if let Some(n) = w.get(2) {
                idx.retain(|x| x != n);
            }
        }
    }
    idx.sort();
    // probe column: the column the WHERE / ORDER BY / GROUP BY of the probe names first
    let col = ["v", "s", "w"].iter().find(|c| d.sql.contains(&format!(" {} ", c)) || d.sql.ends_with(&format!(" {}", c)) || d.sql.contains(&format!("({})", c))).copied().unwrap_or("-");
    let lead = |i: &str| -> &str {
        match i {
            "iv" | "ivs" => "v",
            "isx" | "isv" => "s",
            "iw" | "iwv" => "w",
            "uv" => "id",
            _ => "?",
        }
    };
    let on_col: Vec<String> = idx.iter().filter(|i| lead(i) == col).cloned().collect();
    vec![
        ("probe", if d.class == "statement" { "statement".to_string() } else { format!("{} on {}", d.class, col) }),
        ("indexes_leading_with_probe_column", on_col.join("+")),
        ("last_stmt", last),
    ]
}

fn case_json(cfg: &Cfg, thorough: bool, init_name: &str, init: &[&str], ops: &[String], d: &Diff) -> Value {
    json!({
        "tier": if thorough { "thorough" } else { "quick" },
        "config": {"name": cfg.name, "memory_budget": cfg.budget, "spill_policy": policy_name(cfg.policy)},
        "prelude": PRELUDE, "init_name": init_name, "init": init, "steps": ops,
        "differs_at_step": d.step, "probe": d.sql, "in_memory": d.a, "spilled": d.b, "disk_backed_indexes": d.disk_backed,
    })
}

// ------------------------------------------------------------------------------------------------
// large-table family: realistic node degrees (hundreds of keys per page), spill by bulk load of a few
// hundred rows, and the row-count threshold (DISK_BACKED_THRESHOLD = 100 000 rows at CREATE INDEX)

pub struct LargeCase {
    pub name: &'static str,
    pub rows: usize,
    /// v of row i
    pub v: fn(usize) -> i64,
    pub cfg: Cfg,
    /// in-memory twin creates the index before the rows (needed when the row count alone selects the backend)
    pub index_first_on_a: bool,
    pub depth: usize,
}

fn v_distinct(i: usize) -> i64 {
    i as i64
}
fn v_even(i: usize) -> i64 {
    2 * i as i64
}
fn v_mod3(i: usize) -> i64 {
    (i % 3) as i64
}
fn v_pairs(i: usize) -> i64 {
    (i / 2) as i64
}

pub fn large_cases(thorough: bool) -> Vec<LargeCase> {
    let spill = Cfg { name: "budget0_SpillToDisk", budget: 0, policy: SpillPolicy::SpillToDisk };
    let best = Cfg { name: "budget0_BestEffort", budget: 0, policy: SpillPolicy::BestEffort };
    let roomy = Cfg { name: "budget1TiB_BestEffort", budget: 1 << 40, policy: SpillPolicy::BestEffort };
    let mut v = vec![
        LargeCase { name: "spill_300_distinct_keys", rows: 300, v: v_distinct, cfg: spill.clone(), index_first_on_a: false, depth: if thorough { 2 } else { 1 } },
        LargeCase { name: "spill_300_even_keys", rows: 300, v: v_even, cfg: spill.clone(), index_first_on_a: false, depth: 1 },
        LargeCase { name: "spill_600_rows_3_keys", rows: 600, v: v_mod3, cfg: spill.clone(), index_first_on_a: false, depth: 1 },
        LargeCase { name: "spill_600_rows_2_per_key", rows: 600, v: v_pairs, cfg: best, index_first_on_a: false, depth: 1 },
    ];
    if thorough {
        v.push(LargeCase { name: "threshold_100000_distinct_keys", rows: 100_000, v: v_distinct, cfg: roomy.clone(), index_first_on_a: true, depth: 1 });
        v.push(LargeCase { name: "threshold_100000_rows_2_per_key", rows: 100_000, v: v_pairs, cfg: roomy, index_first_on_a: true, depth: 0 });
    }
    v
}

fn large_fill(lc: &LargeCase) -> Vec<String> {
    let mut out = vec![];
    let mut i = 0;
    while i < lc.rows {
        let end = (i + 500).min(lc.rows);
        let vals: Vec<String> = (i..end).map(|k| format!("({}, {}, 's{}', {}.{})", k, (lc.v)(k), k % 7, k / 2, if k % 2 == 0 { 0 } else { 5 })).collect();
        out.push(format!("INSERT INTO t VALUES {}", vals.join(", ")));
        i = end;
    }
    out
}

fn large_alphabet(n: usize) -> Vec<String> {
    let dup: Vec<String> = (0..40).map(|k| format!("({}, {}, 'd', 0.5)", n + k, k)).collect();
    let fresh: Vec<String> = (0..40).map(|k| format!("({}, {}, 'f', 1.5)", n + 100 + k, n + 1000 + k)).collect();
    // a low-cardinality burst: 200 rows with one and the same key
    let same: Vec<String> = (0..200).map(|k| format!("({}, 7, 'h', 2.5)", n + 200 + k)).collect();
    vec![
        format!("INSERT INTO t VALUES {}", dup.join(", ")),
        format!("INSERT INTO t VALUES {}", fresh.join(", ")),
        format!("INSERT INTO t VALUES {}", same.join(", ")),
        format!("UPDATE t SET v = v + {} WHERE id < 50", n + 5000),
        "DELETE FROM t WHERE id >= 100 AND id < 200".to_string(),
        "UPDATE t SET s = 'zz' WHERE v < 30".to_string(),
        "DELETE FROM t WHERE v < 150".to_string(),
    ]
}

fn large_lits(n: usize) -> Vec<String> {
    let mut l: Vec<usize> = vec![7, 0, 39, 40, 152, 153, 190, 191, 192];
    if n > 30_000 {
        // leaf / internal node boundaries of a bulk-loaded tree at the degree of an INTEGER key
        l = vec![7, 152, 153, 23408, 23409, 23410];
    }
    l.push(n / 2);
    l.push(n - 1);
    l.into_iter().map(|x| x.to_string()).collect()
}

const LARGE_INDEX: &str = "CREATE INDEX iv ON t (v)";

fn cfg_by_name(n: &str) -> Option<Cfg> {
    configs().into_iter().find(|c| c.name == n)
}


// ------------------------------------------------------------------------------------------------
// jobs, worker subprocesses (a statement that never returns must not hang the check)

#[derive(Clone, Debug, Serialize, Deserialize)]
pub struct Job {
    /// "std" | "large"
    pub kind: String,
    /// std: configuration name; large: case name
    pub name: String,
    /// std: 0 = empty table, 1 = prefilled
    pub init: usize,
    /// std: use the tier's full alphabet (else the small one)
    pub full: bool,
    /// alphabet indexes of the history (std) / of the suffix (large)
    pub h: Vec<usize>,
    pub deadline_s: u64,
}

#[derive(Clone, Debug, Default, Serialize, Deserialize)]
pub struct JobOut {
    pub stmts: u64,
    pub ok: u64,
    pub err: u64,
    pub probes: u64,
    pub ended_disk_backed: bool,
    pub stmts_while_disk_backed: u64,
    pub outcomes: Vec<u64>,
    pub reach_spill: u64,
    pub reach_disk_op: u64,
    pub reach_index_scan: u64,
    pub reach_where_skip: u64,
    /// machinery problem
    pub error: Option<String>,
    /// (step, class, sql, a, b, disk-backed indexes)
    pub diff: Option<(usize, String, String, String, String, Vec<String>)>,
    /// the statements of the job as text (for reports)
    pub ops: Vec<String>,
}

#[derive(Clone, Debug)]
pub enum JobResult {
    Done(JobOut),
    /// no progress within the deadline (worker killed); the step (0 = setup) it was executing
    Hung(usize),
    /// worker died (abort / crash) while executing the given step
    Died(usize),
}

fn inits() -> Vec<(&'static str, Vec<&'static str>)> {
    vec![("empty", vec![]), ("prefilled", PREFILL.to_vec())]
}

fn job_ops(job: &Job, thorough: bool) -> Vec<String> {
    if job.kind == "std" {
        let alpha = if job.full { alphabet(thorough) } else { alphabet(false) };
        job.h.iter().map(|i| alpha[*i].clone()).collect()
    } else {
        let Some(lc) = large_cases(true).into_iter().find(|l| l.name == job.name) else { return vec![] };
        let alpha = large_alphabet(lc.rows);
        let mut ops = vec![];
        if !lc.index_first_on_a {
            ops.push(LARGE_INDEX.to_string());
        }
        ops.extend(job.h.iter().map(|i| alpha[*i].clone()));
        ops
    }
}

fn large_setups(lc: &LargeCase) -> (Vec<String>, Vec<String>) {
    let fill = large_fill(lc);
    let mut setup_a: Vec<String> = PRELUDE.iter().map(|s| s.to_string()).collect();
    let mut setup_b = setup_a.clone();
    if lc.index_first_on_a {
        setup_a.push(LARGE_INDEX.to_string());
        setup_a.extend(fill.iter().cloned());
        setup_b.extend(fill.iter().cloned());
        setup_b.push(LARGE_INDEX.to_string());
    } else {
        setup_a.extend(fill.iter().cloned());
        setup_b.extend(fill.iter().cloned());
    }
    (setup_a, setup_b)
}

/// evaluate one job (runs inside a worker process)
pub fn eval_job(job: &Job, base: &PathBuf, thorough: bool) -> JobOut {
    let r0: BTreeMap<&str, u64> = vibesql_types::verif::snapshot().into_iter().collect();
    let mut st = HStats::default();
    let ops = job_ops(job, thorough);
    let r = if job.kind == "std" {
        match cfg_by_name(&job.name) {
            None => Err(format!("unknown configuration {}", job.name)),
            Some(cfg) => {
                let ini = inits();
                run_history(&cfg, base, thorough, &ini[job.init.min(1)].1, &ops, false, &mut st, None)
            }
        }
    } else {
        match large_cases(true).into_iter().find(|l| l.name == job.name) {
            None => Err(format!("unknown large case {}", job.name)),
            Some(lc) => {
                let (sa, sb) = large_setups(&lc);
                run_twins(&lc.cfg, base, thorough, &sa, &sb, &ops, false, &large_lits(lc.rows), &mut st, None)
            }
        }
    };
    let r1: BTreeMap<&str, u64> = vibesql_types::verif::snapshot().into_iter().collect();
    let dr = |k: &str| r1.get(k).copied().unwrap_or(0) - r0.get(k).copied().unwrap_or(0);
    let mut out = JobOut {
        stmts: st.stmts,
        ok: st.ok,
        err: st.err,
        probes: st.probes,
        ended_disk_backed: st.ended_disk_backed,
        stmts_while_disk_backed: st.stmts_while_disk_backed,
        outcomes: st.outcomes.iter().copied().collect(),
        reach_spill: dr("spill_to_disk"),
        reach_disk_op: dr("disk_backed_op"),
        reach_index_scan: dr("index_scan"),
        reach_where_skip: dr("index_where_skip"),
        error: None,
        diff: None,
        ops,
    };
    match r {
        Err(e) => out.error = Some(e),
        Ok(None) => {}
        Ok(Some(d)) => out.diff = Some((d.step, d.class, d.sql, vcore::util::trunc(&d.a, 600), vcore::util::trunc(&d.b, 600), d.disk_backed)),
    }
    out
}

/// `idxmccheck c16worker <tier>`: one job (JSON) per input line, one JobOut (JSON) per output line
pub fn worker_main(tier: &str) -> i32 {
    use std::io::{BufRead, Write};
    let thorough = tier == "thorough";
    MARK.store(true, Ordering::Relaxed);
    let base = scratch_base();
    let _ = std::fs::create_dir_all(&base);
    let stdin = std::io::stdin();
    let stdout = std::io::stdout();
    for line in stdin.lock().lines() {
        let Ok(line) = line else { break };
        if line.trim().is_empty() {
            continue;
        }
        let out = match serde_json::from_str::<Job>(&line) {
            Ok(job) => eval_job(&job, &base, thorough),
            Err(e) => JobOut { error: Some(format!("bad job: {}", e)), ..Default::default() },
        };
        let mut l = stdout.lock();
        let _ = writeln!(l, "{}", serde_json::to_string(&out).unwrap_or_else(|_| "{}".into()));
        let _ = l.flush();
    }
    let _ = std::fs::remove_dir_all(&base);
    0
}

struct Worker {
    child: std::process::Child,
    stdin: std::process::ChildStdin,
    rx: std::sync::mpsc::Receiver<String>,
}

fn spawn_worker(tier: &str) -> Result<Worker, String> {
    use std::io::BufRead;
    use std::process::{Command, Stdio};
    let exe = std::env::current_exe().map_err(|e| format!("current_exe: {}", e))?;
    let mut child = Command::new(exe).arg("c16worker").arg(tier).stdin(Stdio::piped()).stdout(Stdio::piped()).stderr(Stdio::null()).spawn().map_err(|e| format!("cannot start a worker: {}", e))?;
    let stdin = child.stdin.take().ok_or("no stdin")?;
    let stdout = child.stdout.take().ok_or("no stdout")?;
    let (tx, rx) = std::sync::mpsc::channel();
    std::thread::spawn(move || {
        let r = std::io::BufReader::new(stdout);
        for line in r.lines() {
            match line {
                Ok(l) => {
                    if tx.send(l).is_err() {
                        break;
                    }
                }
                Err(_) => break,
            }
        }
    });
    Ok(Worker { child, stdin, rx })
}

fn kill_worker(w: &mut Worker) {
    let pid = w.child.id();
    let _ = w.child.kill();
    let _ = w.child.wait();
    // the worker's private scratch directory
    for root in ["/dev/shm", "/tmp"] {
        let _ = std::fs::remove_dir_all(PathBuf::from(root).join(format!("idxmc-{}", pid)));
    }
}

/// Evaluate all jobs on a pool of worker processes; results in job order.
pub fn run_jobs(jobs: &[Job], tier: &str, rep: &Report) -> Vec<JobResult> {
    use std::io::Write;
    let n = vcore::util::n_threads().min(jobs.len().max(1));
    let next = std::sync::atomic::AtomicUsize::new(0);
    let results: std::sync::Mutex<Vec<Option<JobResult>>> = std::sync::Mutex::new(vec![None; jobs.len()]);
    std::thread::scope(|s| {
        for _ in 0..n {
            s.spawn(|| {
                let mut w: Option<Worker> = None;
                loop {
                    let i = next.fetch_add(1, Ordering::Relaxed);
                    if i >= jobs.len() {
                        break;
                    }
                    if w.is_none() {
                        match spawn_worker(tier) {
                            Ok(x) => w = Some(x),
                            Err(e) => {
                                rep.machinery_error(e);
                                break;
                            }
                        }
                    }
                    let wk = w.as_mut().unwrap();
                    let line = serde_json::to_string(&jobs[i]).unwrap_or_default();
                    let sent = writeln!(wk.stdin, "{}", line).and_then(|_| wk.stdin.flush());
                    let res = if sent.is_err() {
                        JobResult::Died(0)
                    } else {
                        // the deadline applies to every step (progress marker) separately
                        let mut step = 0usize;
                        loop {
                            match wk.rx.recv_timeout(std::time::Duration::from_secs(jobs[i].deadline_s)) {
                                Ok(l) if l.starts_with("M ") => {
                                    step = l[2..].trim().parse().unwrap_or(step);
                                }
                                Ok(l) => {
                                    break match serde_json::from_str::<JobOut>(&l) {
                                        Ok(o) => JobResult::Done(o),
                                        Err(e) => JobResult::Done(JobOut { error: Some(format!("bad worker answer: {}", e)), ..Default::default() }),
                                    }
                                }
                                Err(std::sync::mpsc::RecvTimeoutError::Timeout) => break JobResult::Hung(step),
                                Err(std::sync::mpsc::RecvTimeoutError::Disconnected) => break JobResult::Died(step),
                            }
                        }
                    };
                    if !matches!(res, JobResult::Done(_)) {
                        kill_worker(wk);
                        w = None;
                    }
                    results.lock().unwrap()[i] = Some(res);
                }
                if let Some(mut wk) = w {
                    drop(wk.stdin);
                    let t0 = Instant::now();
                    loop {
                        match wk.child.try_wait() {
                            Ok(Some(_)) => break,
                            _ if t0.elapsed().as_secs() > 5 => {
                                let _ = wk.child.kill();
                                let _ = wk.child.wait();
                                break;
                            }
                            _ => std::thread::sleep(std::time::Duration::from_millis(20)),
                        }
                    }
                    let pid = wk.child.id();
                    for root in ["/dev/shm", "/tmp"] {
                        let _ = std::fs::remove_dir_all(PathBuf::from(root).join(format!("idxmc-{}", pid)));
                    }
                }
            });
        }
    });
    results.into_inner().unwrap().into_iter().map(|r| r.unwrap_or(JobResult::Died(0))).collect()
}

#[derive(Default)]
struct Totals {
    hist: u64,
    stmts: u64,
    probes: u64,
    ok: u64,
    err: u64,
    outcomes: HashSet<u64>,
    reach: BTreeMap<&'static str, u64>,
}

impl Totals {
    fn add(&mut self, o: &JobOut) {
        self.hist += 1;
        self.stmts += o.stmts;
        self.probes += o.probes;
        self.ok += o.ok;
        self.err += o.err;
        self.outcomes.extend(o.outcomes.iter().copied());
        *self.reach.entry("spill_to_disk").or_default() += o.reach_spill;
        *self.reach.entry("disk_backed_op").or_default() += o.reach_disk_op;
        *self.reach.entry("index_scan").or_default() += o.reach_index_scan;
        *self.reach.entry("index_where_skip").or_default() += o.reach_where_skip;
    }
}

fn to_diff(t: &(usize, String, String, String, String, Vec<String>)) -> Diff {
    Diff { step: t.0, class: t.1.clone(), sql: t.2.clone(), a: t.3.clone(), b: t.4.clone(), disk_backed: t.5.clone() }
}

/// Re-execute a differing / hanging job; the engine picks among several usable indexes by HashMap
/// iteration order (RandomState), so a difference that needs one particular choice does not show on
/// every execution. Returns (times shown again, executions).
fn confirm(job: &Job, first: &JobResult, tier: &str, rep: &Report) -> (usize, usize) {
    let mut again = 0;
    let mut tries = 0;
    let hang = matches!(first, JobResult::Hung(_));
    while tries < (if hang { 2 } else { 32 }) && again < 2 {
        let batch: Vec<Job> = (0..if hang { 1 } else { 4 }).map(|_| job.clone()).collect();
        for r in run_jobs(&batch, tier, rep) {
            tries += 1;
            let same = match (first, &r) {
                (JobResult::Hung(x), JobResult::Hung(y)) | (JobResult::Died(x), JobResult::Died(y)) => x == y,
                (JobResult::Done(a), JobResult::Done(b)) => match (&a.diff, &b.diff) {
                    (Some(x), Some(y)) => x.0 == y.0 && x.2 == y.2 && x.3 == y.3 && x.4 == y.4,
                    _ => false,
                },
                _ => false,
            };
            if same {
                again += 1;
            }
        }
        if matches!(first, JobResult::Hung(_)) && again >= 1 {
            break; // one more full deadline is enough for a statement that never returns
        }
    }
    (again, tries)
}

pub fn run(tier: &str) -> i32 {
    let mut rep = Report::new("C16", tier, "model_checking");
    let thorough = tier == "thorough";
    let alpha_full = alphabet(thorough);
    let alpha_small = alphabet(false);
    // (configuration, depth bound, full alphabet of the tier?)
    let cfgs = configs();
    let plan: Vec<(usize, usize, bool)> = if thorough { vec![(0, 3, true), (1, 3, true), (2, 3, true), (3, 3, true), (4, 2, true), (0, 4, false)] } else { vec![(0, 3, true), (1, 2, true), (4, 1, true)] };
    let max_secs = std::env::var("VERIF_MAX_SECS").ok().and_then(|s| s.parse::<f64>().ok()).unwrap_or(if thorough { 1500.0 } else { 90.0 });
    let std_deadline = if thorough { 120 } else { 60 };
    let t0 = Instant::now();
    let mut tot = Totals::default();
    let mut exhaustive = true;
    let mut cfg_json = vec![];
    let mut samples: Vec<Value> = vec![];
    let ini = inits();
    let only_large = std::env::var("VERIF_C16_ONLY").map(|v| v == "large").unwrap_or(false);
    for (ci, depth, full) in &plan {
        if only_large {
            break;
        }
        let cfg = &cfgs[*ci];
        let alpha: &Vec<String> = if *full { &alpha_full } else { &alpha_small };
        let (mut c_hist, mut c_disk, mut c_stmts_disk, mut c_diffs, mut c_spill, mut c_dop) = (0u64, 0u64, 0u64, 0u64, 0u64, 0u64);
        let mut depth_done = *depth;
        let mut capped = false;
        for (ii, (init_name, init)) in ini.iter().enumerate() {
            let mut level: Vec<Vec<usize>> = vec![vec![]];
            for d in 1..=*depth {
                if t0.elapsed().as_secs_f64() > max_secs {
                    capped = true;
                    depth_done = depth_done.min(d - 1);
                    break;
                }
                let mut next: Vec<Vec<usize>> = Vec::with_capacity(level.len() * alpha.len());
                for h in &level {
                    for a in 0..alpha.len() {
                        let mut n = h.clone();
                        n.push(a);
                        next.push(n);
                    }
                }
                let jobs: Vec<Job> = next.iter().map(|h| Job { kind: "std".into(), name: cfg.name.to_string(), init: ii, full: *full, h: h.clone(), deadline_s: std_deadline }).collect();
                let res = run_jobs(&jobs, tier, &rep);
                let mut keep = vec![];
                for ((h, job), r) in next.into_iter().zip(jobs.iter()).zip(res.into_iter()) {
                    c_hist += 1;
                    let ops: Vec<String> = h.iter().map(|i| alpha[*i].clone()).collect();
                    match &r {
                        JobResult::Done(o) => {
                            tot.add(o);
                            c_spill += o.reach_spill;
                            c_dop += o.reach_disk_op;
                            if o.ended_disk_backed {
                                c_disk += 1;
                            }
                            c_stmts_disk += o.stmts_while_disk_backed;
                            if let Some(e) = &o.error {
                                rep.machinery_error(e.clone());
                                continue;
                            }
                            match &o.diff {
                                None => {
                                    if samples.len() < 3 && o.ended_disk_backed && h.len() >= 2 {
                                        samples.push(json!({"config": cfg.name, "init": init_name, "steps": ops}));
                                    }
                                    keep.push(h);
                                }
                                Some(t) => {
                                    c_diffs += 1;
                                    let diff = to_diff(t);
                                    if diff.step != ops.len() {
                                        continue; // an intermediate statement differs: the shorter history reported that
                                    }
                                    let (again, tries) = confirm(job, &r, tier, &rep);
                                    if again >= 1 {
                                        rep.violation(
                                            &signature(cfg, init_name, &ops, &diff),
                                            format!(
                                                "[{} | {}] {} ; after step {} `{}` gives {} with in-memory indexes and {} under the spill configuration (disk-backed: {:?}){}",
                                                cfg.name,
                                                init_name,
                                                ops.join(" ; "),
                                                diff.step,
                                                diff.sql,
                                                diff.a,
                                                diff.b,
                                                diff.disk_backed,
                                                if tries > again { format!(" [shown by {} of {} re-executions: depends on which index the planner picks]", again, tries) } else { String::new() }
                                            ),
                                            case_json(cfg, thorough, init_name, init, &ops, &diff),
                                        );
                                    } else {
                                        rep.machinery_error(format!("a differing history did not show again in {} re-executions: {:?}", tries, diff));
                                    }
                                }
                            }
                        }
                        JobResult::Hung(step) | JobResult::Died(step) => {
                            tot.hist += 1;
                            c_diffs += 1;
                            if *step != ops.len() {
                                continue; // an earlier statement of the history: the shorter history reports it
                            }
                            let hung = matches!(r, JobResult::Hung(_));
                            let what = if hung { format!("no result within {} s", std_deadline) } else { "the process died".to_string() };
                            let (again, tries) = confirm(job, &r, tier, &rep);
                            if again >= 1 {
                                let diff = Diff { step: ops.len(), class: "statement".into(), sql: ops.last().cloned().unwrap_or_default(), a: "(returns)".into(), b: what.clone(), disk_backed: vec![] };
                                let mut sig = signature(cfg, init_name, &ops, &diff);
                                sig.push(("outcome", if hung { "hang".into() } else { "abort".into() }));
                                rep.violation(&sig, format!("[{} | {}] {} ; {} under the spill configuration (the in-memory twin answers)", cfg.name, init_name, ops.join(" ; "), what), case_json(cfg, thorough, init_name, init, &ops, &diff));
                            } else {
                                rep.machinery_error(format!("a worker gave {} on {:?} but not again in {} re-executions", what, ops, tries));
                            }
                        }
                    }
                }
                level = keep;
            }
        }
        exhaustive &= !capped;
        println!(
            "C16 config {:<24} alphabet={} depth={}{} histories={} ended-with-a-disk-backed-index={} statements-run-on-disk-backed={} spill_to_disk={} disk_backed_op={} differing={}",
            cfg.name,
            alpha.len(),
            depth_done,
            if capped { " CAPPED" } else { "" },
            c_hist,
            c_disk,
            c_stmts_disk,
            c_spill,
            c_dop,
            c_diffs
        );
        cfg_json.push(json!({
            "config": cfg.name, "memory_budget": cfg.budget, "spill_policy": policy_name(cfg.policy), "alphabet_size": alpha.len(), "depth_bound": depth, "depth_completed": depth_done, "capped": capped,
            "histories": c_hist, "histories_ending_with_disk_backed_index": c_disk, "statements_on_disk_backed": c_stmts_disk,
            "reach_spill_to_disk": c_spill, "reach_disk_backed_op": c_dop, "differing_histories": c_diffs,
        }));
    }

    // large-table family
    let mut large_json = vec![];
    for lc in large_cases(thorough) {
        let tl = Instant::now();
        let alpha = large_alphabet(lc.rows);
        // level by level: a differing history is reported and not extended
        let mut level: Vec<Vec<usize>> = vec![vec![]];
        let mut n_hist = 0usize;
        let (mut differing, mut disk) = (0u64, 0u64);
        let mut seen_sig: HashSet<String> = HashSet::new();
        for d in 0..=lc.depth {
        let seqs: Vec<Vec<usize>> = if d == 0 {
            level.clone()
        } else {
            let mut nx = vec![];
            for h in &level {
                for a in 0..alpha.len() {
                    let mut n = h.clone();
                    n.push(a);
                    nx.push(n);
                }
            }
            nx
        };
        n_hist += seqs.len();
        let mut keep: Vec<Vec<usize>> = vec![];
        let deadline = if lc.rows >= 50_000 { 1500 } else { 60 };
        let jobs: Vec<Job> = seqs.iter().map(|h| Job { kind: "large".into(), name: lc.name.to_string(), init: 0, full: true, h: h.clone(), deadline_s: deadline }).collect();
        let res = run_jobs(&jobs, tier, &rep);
        for (job, r) in jobs.iter().zip(res.into_iter()) {
            let ops = job_ops(job, thorough);
            let (diff, outcome) = match &r {
                JobResult::Done(o) => {
                    tot.add(o);
                    if o.ended_disk_backed {
                        disk += 1;
                    }
                    if let Some(e) = &o.error {
                        rep.machinery_error(format!("large case {}: {}", lc.name, e));
                        continue;
                    }
                    match &o.diff {
                        None => {
                            keep.push(job.h.clone());
                            continue;
                        }
                        Some(t) => (to_diff(t), "differs"),
                    }
                }
                JobResult::Hung(step) => {
                    tot.hist += 1;
                    if *step != ops.len() {
                        differing += 1;
                        continue; // the shorter history reports it
                    }
                    (Diff { step: ops.len(), class: "statement".into(), sql: ops.last().cloned().unwrap_or_default(), a: "(returns)".into(), b: format!("no result within {} s", deadline), disk_backed: vec![] }, "hang")
                }
                JobResult::Died(step) => {
                    tot.hist += 1;
                    if *step != ops.len() {
                        differing += 1;
                        continue;
                    }
                    (Diff { step: ops.len(), class: "statement".into(), sql: ops.last().cloned().unwrap_or_default(), a: "(returns)".into(), b: "the process died".into(), disk_backed: vec![] }, "abort")
                }
            };
            differing += 1;
            let last = if diff.step == 0 { "CREATE INDEX (setup)".to_string() } else { stmt_shape(&ops[diff.step - 1]) };
            let sig = vec![("family", format!("large:{}", lc.name)), ("last_stmt", last), ("probe", diff.class.clone()), ("outcome", outcome.to_string())];
            if !seen_sig.insert(format!("{:?}", sig)) {
                rep.total_failing_cases.fetch_add(1, Ordering::Relaxed);
                continue;
            }
            let (again, tries) = confirm(job, &r, tier, &rep);
            if again == 0 {
                rep.machinery_error(format!("large case {}: {:?} did not show again in {} re-executions", lc.name, diff, tries));
                continue;
            }
            rep.violation(
                &sig,
                format!(
                    "[large:{} | {}] {} rows ; {} ; at step {} `{}` gives {} with in-memory indexes and {} on the other side (disk-backed: {:?})",
                    lc.name,
                    lc.cfg.name,
                    lc.rows,
                    ops.iter().map(|o| vcore::util::trunc(o, 60)).collect::<Vec<_>>().join(" ; "),
                    diff.step,
                    vcore::util::trunc(&diff.sql, 100),
                    vcore::util::trunc(&diff.a, 200),
                    vcore::util::trunc(&diff.b, 200),
                    diff.disk_backed
                ),
                json!({"tier": tier, "large_case": lc.name, "steps": ops, "differs_at_step": diff.step, "probe": diff.sql, "in_memory": vcore::util::trunc(&diff.a, 400), "spilled": vcore::util::trunc(&diff.b, 400)}),
            );
        }
        level = keep;
        }
        println!("C16 large case {:<34} rows={} config={} histories={} ended-disk-backed={} differing={} wall={:.1}s", lc.name, lc.rows, lc.cfg.name, n_hist, disk, differing, tl.elapsed().as_secs_f64());
        large_json.push(json!({"case": lc.name, "rows": lc.rows, "config": lc.cfg.name, "index_created_before_rows_on_in_memory_twin": lc.index_first_on_a, "suffix_depth": lc.depth, "suffix_alphabet": alpha.len(), "histories": n_hist, "histories_ending_disk_backed": disk, "differing": differing}));
    }

    println!("C16 histories={} statements(x2 twins)={} probes(x2)={} ok={} err={} distinct probe results={} wall={:.1}s", tot.hist, tot.stmts, tot.probes, tot.ok, tot.err, tot.outcomes.len(), t0.elapsed().as_secs_f64());
    println!("C16 reach: {:?}", tot.reach);
    rep.set("states", json!(tot.hist));
    rep.set("transitions", json!(tot.stmts));
    rep.set("traces_validated_against_impl", json!(tot.stmts));
    rep.set("probe_queries_compared", json!(tot.probes));
    rep.set("transition_outcomes", json!({"ok": tot.ok, "err": tot.err}));
    rep.set("distinct_probe_results", json!(tot.outcomes.len()));
    rep.set("alphabet", json!(alpha_full));
    rep.set("alphabet_size", json!(alpha_full.len()));
    rep.set("initial_states", json!(["empty table", PREFILL]));
    rep.set("configurations", json!(cfg_json));
    rep.set("large_table_family", json!(large_json));
    rep.set("exhaustive", json!(exhaustive));
    rep.set("reach", json!(tot.reach));
    let vac: Vec<&str> = ["spill_to_disk", "disk_backed_op", "index_scan", "index_where_skip"].iter().copied().filter(|k| tot.reach.get(k).copied().unwrap_or(0) == 0).collect();
    rep.set("vacuous_mechanisms", json!(vac));
    if samples.is_empty() {
        samples.push(json!({"steps": alpha_full.iter().take(2).collect::<Vec<_>>()}));
    }
    rep.set("samples", json!(samples));
    rep.set(
        "rule",
        json!("every statement sequence up to the depth bound over the alphabet, from the empty and from the prefilled table, replayed from scratch on Database::new() and on Database::with_path_and_config(private dir, memory budget, spill policy); statement outcomes (class, count) at every step and the bags of the probe battery after the last step must agree; a differing history is reported and not extended; each history runs in a worker process with a deadline (a statement that never returns is a difference)"),
    );
    rep.assume("a history is a replay from the empty database (disk-backed indexes are shared between clones); the probe battery is derived from the table content of the in-memory twin and compared as bags");
    rep.finish()
}

fn replay_large(case: &Value, name: &str) -> i32 {
    let thorough = case["tier"].as_str() == Some("thorough");
    let Some(lc) = large_cases(true).into_iter().find(|l| l.name == name) else {
        eprintln!("MACHINERY-ERROR unknown large case {}", name);
        return 2;
    };
    let fill = large_fill(&lc);
    let mut setup_a: Vec<String> = PRELUDE.iter().map(|s| s.to_string()).collect();
    let mut setup_b = setup_a.clone();
    if lc.index_first_on_a {
        setup_a.push(LARGE_INDEX.to_string());
        setup_a.extend(fill.iter().cloned());
        setup_b.extend(fill.iter().cloned());
        setup_b.push(LARGE_INDEX.to_string());
    } else {
        setup_a.extend(fill.iter().cloned());
        setup_b.extend(fill.iter().cloned());
    }
    let ops: Vec<String> = case["steps"].as_array().map(|a| a.iter().filter_map(|x| x.as_str().map(|s| s.to_string())).collect()).unwrap_or_default();
    let base = scratch_base();
    let _ = std::fs::create_dir_all(&base);
    let mut st = HStats::default();
    let mut log = vec![];
    let r = run_twins(&lc.cfg, &base, thorough, &setup_a, &setup_b, &ops, false, &large_lits(lc.rows), &mut st, Some(&mut log));
    let _ = std::fs::remove_dir_all(&base);
    println!("large case {}: {} rows, configuration {} (memory_budget {}, {}); index created {} the rows on the in-memory twin", lc.name, lc.rows, lc.cfg.name, lc.cfg.budget, policy_name(lc.cfg.policy), if lc.index_first_on_a { "before" } else { "after" });
    for l in log {
        println!("{}", vcore::util::trunc(&l, 400));
    }
    match r {
        Err(e) => {
            eprintln!("MACHINERY-ERROR {}", e);
            2
        }
        Ok(None) => {
            println!("no difference between the twins");
            0
        }
        Ok(Some(d)) => {
            println!("DIFFERENCE at step {}: `{}`\n  in-memory indexes : {}\n  other side        : {}", d.step, d.sql, vcore::util::trunc(&d.a, 300), vcore::util::trunc(&d.b, 300));
            1
        }
    }
}

pub fn replay(case: &Value) -> i32 {
    if let Some(n) = case["large_case"].as_str() {
        return replay_large(case, n);
    }
    let Some(cfg) = case["config"]["name"].as_str().and_then(cfg_by_name) else {
        eprintln!("MACHINERY-ERROR unknown configuration");
        return 2;
    };
    let init: Vec<String> = case["init"].as_array().map(|a| a.iter().filter_map(|x| x.as_str().map(|s| s.to_string())).collect()).unwrap_or_default();
    let init_refs: Vec<&str> = init.iter().map(|s| s.as_str()).collect();
    let ops: Vec<String> = case["steps"].as_array().map(|a| a.iter().filter_map(|x| x.as_str().map(|s| s.to_string())).collect()).unwrap_or_default();
    let base = scratch_base();
    let _ = std::fs::create_dir_all(&base);
    let mut st = HStats::default();
    let mut log = vec![];
    let r = run_history(&cfg, &base, case["tier"].as_str() == Some("thorough"), &init_refs, &ops, true, &mut st, Some(&mut log));
    let _ = std::fs::remove_dir_all(&base);
    println!("configuration: {} (memory_budget {}, {})", cfg.name, cfg.budget, policy_name(cfg.policy));
    for s in PRELUDE.iter().chain(init_refs.iter()) {
        println!("init: {}", s);
    }
    for l in log {
        println!("{}", l);
    }
    match r {
        Err(e) => {
            eprintln!("MACHINERY-ERROR {}", e);
            2
        }
        Ok(None) => {
            println!("no difference between the twins");
            0
        }
        Ok(Some(d)) => {
            println!("DIFFERENCE at step {}: `{}`\n  in-memory indexes : {}\n  spill configuration: {}", d.step, d.sql, d.a, d.b);
            1
        }
    }
}
