//! `idxmccheck` — checks C16, C17.
//!   idxmccheck check <ID> <quick|thorough>
//!   idxmccheck replay <path>

mod bt;
mod c16;
mod c17;
mod mem;

// Every SelectExecutor allocates a zeroed 10 MiB arena per query; pool those blocks (see vcore::bigalloc)
#[global_allocator]
static GLOBAL: vcore::bigalloc::ArenaCache = vcore::bigalloc::ArenaCache;

fn usage() -> ! {
    eprintln!("usage: idxmccheck check <C16|C17> <quick|thorough> | idxmccheck replay <path>");
    std::process::exit(2)
}

fn replay(path: &str) -> i32 {
    let text = match std::fs::read_to_string(path) {
        Ok(t) => t,
        Err(e) => {
            eprintln!("cannot read {}: {}", path, e);
            return 2;
        }
    };
    let v: serde_json::Value = match serde_json::from_str(&text) {
        Ok(v) => v,
        Err(e) => {
            eprintln!("bad replay file: {}", e);
            return 2;
        }
    };
    println!("property: {}", v["property"].as_str().unwrap_or("?"));
    println!("signature: {}", v["signature"]);
    println!("recorded: {}", v["what"].as_str().unwrap_or(""));
    println!("-- re-execution");
    match v["property"].as_str() {
        Some("C16") => c16::replay(&v["case"]),
        Some("C17") => c17::replay(&v["case"]),
        _ => {
            eprintln!("not a replay file of this package");
            2
        }
    }
}

fn main() {
    let args: Vec<String> = std::env::args().collect();
    if args.len() < 2 {
        usage();
    }
    if std::env::var("PARALLEL_THRESHOLD").is_err() {
        std::env::set_var("PARALLEL_THRESHOLD", "max");
    }
    vcore::exec::silence_panics();
    let code = match args[1].as_str() {
        "check" if args.len() >= 4 => match args[2].as_str() {
            "C16" => c16::run(&args[3]),
            "C17" => c17::run(&args[3]),
            other => {
                eprintln!("idxmccheck does not implement {}", other);
                2
            }
        },
        "replay" if args.len() >= 3 => replay(&args[2]),
        "c16worker" if args.len() >= 3 => c16::worker_main(&args[2]),
        _ => usage(),
    };
    std::process::exit(code);
}
