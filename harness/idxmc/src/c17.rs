//! C17 — the disk-backed B+ tree behaves as an ordered multimap and its persisted pages stay
//! well-formed (DESIGN §5 C17, engine E3).
//!
//! Explicit-state search over all sequences of insert / delete / delete_specific over a small key
//! domain, from the empty tree, from insert-built trees and from bulk-loaded trees; in every reached
//! state the whole query battery (lookup of every key, multi_lookup of a menu of key sets, range_scan
//! for every pair of bounds x 4 inclusivity combinations) is compared with a reference multimap, the
//! persisted pages are decoded with the crate's own readers and checked, and `BTreeIndex::load` of the
//! same pages has to answer like the live tree. lookup / multi_lookup / range_scan are therefore
//! "interleaved" at every position of every sequence; that they do not change the state is checked.

use std::collections::{BTreeMap, HashSet};
use std::time::Instant;

use serde_json::{json, Value};
use vibesql_storage::btree::Key;
use vibesql_types::{DataType, SqlValue};

use vcore::report::Report;
use vcore::util::{hash128, par_map};

use crate::bt::*;

// ------------------------------------------------------------------------------------------------
// domains

fn vc(s: &str) -> SqlValue {
    SqlValue::Varchar(s.to_string())
}

fn long_varchar() -> DataType {
    DataType::Varchar { max_length: Some(1000) }
}

/// single VARCHAR(1000) key (degree 5): `n` keys "k01".."kNN", optionally NULL and '' as further keys
fn dom_str(name: &'static str, n: usize, with_null: bool, max_len: usize) -> Result<Domain, String> {
    let mut keys: Vec<Key> = (1..=n).map(|i| vec![vc(&format!("k{:02}", i))]).collect();
    if with_null {
        keys.push(vec![SqlValue::Null]);
        keys.push(vec![vc("")]);
    }
    // probe-only keys: below everything, between, above everything
    let probes: Vec<Key> = vec![vec![vc("a")], vec![vc("k015")], vec![vc("z")]];
    Domain::new(name, vec![DataType::Varchar { max_length: Some(max_len) }], keys, &probes)
}

/// composite (VARCHAR(1000), INTEGER) key with NULL components
fn dom_composite(name: &'static str) -> Result<Domain, String> {
    let i = |x: i64| SqlValue::Integer(x);
    let keys: Vec<Key> = vec![
        vec![SqlValue::Null, SqlValue::Null],
        vec![SqlValue::Null, i(1)],
        vec![vc("a"), SqlValue::Null],
        vec![vc("a"), i(1)],
        vec![vc("a"), i(2)],
        vec![vc("ab"), i(0)],
        vec![vc("b"), SqlValue::Null],
        vec![vc("b"), i(1)],
        vec![vc("b"), i(10)],
        vec![vc("c"), i(-5)],
    ];
    let probes: Vec<Key> = vec![vec![vc("a"), i(0)], vec![vc("bb"), i(3)]];
    Domain::new(name, vec![long_varchar(), DataType::Integer], keys, &probes)
}

// ------------------------------------------------------------------------------------------------
// families

#[derive(Clone, Debug)]
pub enum Start {
    Empty,
    /// operations executed on the empty tree (every intermediate state is checked as well)
    Built(Vec<Op>),
    /// `BTreeIndex::bulk_load` of sorted (key, row id) entries
    Bulk(Vec<(u16, u16)>),
    /// `bulk_load`, then operations (every intermediate state is checked as well)
    BulkThen(Vec<(u16, u16)>, Vec<Op>),
}

impl Start {
    fn kind(&self) -> &'static str {
        match self {
            Start::Empty => "empty",
            Start::Built(_) => "built",
            Start::Bulk(_) => "bulk_load",
            Start::BulkThen(..) => "bulk_load_then",
        }
    }
    fn to_json(&self) -> Value {
        match self {
            Start::Empty => json!({"kind": "empty"}),
            Start::Built(ops) => json!({"kind": "built", "ops": ops.iter().map(|o| o.to_json()).collect::<Vec<_>>()}),
            Start::Bulk(e) => json!({"kind": "bulk_load", "entries": e}),
            Start::BulkThen(e, ops) => json!({"kind": "bulk_load_then", "entries": e, "ops": ops.iter().map(|o| o.to_json()).collect::<Vec<_>>()}),
        }
    }
    fn from_json(v: &Value) -> Option<Start> {
        match v["kind"].as_str()? {
            "empty" => Some(Start::Empty),
            "built" => Some(Start::Built(v["ops"].as_array()?.iter().filter_map(Op::from_json).collect())),
            "bulk_load" => Some(Start::Bulk(v["entries"].as_array()?.iter().filter_map(|e| Some((e.get(0)?.as_u64()? as u16, e.get(1)?.as_u64()? as u16))).collect())),
            "bulk_load_then" => Some(Start::BulkThen(
                v["entries"].as_array()?.iter().filter_map(|e| Some((e.get(0)?.as_u64()? as u16, e.get(1)?.as_u64()? as u16))).collect(),
                v["ops"].as_array()?.iter().filter_map(Op::from_json).collect(),
            )),
            _ => None,
        }
    }
}

pub struct Family {
    pub name: &'static str,
    pub dom: Domain,
    pub battery: Battery,
    /// battery for the re-loaded tree when its root / height / degree equal the live tree's
    pub reduced: Battery,
    pub rids: Vec<u16>,
    /// a key never holds more than `cap` row ids (insert is not enabled beyond; bounds the space)
    pub cap: usize,
    pub delspec: bool,
    /// merge states that differ only by a renaming of page ids / the content of unreachable pages
    /// (assumes the tree code treats page ids as opaque names; the other families do not assume it)
    pub canonical: bool,
    pub starts: Vec<Start>,
    pub depth: usize,
    pub max_secs: f64,
}

fn asc(d: &Domain, n: usize) -> Vec<Op> {
    d.op_keys.iter().take(n).map(|k| Op::Ins(*k as u16, 0)).collect()
}
fn desc(d: &Domain, n: usize) -> Vec<Op> {
    d.op_keys.iter().take(n).rev().map(|k| Op::Ins(*k as u16, 0)).collect()
}
/// outside-in order: first, last, second, last but one, ...
fn zigzag(d: &Domain, n: usize) -> Vec<Op> {
    let ks: Vec<usize> = d.op_keys.iter().take(n).copied().collect();
    let mut out = vec![];
    let (mut i, mut j) = (0usize, ks.len());
    while i < j {
        out.push(Op::Ins(ks[i] as u16, 0));
        i += 1;
        if i < j {
            j -= 1;
            out.push(Op::Ins(ks[j] as u16, 0));
        }
    }
    out
}

/// the inserts of `ins` turned into deletes of the same keys in the same order
fn as_deletes(ins: &[Op]) -> Vec<Op> {
    ins.iter().map(|o| match o {
        Op::Ins(k, _) | Op::Del(k) | Op::DelSpec(k, _) => Op::Del(*k),
    }).collect()
}

fn bulk_prefix(d: &Domain, n: usize, dups: bool) -> Start {
    let mut e = vec![];
    for (p, k) in d.op_keys.iter().take(n).enumerate() {
        e.push((*k as u16, 0u16));
        if dups && p % 2 == 0 {
            e.push((*k as u16, 1u16));
            if p % 4 == 0 {
                e.push((*k as u16, 0u16));
            }
        }
    }
    Start::Bulk(e)
}

/// every subset of the first `n` op keys, bulk-loaded with one row id per key
fn bulk_subsets(d: &Domain, n: usize) -> Vec<Start> {
    let ks: Vec<usize> = d.op_keys.iter().take(n).copied().collect();
    (0u32..(1u32 << ks.len())).map(|mask| Start::Bulk(ks.iter().enumerate().filter(|(i, _)| mask >> i & 1 == 1).map(|(_, k)| (*k as u16, 0u16)).collect())).collect()
}

pub fn families(thorough: bool) -> Result<Vec<Family>, String> {
    let mut f = vec![];
    // A: closure — one row id per key: *every* sequence (any length) over 8 keys, until no new state appears
    {
        let d = dom_str("varchar1000", 8, false, 1000)?;
        let b = Battery::full(&d);
        f.push(Family { name: "closure8", reduced: b.reduced(&d), battery: b, rids: vec![0], cap: 1, delspec: true, canonical: true, starts: vec![Start::Empty], depth: 200, max_secs: if thorough { 120.0 } else { 60.0 }, dom: d });
    }
    if thorough {
        // the same closure over 11 keys: height 3, internal splits / borrows / merges from the empty tree
        let d = dom_str("varchar1000", 11, false, 1000)?;
        let b = Battery::full(&d);
        f.push(Family { name: "closure11", reduced: b.reduced(&d), battery: b, rids: vec![0], cap: 1, delspec: false, canonical: true, starts: vec![Start::Empty], depth: 200, max_secs: 400.0, dom: d });
    }
    if thorough {
        // 13 keys (as far as it gets within the time cap; the evidence says whether the fixpoint was reached)
        let d = dom_str("varchar1000", 13, false, 1000)?;
        let b = Battery::full(&d);
        f.push(Family { name: "closure13", reduced: b.reduced(&d), battery: b, rids: vec![0], cap: 1, delspec: false, canonical: true, starts: vec![Start::Empty], depth: 200, max_secs: 500.0, dom: d });
        // duplicates: 5 keys, row ids {0,1}, at most two per key (the same row id twice included): closure
        let d = dom_str("varchar1000", 5, false, 1000)?;
        let b = Battery::full(&d);
        f.push(Family { name: "closure_duplicates5", reduced: b.reduced(&d), battery: b, rids: vec![0, 1], cap: 2, delspec: true, canonical: true, starts: vec![Start::Empty], depth: 200, max_secs: 300.0, dom: d });
    }
    // A': more keys (height 3 reachable from the empty tree), depth-bounded
    {
        let n = if thorough { 13 } else { 11 };
        let d = dom_str("varchar1000", n, false, 1000)?;
        let b = Battery::full(&d);
        f.push(Family { name: "shapes", reduced: b.reduced(&d), battery: b, rids: vec![0], cap: 1, delspec: false, canonical: false, starts: vec![Start::Empty], depth: if thorough { 9 } else { 6 }, max_secs: if thorough { 200.0 } else { 60.0 }, dom: d });
    }
    // B: multimap — several row ids per key, duplicates of the same (key,row id), from empty and from
    // insert-built trees of height 2 and 3
    {
        let d = dom_str("varchar1000", 12, false, 1000)?;
        let b = Battery::full(&d);
        let starts = vec![Start::Empty, Start::Built(asc(&d, 5)), Start::Built(desc(&d, 7)), Start::Built(zigzag(&d, 9)), Start::Built(asc(&d, 11)), Start::Built(desc(&d, 12)), Start::Built(zigzag(&d, 12))];
        f.push(Family { name: "multimap", reduced: b.reduced(&d), battery: b, rids: if thorough { vec![0, 1, 2] } else { vec![0, 1] }, cap: if thorough { 3 } else { 2 }, delspec: true, canonical: false, starts, depth: if thorough { 3 } else { 2 }, max_secs: if thorough { 250.0 } else { 60.0 }, dom: d });
    }
    // C: bulk-loaded start states: every number of distinct keys 0..=16 with and without duplicate keys,
    // every subset of the first 8 (quick: 5) keys
    {
        let d = dom_str("varchar1000", 16, false, 1000)?;
        let b = Battery::full(&d);
        let mut starts = vec![];
        for m in 0..=16usize {
            starts.push(bulk_prefix(&d, m, false));
            if m > 0 {
                starts.push(bulk_prefix(&d, m, true));
            }
        }
        starts.extend(bulk_subsets(&d, if thorough { 8 } else { 5 }));
        f.push(Family { name: "bulk", reduced: b.reduced(&d), battery: b, rids: vec![0, 1], cap: 3, delspec: true, canonical: false, starts, depth: if thorough { 2 } else { 1 }, max_secs: if thorough { 200.0 } else { 60.0 }, dom: d });
    }
    // C': drains — a tree of height 3 (28 keys at degree 5) built in ascending / descending / outside-in
    // order or bulk-loaded, then emptied key by key in each of those orders; every intermediate state is
    // checked. Emptying from one edge drives the internal nodes at that edge through underflow: borrow
    // from the right (left) sibling, merge, root collapse — which depth-bounded searches from small
    // trees do not reach
    {
        let n = 28;
        let d = dom_str("varchar1000", n, false, 1000)?;
        let b = Battery::sparse(&d, &[0, 1, 2, 5, 6, 9, 12, 13, 17, 20, 21, 26, 27]);
        let (ia, id, iz) = (asc(&d, n), desc(&d, n), zigzag(&d, n));
        let mut starts = vec![];
        for ins in [&ia, &id, &iz] {
            for del in [&ia, &id, &iz] {
                let mut ops = ins.clone();
                ops.extend(as_deletes(del));
                starts.push(Start::Built(ops));
            }
        }
        if let Start::Bulk(e) = bulk_prefix(&d, n - 1, false) {
            for del in [&ia, &id, &iz] {
                let dels: Vec<Op> = as_deletes(del).into_iter().filter(|o| matches!(o, Op::Del(k) if e.iter().any(|x| x.0 == *k))).collect();
                starts.push(Start::BulkThen(e.clone(), dels));
            }
        }
        f.push(Family { name: "drain", reduced: b.reduced(&d), battery: b, rids: vec![0], cap: 1, delspec: false, canonical: false, starts, depth: 1, max_secs: 60.0, dom: d });
    }
    // D: composite keys with NULL components
    {
        let d = dom_composite("varchar1000_int")?;
        let b = Battery::full(&d);
        let starts = vec![Start::Empty, Start::Built(asc(&d, 10)), Start::Built(desc(&d, 8)), bulk_prefix(&d, 10, true), bulk_prefix(&d, 7, false)];
        f.push(Family { name: "composite_null", reduced: b.reduced(&d), battery: b, rids: vec![0, 1], cap: 2, delspec: true, canonical: false, starts, depth: if thorough { 3 } else { 2 }, max_secs: if thorough { 120.0 } else { 60.0 }, dom: d });
    }
    if thorough {
        // single-column NULL and '' keys
        let d = dom_str("varchar1000_null", 8, true, 1000)?;
        let b = Battery::full(&d);
        f.push(Family { name: "null_and_empty_string", reduced: b.reduced(&d), battery: b, rids: vec![0], cap: 1, delspec: false, canonical: false, starts: vec![Start::Empty, bulk_prefix(&d, 10, false)], depth: 7, max_secs: 90.0, dom: d });
        // other small degrees: VARCHAR(150) -> degree 6, VARCHAR(135) -> degree 7
        for (nm, len) in [("varchar150", 150usize), ("varchar135", 135usize)] {
            let d = dom_str(nm, 20, false, len)?;
            let b = Battery::sparse(&d, &[0, 1, 2, 5, 8, 9, 12, 15, 17, 18, 21, 22]);
            let starts = vec![Start::Empty, Start::Built(asc(&d, 20)), Start::Built(desc(&d, 20)), Start::Built(zigzag(&d, 20)), bulk_prefix(&d, 20, false), bulk_prefix(&d, 17, true)];
            f.push(Family { name: if len == 150 { "degree6" } else { "degree7" }, reduced: b.reduced(&d), battery: b, rids: vec![0], cap: 1, delspec: false, canonical: false, starts, depth: 3, max_secs: 90.0, dom: d });
        }
    }
    Ok(f)
}

// ------------------------------------------------------------------------------------------------
// running histories

fn empty_model(d: &Domain) -> Model {
    vec![vec![]; d.keys.len()]
}

fn ret_str(r: &Ret) -> String {
    match r {
        Ret::Unit => "Ok(())".into(),
        Ret::Bool(b) => format!("Ok({})", b),
        Ret::Err(e) => format!("Err({})", e),
        Ret::Panic(p) => format!("PANIC({})", vcore::util::trunc(p, 200)),
    }
}

fn ret_fail(op: Op, d: &Domain, got: &Ret, want: &Ret) -> Fail {
    let clause = match got {
        Ret::Err(_) => format!("{}:err", op.kind()),
        Ret::Panic(_) => format!("{}:panic", op.kind()),
        _ => format!("{}:return", op.kind()),
    };
    (clause, format!("{} returned {}, the ordered map says {}", op.show(d), ret_str(got), ret_str(want)))
}

/// All checks on a live tree in a state the model describes. Returns the decoded shape.
fn check_state(t: &Tree, fam: &Family, m: &Model, counters: &mut Counters) -> Result<Shape, Fail> {
    let d = &fam.dom;
    let s1 = t.snap();
    check_queries(&t.idx, d, m, &fam.battery, "")?;
    let s2 = t.snap();
    if s1 != s2 {
        return Err(("query-mutates-state".into(), "the page image or the allocator state changed while only lookup / multi_lookup / range_scan ran".into()));
    }
    // the persisted tree: root and height as BTreeIndex::load reads them from page 0
    let loaded = Tree::attach(&s1).map_err(|e| ("load".to_string(), format!("BTreeIndex::load of the persisted pages failed: {}", e)))?;
    let same_meta = loaded.idx.root_page_id() == t.idx.root_page_id() && loaded.idx.height() == t.idx.height() && loaded.idx.degree() == t.idx.degree();
    if !same_meta {
        counters.live_meta_differs += 1;
    }
    let shape = check_structure(&loaded.pm, loaded.idx.root_page_id(), loaded.idx.height())?;
    check_content(&shape, d, m)?;
    // same bytes, same root / height / degree: the reduced battery; otherwise the full one
    let lb = if same_meta { &fam.reduced } else { &fam.battery };
    check_queries(&loaded.idx, d, m, lb, "after BTreeIndex::load: ")?;
    counters.queries += fam.battery.n_queries(d) + lb.n_queries(d);
    counters.states_checked += 1;
    Ok(shape)
}

#[derive(Default, Clone, Debug)]
pub struct Counters {
    pub states_checked: u64,
    pub queries: u64,
    pub live_meta_differs: u64,
    pub events: BTreeMap<&'static str, u64>,
    pub rets: BTreeMap<String, u64>,
    pub max_height: usize,
    pub max_leaves: usize,
    pub max_internals: usize,
    pub degrees: BTreeMap<usize, u64>,
}

impl Counters {
    fn merge(&mut self, o: &Counters) {
        self.states_checked += o.states_checked;
        self.queries += o.queries;
        self.live_meta_differs += o.live_meta_differs;
        for (k, v) in &o.events {
            *self.events.entry(k).or_default() += v;
        }
        for (k, v) in &o.rets {
            *self.rets.entry(k.clone()).or_default() += v;
        }
        for (k, v) in &o.degrees {
            *self.degrees.entry(*k).or_default() += v;
        }
        self.max_height = self.max_height.max(o.max_height);
        self.max_leaves = self.max_leaves.max(o.max_leaves);
        self.max_internals = self.max_internals.max(o.max_internals);
    }
    fn shape(&mut self, s: &Shape) {
        self.max_height = self.max_height.max(s.height);
        self.max_leaves = self.max_leaves.max(s.leaves.len());
        self.max_internals = self.max_internals.max(s.internals.len());
    }
}

#[derive(Clone)]
struct Node {
    snap: Snap,
    model: Model,
    start: usize,
    hist: Vec<Op>,
}

#[derive(Clone, Debug)]
struct Found {
    start: usize,
    hist: Vec<Op>,
    fail: Fail,
}

/// key of a state up to page renaming: logical structure + number of free pages + model.
/// Err: the persisted structure is not even decodable / well-formed (a violation; reported by the caller)
fn canon_key(t: &Tree, s: &Snap, m: &Model) -> Result<u128, Fail> {
    let loaded = Tree::attach(s).map_err(|e| ("load".to_string(), format!("BTreeIndex::load of the persisted pages failed: {}", e)))?;
    let shape = check_structure(&loaded.pm, loaded.idx.root_page_id(), loaded.idx.height())?;
    let mut txt = canonical_text(&shape);
    txt.push_str(&format!("#free{}#live{}", s.free.len(), (t.idx.root_page_id() == loaded.idx.root_page_id() && t.idx.height() == loaded.idx.height()) as u8));
    for l in m {
        let mut l = l.clone();
        l.sort_unstable();
        txt.push_str(&format!("{:?}", l));
    }
    Ok(hash128(txt.as_bytes()))
}

fn state_key(t: &Tree, s: &Snap, m: &Model) -> u128 {
    let mut b: Vec<u8> = Vec::with_capacity(s.packed.len() + 64);
    b.extend_from_slice(&s.packed);
    b.extend_from_slice(&(s.len as u64).to_le_bytes());
    b.extend_from_slice(&s.next.to_le_bytes());
    for f in &s.free {
        b.extend_from_slice(&f.to_le_bytes());
    }
    b.push(0xfe);
    b.extend_from_slice(&t.idx.root_page_id().to_le_bytes());
    b.extend_from_slice(&(t.idx.height() as u64).to_le_bytes());
    for l in m {
        let mut l = l.clone();
        l.sort_unstable();
        b.push(0xff);
        for r in l {
            b.push(r as u8);
        }
    }
    hash128(&b)
}

fn alphabet(fam: &Family, m: &Model) -> Vec<Op> {
    let mut a = vec![];
    for k in &fam.dom.op_keys {
        for r in &fam.rids {
            if m[*k].len() < fam.cap {
                a.push(Op::Ins(*k as u16, *r));
            }
        }
        a.push(Op::Del(*k as u16));
        if fam.delspec {
            for r in &fam.rids {
                a.push(Op::DelSpec(*k as u16, *r));
            }
        }
    }
    a
}

/// Build a start state on one live tree, checking every intermediate state.
/// Ok((tree, model)) or the failure with the number of recipe steps executed.
fn build_start(fam: &Family, st: &Start, counters: &mut Counters) -> Result<(Tree, Model), (Vec<Op>, Fail)> {
    let d = &fam.dom;
    let mut m = empty_model(d);
    match st {
        Start::Empty | Start::Built(_) => {
            let mut t = Tree::new_empty(&d.schema).map_err(|e| (vec![], ("new".to_string(), e)))?;
            let mut done = vec![];
            let mut pre = check_state(&t, fam, &m, counters).map_err(|f| (done.clone(), f))?;
            counters.shape(&pre);
            if let Start::Built(ops) = st {
                for op in ops {
                    let got = t.apply(d, *op);
                    let want = model_apply(&mut m, *op);
                    done.push(*op);
                    if got != want {
                        return Err((done, ret_fail(*op, d, &got, &want)));
                    }
                    let post = check_state(&t, fam, &m, counters).map_err(|f| (done.clone(), f))?;
                    note_events(counters, &pre, &post, *op, d);
                    pre = post;
                }
            }
            *counters.degrees.entry(t.idx.degree()).or_default() += 1;
            Ok((t, m))
        }
        Start::Bulk(entries) | Start::BulkThen(entries, _) => {
            let e: Vec<(Key, usize)> = entries.iter().map(|(k, r)| (d.keys[*k as usize].clone(), *r as usize)).collect();
            for (k, r) in entries {
                m[*k as usize].push(*r as usize);
            }
            let mut t = Tree::bulk(&d.schema, e).map_err(|(c, msg)| (vec![], (format!("bulk_load:{}", c), format!("bulk_load of {} sorted entries failed: {}", entries.len(), msg))))?;
            let mut pre = check_state(&t, fam, &m, counters).map_err(|f| (vec![], f))?;
            counters.shape(&pre);
            if let Start::BulkThen(_, ops) = st {
                let mut done = vec![];
                for op in ops {
                    let got = t.apply(d, *op);
                    let want = model_apply(&mut m, *op);
                    done.push(*op);
                    if got != want {
                        return Err((done, ret_fail(*op, d, &got, &want)));
                    }
                    let post = check_state(&t, fam, &m, counters).map_err(|f| (done.clone(), f))?;
                    note_events(counters, &pre, &post, *op, d);
                    pre = post;
                }
            }
            *counters.degrees.entry(t.idx.degree()).or_default() += 1;
            Ok((t, m))
        }
    }
}

fn note_events(c: &mut Counters, pre: &Shape, post: &Shape, op: Op, d: &Domain) {
    let k = match op {
        Op::Ins(k, _) | Op::Del(k) | Op::DelSpec(k, _) => k,
    };
    for e in events(pre, post, matches!(op, Op::Ins(..)), &d.keys[k as usize]) {
        *c.events.entry(e).or_default() += 1;
    }
    c.shape(post);
}

#[derive(Default, Debug, Clone)]
pub struct FamStats {
    pub states: u64,
    pub transitions: u64,
    pub depth_completed: usize,
    pub fixpoint: bool,
    pub capped: bool,
    pub per_depth: Vec<u64>,
    pub starts: usize,
    pub samples: Vec<String>,
}

struct Succ {
    parent: usize,
    op: Op,
    snap: Snap,
    model: Model,
    key: u128,
}

fn explore(fam: &Family, rep: &Report) -> (FamStats, Counters, Vec<Found>) {
    let t0 = Instant::now();
    let max_secs = std::env::var("VERIF_MAX_SECS").ok().and_then(|s| s.parse::<f64>().ok()).unwrap_or(fam.max_secs);
    let d = &fam.dom;
    let mut stats = FamStats { starts: fam.starts.len(), ..Default::default() };
    let mut counters = Counters::default();
    let mut found: Vec<Found> = vec![];
    let mut seen: HashSet<u128> = HashSet::new();
    let mut frontier: Vec<Node> = vec![];

    // start states (parallel, then merged in order)
    let built: Vec<(Counters, Result<(Snap, Model, u128), (Vec<Op>, Fail)>)> = par_map(&fam.starts, |_, st| {
        let mut c = Counters::default();
        let r = build_start(fam, st, &mut c).map(|(t, m)| {
            let s = t.snap();
            let k = if fam.canonical { canon_key(&t, &s, &m).unwrap_or_else(|_| state_key(&t, &s, &m)) } else { state_key(&t, &s, &m) };
            (s, m, k)
        });
        (c, r)
    });
    for (i, (c, r)) in built.into_iter().enumerate() {
        counters.merge(&c);
        match r {
            Ok((snap, model, key)) => {
                if seen.insert(key) {
                    frontier.push(Node { snap, model, start: i, hist: vec![] });
                }
            }
            Err((done, fail)) => {
                // a failure while building: the history is the executed part of the recipe on the empty tree
                let (start, hist) = match &fam.starts[i] {
                    Start::Built(_) => (usize::MAX, done),
                    _ => (i, vec![]),
                };
                found.push(Found { start, hist, fail });
            }
        }
    }
    stats.states = frontier.len() as u64;
    stats.per_depth.push(stats.states);

    const CHUNK: usize = 512;
    for depth in 1..=fam.depth {
        if frontier.is_empty() {
            stats.fixpoint = true;
            break;
        }
        let mut next: Vec<Node> = vec![];
        let mut capped = false;
        for chunk in frontier.chunks(CHUNK) {
            if t0.elapsed().as_secs_f64() > max_secs {
                capped = true;
                break;
            }
            // phase 1: apply every enabled operation to a fresh copy of the state
            let p1: Vec<(Vec<Succ>, Vec<Found>, u64, BTreeMap<String, u64>)> = par_map(chunk, |pi, node| {
                let mut succs = vec![];
                let mut fnd = vec![];
                let mut trans = 0u64;
                let mut rets: BTreeMap<String, u64> = BTreeMap::new();
                for op in alphabet(fam, &node.model) {
                    trans += 1;
                    let mut t = match Tree::attach(&node.snap) {
                        Ok(t) => t,
                        Err(e) => {
                            rep.machinery_error(format!("cannot re-attach a checked state: {}", e));
                            continue;
                        }
                    };
                    let got = t.apply(d, op);
                    let mut m2 = node.model.clone();
                    let want = model_apply(&mut m2, op);
                    *rets.entry(format!("{}:{}", op.kind(), match &got { Ret::Unit => "ok", Ret::Bool(true) => "true", Ret::Bool(false) => "false", Ret::Err(_) => "err", Ret::Panic(_) => "panic" })).or_default() += 1;
                    if got != want {
                        let mut h = node.hist.clone();
                        h.push(op);
                        fnd.push(Found { start: node.start, hist: h, fail: ret_fail(op, d, &got, &want) });
                        continue;
                    }
                    let snap = t.snap();
                    let key = if fam.canonical {
                        match canon_key(&t, &snap, &m2) {
                            Ok(k) => k,
                            Err(fail) => {
                                let mut h = node.hist.clone();
                                h.push(op);
                                fnd.push(Found { start: node.start, hist: h, fail });
                                continue;
                            }
                        }
                    } else {
                        state_key(&t, &snap, &m2)
                    };
                    succs.push(Succ { parent: pi, op, snap, model: m2, key });
                }
                (succs, fnd, trans, rets)
            });
            // phase 2: dedup in input order
            let mut fresh: Vec<Succ> = vec![];
            for (succs, fnd, trans, rets) in p1 {
                stats.transitions += trans;
                found.extend(fnd);
                for (k, v) in rets {
                    *counters.rets.entry(k).or_default() += v;
                }
                for s in succs {
                    if seen.insert(s.key) {
                        fresh.push(s);
                    }
                }
            }
            // phase 3: full checks of every new state (the operation is re-executed on a copy of the parent)
            let p3: Vec<(Counters, Result<(), Fail>)> = par_map(&fresh, |_, s| {
                let mut c = Counters::default();
                let node = &chunk[s.parent];
                let r = (|| -> Result<(), Fail> {
                    let mut t = Tree::attach(&node.snap).map_err(|e| ("machinery".to_string(), e))?;
                    let pre = check_structure(&t.pm, t.idx.root_page_id(), t.idx.height()).map_err(|f| ("machinery".to_string(), format!("parent state no longer passes: {:?}", f)))?;
                    let _ = t.apply(d, s.op);
                    let post = check_state(&t, fam, &s.model, &mut c)?;
                    note_events(&mut c, &pre, &post, s.op, d);
                    Ok(())
                })();
                (c, r)
            });
            for (s, (c, r)) in fresh.into_iter().zip(p3.into_iter()) {
                counters.merge(&c);
                let node = &chunk[s.parent];
                let mut hist = node.hist.clone();
                hist.push(s.op);
                match r {
                    Ok(()) => {
                        if stats.samples.len() < 2 && hist.len() >= 2 {
                            stats.samples.push(format!("[{}] {} ; {}", fam.name, start_label(fam, node.start), hist.iter().map(|o| o.show(d)).collect::<Vec<_>>().join(" ; ")));
                        }
                        next.push(Node { snap: s.snap, model: s.model, start: node.start, hist });
                    }
                    Err((c, msg)) if c == "machinery" => rep.machinery_error(msg),
                    Err(fail) => found.push(Found { start: node.start, hist, fail }), // violating states are not expanded
                }
            }
        }
        stats.states += next.len() as u64;
        stats.per_depth.push(next.len() as u64);
        if capped {
            stats.capped = true;
            break;
        }
        stats.depth_completed = depth;
        frontier = next;
        if frontier.is_empty() {
            stats.fixpoint = true;
        }
    }
    if let Some(n) = frontier.last() {
        if !n.hist.is_empty() {
            stats.samples.push(format!("[{}] {} ; {}", fam.name, start_label(fam, n.start), n.hist.iter().map(|o| o.show(d)).collect::<Vec<_>>().join(" ; ")));
        }
    }
    (stats, counters, found)
}

fn start_label(fam: &Family, i: usize) -> String {
    if i == usize::MAX {
        return "empty".into();
    }
    match &fam.starts[i] {
        Start::Empty => "empty".into(),
        Start::Built(ops) => format!("built by {} inserts ({} … {})", ops.len(), ops.first().map(|o| o.show(&fam.dom)).unwrap_or_default(), ops.last().map(|o| o.show(&fam.dom)).unwrap_or_default()),
        Start::Bulk(e) => format!("bulk_load of {} entries over {} keys", e.len(), e.iter().map(|x| x.0).collect::<HashSet<_>>().len()),
        Start::BulkThen(e, ops) => format!("bulk_load of {} entries, then {} operations ({} …)", e.len(), ops.len(), ops.first().map(|o| o.show(&fam.dom)).unwrap_or_default()),
    }
}

// ------------------------------------------------------------------------------------------------
// stateless guard: plain enumeration of all sequences on one continuous live tree (no re-attach, no dedup)

fn guard_pass(fam: &Family, starts: &[Start], depth: usize, max_secs: f64) -> (u64, u64, bool, Counters, Vec<Found>) {
    let d = &fam.dom;
    let t0 = Instant::now();
    // sequences of exactly `depth` alphabet *indices* over the maximal alphabet; disabled ops end the sequence
    let mut max_alpha = vec![];
    for k in &d.op_keys {
        for r in &fam.rids {
            max_alpha.push(Op::Ins(*k as u16, *r));
        }
        max_alpha.push(Op::Del(*k as u16));
        if fam.delspec {
            for r in &fam.rids {
                max_alpha.push(Op::DelSpec(*k as u16, *r));
            }
        }
    }
    // first-op partitions are the parallel work items
    let mut items: Vec<(usize, usize)> = vec![];
    for si in 0..starts.len() {
        for a in 0..max_alpha.len() {
            items.push((si, a));
        }
    }
    let res: Vec<(u64, u64, bool, Counters, Vec<Found>)> = par_map(&items, |_, (si, a0)| {
        let mut c = Counters::default();
        let mut found = vec![];
        let mut nodes = 0u64;
        let mut seqs = 0u64;
        let mut capped = false;
        // iterative DFS over suffixes; each node is re-created by replaying its path on a fresh live tree
        let mut stack: Vec<Vec<usize>> = vec![vec![*a0]];
        while let Some(path) = stack.pop() {
            if t0.elapsed().as_secs_f64() > max_secs {
                capped = true;
                break;
            }
            // replay
            let mut cc = Counters::default();
            let built = {
                let tmp = Family { name: fam.name, dom: d.clone(), battery: Battery { multi: vec![], ranges: vec![] }, reduced: Battery { multi: vec![], ranges: vec![] }, rids: fam.rids.clone(), cap: fam.cap, delspec: fam.delspec, canonical: false, starts: vec![], depth: 0, max_secs: 0.0 };
                build_start(&tmp, &starts[*si], &mut cc)
            };
            let Ok((mut t, mut m)) = built else { continue };
            let mut ok = true;
            let mut ops: Vec<Op> = vec![];
            for (i, ai) in path.iter().enumerate() {
                let op = max_alpha[*ai];
                if let Op::Ins(k, _) = op {
                    if m[k as usize].len() >= fam.cap {
                        ok = false;
                        break;
                    }
                }
                let got = t.apply(d, op);
                let want = model_apply(&mut m, op);
                ops.push(op);
                if got != want {
                    if i + 1 == path.len() {
                        found.push(Found { start: *si, hist: ops.clone(), fail: ret_fail(op, d, &got, &want) });
                    }
                    ok = false;
                    break;
                }
            }
            if !ok {
                continue;
            }
            nodes += 1;
            // full check of the last state only (prefixes are nodes of their own)
            match check_state(&t, fam, &m, &mut c) {
                Ok(_) => {}
                Err(fail) => {
                    found.push(Found { start: *si, hist: ops.clone(), fail });
                    continue;
                }
            }
            if path.len() < depth {
                for a in (0..max_alpha.len()).rev() {
                    let mut p = path.clone();
                    p.push(a);
                    stack.push(p);
                }
            } else {
                seqs += 1;
            }
        }
        (nodes, seqs, capped, c, found)
    });
    let mut nodes = 0;
    let mut seqs = 0;
    let mut capped = false;
    let mut c = Counters::default();
    let mut found = vec![];
    for (n, s, cp, cc, f) in res {
        nodes += n;
        seqs += s;
        capped |= cp;
        c.merge(&cc);
        found.extend(f);
    }
    (nodes, seqs, capped, c, found)
}

// ------------------------------------------------------------------------------------------------
// confirmation and replay

/// Execute start + ops; `reattach` re-opens the tree from its page image before every operation (as
/// the explorer does), otherwise one live tree is used throughout. Returns the first failure with the
/// number of operations executed before it, and a log.
fn run_history(fam: &Family, st: &Start, ops: &[Op], reattach: bool, log: &mut Vec<String>) -> Option<(usize, Fail)> {
    let d = &fam.dom;
    let mut c = Counters::default();
    let (mut t, mut m) = match st {
        Start::Built(recipe) => {
            // the recipe is part of the history: run it step by step so that the failing step is named
            let mut all = recipe.clone();
            all.extend_from_slice(ops);
            return run_history(fam, &Start::Empty, &all, reattach, log);
        }
        _ => match build_start(fam, st, &mut c) {
            Ok(x) => x,
            Err((_, f)) => {
                log.push(format!("start state: FAIL {} — {}", f.0, f.1));
                return Some((0, f));
            }
        },
    };
    log.push(format!("start state ({}): height {} root page {} — all checks pass", st.kind(), t.idx.height(), t.idx.root_page_id()));
    for (i, op) in ops.iter().enumerate() {
        if reattach {
            t = match Tree::attach(&t.snap()) {
                Ok(t) => t,
                Err(e) => return Some((i, ("load".into(), e))),
            };
        }
        let got = t.apply(d, *op);
        let want = model_apply(&mut m, *op);
        if got != want {
            let f = ret_fail(*op, d, &got, &want);
            log.push(format!("step {}: {} => {} — FAIL {}", i + 1, op.show(d), ret_str(&got), f.1));
            return Some((i + 1, f));
        }
        match check_state(&t, fam, &m, &mut c) {
            Ok(sh) => log.push(format!("step {}: {} => {} ; height {} leaves {:?} — all checks pass", i + 1, op.show(d), ret_str(&got), sh.height, sh.leaves.iter().map(|l| l.1).collect::<Vec<_>>())),
            Err(f) => {
                log.push(format!("step {}: {} => {} — FAIL {}: {}", i + 1, op.show(d), ret_str(&got), f.0, f.1));
                return Some((i + 1, f));
            }
        }
    }
    None
}

fn signature(fam: &Family, st_kind: &str, hist: &[Op], clause: &str) -> Vec<(&'static str, String)> {
    vec![
        ("schema", fam.dom.name.to_string()),
        ("start", st_kind.to_string()),
        ("last_op", hist.last().map(|o| o.kind()).unwrap_or("none").to_string()),
        ("clause", clause.to_string()),
    ]
}

fn case_json(fam: &Family, thorough: bool, st: &Start, hist: &[Op], reattach: bool) -> Value {
    json!({
        "tier": if thorough { "thorough" } else { "quick" },
        "family": fam.name,
        "schema": fam.dom.name,
        "keys": fam.dom.keys.iter().map(fmt_key).collect::<Vec<_>>(),
        "start": st.to_json(),
        "ops": hist.iter().map(|o| o.to_json()).collect::<Vec<_>>(),
        "ops_text": hist.iter().map(|o| o.show(&fam.dom)).collect::<Vec<_>>(),
        "reattach_before_every_op": reattach,
    })
}

fn report_found(rep: &Report, fam: &Family, thorough: bool, mut found: Vec<Found>, reattach: bool) {
    // shortest first, then by text: the witness kept per signature is the smallest
    found.sort_by(|a, b| (a.hist.len(), &a.hist, a.start).cmp(&(b.hist.len(), &b.hist, b.start)));
    let mut done: HashSet<String> = HashSet::new();
    for f in found {
        let st = if f.start == usize::MAX { Start::Empty } else { fam.starts.get(f.start).cloned().unwrap_or(Start::Empty) };
        let pre = format!("pre{:?}", signature(fam, st.kind(), &f.hist, &f.fail.0));
        if !done.insert(pre) {
            // further cases of a signature are only counted
            rep.total_failing_cases.fetch_add(1, std::sync::atomic::Ordering::Relaxed);
            continue;
        }
        // re-execute from scratch twice; the re-execution decides which clause is reported (the explorer
        // may have met another check first) and where the history ends
        let mut l1 = vec![];
        let mut l2 = vec![];
        let r1 = run_history(fam, &st, &f.hist, reattach, &mut l1);
        let r2 = run_history(fam, &st, &f.hist, reattach, &mut l2);
        let (n, fail) = match (&r1, &r2) {
            (Some((n1, f1)), Some((n2, f2))) if n1 == n2 && f1.0 == f2.0 => (*n1, f1.clone()),
            _ => {
                rep.machinery_error(format!("a failing case did not reproduce identically: found {:?}, re-executions {:?} / {:?}; case {}", f.fail, r1, r2, case_json(fam, thorough, &st, &f.hist, reattach)));
                continue;
            }
        };
        // n = operations executed including the failing one (recipe operations of a built start count)
        let (st, hist): (Start, Vec<Op>) = match &st {
            Start::Built(recipe) if n <= recipe.len() => (Start::Empty, recipe[..n].to_vec()),
            Start::Built(recipe) => (st.clone(), f.hist[..(n - recipe.len()).min(f.hist.len())].to_vec()),
            _ => (st.clone(), f.hist[..n.min(f.hist.len())].to_vec()),
        };
        let sig = signature(fam, st.kind(), &hist, &fail.0);
        let sk = format!("{:?}", sig);
        if !done.insert(sk) {
            rep.total_failing_cases.fetch_add(1, std::sync::atomic::Ordering::Relaxed);
            continue;
        }
        rep.violation(
            &sig,
            format!("[{}] {} ; {} — {}", fam.name, match &st { Start::Empty => "empty".to_string(), _ => start_label(fam, f.start) }, hist.iter().map(|o| o.show(&fam.dom)).collect::<Vec<_>>().join(" ; "), fail.1),
            case_json(fam, thorough, &st, &hist, reattach),
        );
    }
}

fn guard_family() -> Result<Family, String> {
    let gdom = dom_str("varchar1000", 6, false, 1000)?;
    let gb = Battery::full(&gdom);
    let gstarts: Vec<Start> = vec![Start::Empty, Start::Built(asc(&gdom, 5)), Start::Built(zigzag(&gdom, 6)), bulk_prefix(&gdom, 6, true)];
    Ok(Family { name: "stateless_guard", reduced: gb.reduced(&gdom), battery: gb, rids: vec![0, 1], cap: 2, delspec: true, canonical: false, starts: gstarts, depth: 0, max_secs: 0.0, dom: gdom })
}

/// CPU seconds (user+system) consumed by this process so far
pub fn cpu_secs() -> f64 {
    let s = std::fs::read_to_string("/proc/self/stat").unwrap_or_default();
    let rest = s.rsplit(')').next().unwrap_or("");
    let f: Vec<&str> = rest.split_whitespace().collect();
    let ticks: f64 = f.get(11).and_then(|x| x.parse::<f64>().ok()).unwrap_or(0.0) + f.get(12).and_then(|x| x.parse::<f64>().ok()).unwrap_or(0.0);
    ticks / 100.0
}

pub fn run(tier: &str) -> i32 {
    let mut rep = Report::new("C17", tier, "model_checking");
    let thorough = tier == "thorough";
    let fams = match families(thorough) {
        Ok(f) => f,
        Err(e) => {
            rep.machinery_error(e);
            return rep.finish();
        }
    };
    let mut total_states = 0u64;
    let mut total_trans = 0u64;
    let mut exhaustive = true;
    let mut fam_json = vec![];
    let mut all = Counters::default();
    let mut samples: Vec<String> = vec![];
    let only = std::env::var("VERIF_C17_ONLY").ok();
    for fam in &fams {
        if let Some(o) = &only {
            if o != fam.name {
                continue;
            }
        }
        let t0 = Instant::now();
        let cpu0 = cpu_secs();
        let (st, c, found) = explore(fam, &rep);
        println!(
            "C17 family {:<22} starts={} states={} transitions={} depth={}{}{} checked={} wall={:.1}s cpu={:.1}s failing={}",
            fam.name,
            st.starts,
            st.states,
            st.transitions,
            st.depth_completed,
            if st.fixpoint { " (fixpoint: the reachable state space is complete)" } else { "" },
            if st.capped { " CAPPED" } else { "" },
            c.states_checked,
            t0.elapsed().as_secs_f64(),
            cpu_secs() - cpu0,
            found.len()
        );
        total_states += st.states;
        total_trans += st.transitions;
        exhaustive &= !st.capped;
        all.merge(&c);
        samples.extend(st.samples.iter().cloned());
        fam_json.push(json!({
            "family": fam.name, "states_merged_modulo_page_renaming": fam.canonical, "schema": fam.dom.name, "keys": fam.dom.op_keys.len(), "probe_only_keys": fam.dom.keys.len() - fam.dom.op_keys.len(),
            "row_ids": fam.rids, "max_row_ids_per_key": fam.cap, "start_states": st.starts, "depth_bound": fam.depth,
            "depth_completed": st.depth_completed, "fixpoint_reached": st.fixpoint, "capped": st.capped,
            "states": st.states, "transitions": st.transitions, "states_per_depth": st.per_depth,
            "queries_per_state": fam.battery.n_queries(&fam.dom) + fam.reduced.n_queries(&fam.dom), "wall_s": t0.elapsed().as_secs_f64(),
        }));
        report_found(&rep, fam, thorough, found, true);
    }
    // stateless guard on continuous live trees: 6 keys, 2 row ids
    let gfam_owned = match guard_family() {
        Ok(f) => f,
        Err(e) => {
            rep.machinery_error(e);
            return rep.finish();
        }
    };
    let gstarts = gfam_owned.starts.clone();
    let gfam = &gfam_owned;
    let gd = if thorough { 3 } else { 2 };
    let t0 = Instant::now();
    let (gn, gs, gcap, gc, gfound) = if only.is_some() { (0, 0, false, Counters::default(), vec![]) } else { guard_pass(gfam, &gstarts, gd, if thorough { 150.0 } else { 60.0 }) };
    println!("C17 stateless guard (one live tree per sequence, no dedup): starts={} depth={} nodes={} sequences={} wall={:.1}s failing={}{}", gstarts.len(), gd, gn, gs, t0.elapsed().as_secs_f64(), gfound.len(), if gcap { " CAPPED" } else { "" });
    report_found(&rep, gfam, thorough, gfound, false);
    all.merge(&gc);
    exhaustive &= !gcap;

    println!("C17 structural events seen: {:?}", all.events);
    println!("C17 operation outcomes: {:?}", all.rets);
    println!("C17 max height {} max leaves {} max internal nodes {} degrees {:?}; live root/height differed from persisted metadata in {} states", all.max_height, all.max_leaves, all.max_internals, all.degrees, all.live_meta_differs);

    rep.set("states", json!(total_states));
    rep.set("transitions", json!(total_trans));
    rep.set("traces_validated_against_impl", json!(total_trans));
    rep.set("states_fully_checked", json!(all.states_checked));
    rep.set("queries_compared_with_the_model", json!(all.queries));
    rep.set("families", json!(fam_json));
    rep.set("stateless_guard", json!({"starts": gstarts.len(), "depth": gd, "nodes": gn, "complete_sequences": gs, "capped": gcap}));
    rep.set("exhaustive", json!(exhaustive));
    rep.set("structural_events", json!(all.events));
    let expected = ["leaf_split", "root_split", "internal_split", "leaf_borrow", "leaf_merge", "internal_borrow", "internal_merge", "root_collapse"];
    let vac: Vec<&str> = expected.iter().copied().filter(|e| all.events.get(e).copied().unwrap_or(0) == 0).collect();
    rep.set("vacuous_mechanisms", json!(vac));
    rep.set("operation_outcomes", json!(all.rets));
    rep.set("distinct_outcomes", json!(all.rets.len()));
    rep.set("max_height", json!(all.max_height));
    rep.set("max_leaves", json!(all.max_leaves));
    rep.set("max_internal_nodes", json!(all.max_internals));
    rep.set("degrees_of_start_trees", json!(all.degrees.iter().map(|(k, v)| (k.to_string(), *v)).collect::<BTreeMap<_, _>>()));
    rep.set("live_metadata_differs_from_persisted", json!(all.live_meta_differs));
    samples.truncate(8);
    if samples.is_empty() {
        samples.push("(no state beyond the start states)".into());
    }
    rep.set("samples", json!(samples));
    rep.set(
        "rule",
        json!("level-synchronous BFS over all sequences of insert/delete/delete_specific of the family's alphabet from every start state; states merged on (page image, allocator state, live root/height, model); in every new state: operation return value, every lookup / multi_lookup / range_scan of the battery on the live tree and on BTreeIndex::load of the same pages against a reference multimap, decoded persisted pages checked for sorted keys, separator bounds, uniform leaf depth, complete leaf chain, no shared / free-and-reachable page, persisted content == model; a violating state is reported and not expanded"),
    );
    rep.assume("the explorer re-attaches a state with BTreeIndex::load over a copy of its page image and allocator state (hook H2); a stateless pass on one continuous live tree per sequence guards against artefacts of that");
    rep.assume("row ids of one key are compared as a multiset; range_scan must deliver key groups in key order");
    rep.finish()
}

pub fn replay(case: &Value) -> i32 {
    let thorough = case["tier"].as_str() == Some("thorough");
    let fams = match families(thorough) {
        Ok(f) => f,
        Err(e) => {
            eprintln!("MACHINERY-ERROR {}", e);
            return 2;
        }
    };
    let name = case["family"].as_str().unwrap_or("");
    let gf = guard_family().ok();
    let fam = match fams.iter().find(|f| f.name == name).or_else(|| if name == "stateless_guard" { gf.as_ref() } else { None }) {
        Some(f) => f,
        None => {
            eprintln!("MACHINERY-ERROR unknown family {}", name);
            return 2;
        }
    };
    let Some(st) = Start::from_json(&case["start"]) else {
        eprintln!("MACHINERY-ERROR bad start");
        return 2;
    };
    let ops: Vec<Op> = case["ops"].as_array().map(|a| a.iter().filter_map(Op::from_json).collect()).unwrap_or_default();
    let mut rc = 0;
    for reattach in [case["reattach_before_every_op"].as_bool().unwrap_or(true), false] {
        println!("-- {} ", if reattach { "tree re-opened with BTreeIndex::load before every operation (explorer mode)" } else { "one live tree for the whole sequence" });
        let mut log = vec![];
        let r = run_history(fam, &st, &ops, reattach, &mut log);
        for l in &log {
            println!("{}", l);
        }
        match r {
            Some((_, f)) => {
                println!("VIOLATED clause {}: {}", f.0, f.1);
                rc = 1;
            }
            None => println!("no violation"),
        }
    }
    rc
}
