//! E3 plumbing: a `BTreeIndex` over a `PageManager` over the in-memory backend, explorer states
//! (page image + allocator state), the reference multimap, the query battery and the decoder-based
//! well-formedness check of the persisted pages (hook H2).

use std::cmp::Ordering;
use std::collections::{BTreeMap, HashMap, HashSet};
use std::panic::{catch_unwind, AssertUnwindSafe};
use std::sync::Arc;

use vibesql_storage::btree::verif as bv;
use vibesql_storage::btree::{BTreeIndex, Key, RowId};
use vibesql_storage::page::{PageId, PageManager};
use vibesql_types::{DataType, SqlValue};

use crate::mem::{Bytes, MemStore};

pub const FILE: &str = "t.idx";

// ------------------------------------------------------------------------------------------------
// domain, model, operations

#[derive(Clone)]
pub struct Domain {
    pub name: &'static str,
    pub schema: Vec<DataType>,
    /// all keys used by queries, strictly increasing under `Key::cmp`
    pub keys: Vec<Key>,
    /// indexes into `keys` that mutating operations may use (the rest are probe-only keys)
    pub op_keys: Vec<usize>,
}

impl Domain {
    /// Sorts the keys by the implementation's `Ord` and verifies that this is a strict total order
    /// on the domain (the reference model orders keys by their position in this list).
    pub fn new(name: &'static str, schema: Vec<DataType>, mut keys: Vec<Key>, probe_only: &[Key]) -> Result<Domain, String> {
        keys.extend(probe_only.iter().cloned());
        keys.sort_by(|a, b| a.cmp(b)); // Ord::cmp explicitly: slice::sort goes through PartialOrd::lt, which is SQL three-valued for NULL
        for i in 0..keys.len() {
            for j in 0..keys.len() {
                let c = keys[i].cmp(&keys[j]);
                let want = i.cmp(&j);
                if c != want {
                    return Err(format!("domain {}: Key::cmp({:?},{:?}) = {:?}, position order says {:?}", name, keys[i], keys[j], c, want));
                }
            }
        }
        let op_keys = (0..keys.len()).filter(|i| !probe_only.contains(&keys[*i])).collect();
        Ok(Domain { name, schema, keys, op_keys })
    }
    pub fn idx_of(&self, k: &Key) -> Option<usize> {
        self.keys.binary_search(k).ok()
    }
    pub fn key_str(&self, i: usize) -> String {
        fmt_key(&self.keys[i])
    }
}

pub fn fmt_key(k: &Key) -> String {
    let parts: Vec<String> = k
        .iter()
        .map(|v| match v {
            SqlValue::Null => "NULL".to_string(),
            SqlValue::Varchar(s) | SqlValue::Character(s) => format!("'{}'", s),
            SqlValue::Integer(i) | SqlValue::Bigint(i) => i.to_string(),
            SqlValue::Double(d) => format!("{:?}", d),
            o => format!("{:?}", o),
        })
        .collect();
    format!("({})", parts.join(","))
}

/// reference multimap: per domain key the row ids in insertion order
pub type Model = Vec<Vec<RowId>>;

#[derive(Clone, Copy, PartialEq, Eq, Hash, Debug, PartialOrd, Ord)]
pub enum Op {
    Ins(u16, u16),
    Del(u16),
    DelSpec(u16, u16),
}

impl Op {
    pub fn kind(&self) -> &'static str {
        match self {
            Op::Ins(..) => "insert",
            Op::Del(..) => "delete",
            Op::DelSpec(..) => "delete_specific",
        }
    }
    pub fn show(&self, d: &Domain) -> String {
        match self {
            Op::Ins(k, r) => format!("insert({},{})", d.key_str(*k as usize), r),
            Op::Del(k) => format!("delete({})", d.key_str(*k as usize)),
            Op::DelSpec(k, r) => format!("delete_specific({},{})", d.key_str(*k as usize), r),
        }
    }
    pub fn to_json(&self) -> serde_json::Value {
        match self {
            Op::Ins(k, r) => serde_json::json!(["ins", k, r]),
            Op::Del(k) => serde_json::json!(["del", k]),
            Op::DelSpec(k, r) => serde_json::json!(["delspec", k, r]),
        }
    }
    pub fn from_json(v: &serde_json::Value) -> Option<Op> {
        let a = v.as_array()?;
        let k = a.get(1)?.as_u64()? as u16;
        match a.first()?.as_str()? {
            "ins" => Some(Op::Ins(k, a.get(2)?.as_u64()? as u16)),
            "del" => Some(Op::Del(k)),
            "delspec" => Some(Op::DelSpec(k, a.get(2)?.as_u64()? as u16)),
            _ => None,
        }
    }
}

/// what an operation returns
#[derive(Clone, PartialEq, Eq, Debug)]
pub enum Ret {
    Unit,
    Bool(bool),
    Err(String),
    Panic(String),
}

pub fn model_apply(m: &mut Model, op: Op) -> Ret {
    match op {
        Op::Ins(k, r) => {
            m[k as usize].push(r as usize);
            Ret::Unit
        }
        Op::Del(k) => {
            let had = !m[k as usize].is_empty();
            m[k as usize].clear();
            Ret::Bool(had)
        }
        Op::DelSpec(k, r) => {
            let l = &mut m[k as usize];
            match l.iter().position(|x| *x == r as usize) {
                Some(p) => {
                    l.remove(p);
                    Ret::Bool(true)
                }
                None => Ret::Bool(false),
            }
        }
    }
}

// ------------------------------------------------------------------------------------------------
// tree handle and snapshots

/// page image with zero runs squeezed out + allocator state
#[derive(Clone, PartialEq, Eq, Hash)]
pub struct Snap {
    pub packed: Vec<u8>,
    pub len: usize,
    pub next: PageId,
    pub free: Vec<PageId>,
}

fn pack(img: &[u8]) -> Vec<u8> {
    // [lit_len u32][lit bytes][zero_run u32] ...
    let mut out = Vec::with_capacity(img.len() / 16 + 16);
    let mut i = 0;
    while i < img.len() {
        let s = i;
        // literal until a run of >= 16 zeros
        let mut zeros = 0usize;
        while i < img.len() {
            if img[i] == 0 {
                zeros += 1;
                if zeros >= 16 {
                    break;
                }
            } else {
                zeros = 0;
            }
            i += 1;
        }
        let lit_end = if zeros >= 16 { i + 1 - zeros } else { i };
        let mut z = lit_end;
        while z < img.len() && img[z] == 0 {
            z += 1;
        }
        // if the literal ended by reaching the end, zero run is what is left (maybe 0)
        out.extend_from_slice(&((lit_end - s) as u32).to_le_bytes());
        out.extend_from_slice(&img[s..lit_end]);
        out.extend_from_slice(&((z - lit_end) as u32).to_le_bytes());
        i = z;
    }
    out
}

fn unpack(p: &[u8], len: usize) -> Vec<u8> {
    let mut out = Vec::with_capacity(len);
    let mut i = 0;
    while i < p.len() {
        let l = u32::from_le_bytes(p[i..i + 4].try_into().unwrap()) as usize;
        i += 4;
        out.extend_from_slice(&p[i..i + l]);
        i += l;
        let z = u32::from_le_bytes(p[i..i + 4].try_into().unwrap()) as usize;
        i += 4;
        out.resize(out.len() + z, 0);
    }
    debug_assert_eq!(out.len(), len);
    out
}

pub struct Tree {
    pub idx: BTreeIndex,
    pub pm: Arc<PageManager>,
    pub bytes: Bytes,
}

fn pm_over(content: Vec<u8>) -> Result<(Arc<PageManager>, Bytes), String> {
    let (store, bytes) = MemStore::with_file(FILE, content);
    let pm = PageManager::new(FILE, store).map_err(|e| format!("PageManager::new: {}", e))?;
    Ok((Arc::new(pm), bytes))
}

pub fn guarded<T>(f: impl FnOnce() -> T) -> Result<T, String> {
    catch_unwind(AssertUnwindSafe(f)).map_err(vcore::exec::panic_msg)
}

impl Tree {
    pub fn new_empty(schema: &[DataType]) -> Result<Tree, String> {
        let (pm, bytes) = pm_over(vec![])?;
        let idx = guarded(|| BTreeIndex::new(pm.clone(), schema.to_vec())).map_err(|p| format!("panic in BTreeIndex::new: {}", p))?.map_err(|e| format!("BTreeIndex::new: {}", e))?;
        Ok(Tree { idx, pm, bytes })
    }
    /// `BTreeIndex::bulk_load`; Err(("err"|"panic", msg)) is the implementation's failure
    pub fn bulk(schema: &[DataType], entries: Vec<(Key, RowId)>) -> Result<Tree, (String, String)> {
        let (pm, bytes) = pm_over(vec![]).map_err(|e| ("machinery".to_string(), e))?;
        match guarded(|| BTreeIndex::bulk_load(entries, schema.to_vec(), pm.clone())) {
            Ok(Ok(idx)) => Ok(Tree { idx, pm, bytes }),
            Ok(Err(e)) => Err(("err".into(), format!("{}", e))),
            Err(p) => Err(("panic".into(), p)),
        }
    }
    pub fn snap(&self) -> Snap {
        let img = self.bytes.lock().unwrap();
        let (next, free) = self.pm.verif_state();
        Snap { packed: pack(&img), len: img.len(), next, free }
    }
    /// A fresh `PageManager` over a copy of the page image with the allocator state restored, and the
    /// tree re-attached with `BTreeIndex::load` (root / height / degree come from the persisted page 0).
    pub fn attach(s: &Snap) -> Result<Tree, String> {
        // the manager is created over an empty file (PageManager::new would read page 0 — the tree's
        // metadata — as allocator metadata); the image is put under it afterwards
        let (pm, bytes) = pm_over(vec![])?;
        *bytes.lock().unwrap() = unpack(&s.packed, s.len);
        pm.verif_restore(s.next, s.free.clone());
        let idx = guarded(|| BTreeIndex::load(pm.clone())).map_err(|p| format!("panic in BTreeIndex::load: {}", p))?.map_err(|e| format!("BTreeIndex::load: {}", e))?;
        Ok(Tree { idx, pm, bytes })
    }
    pub fn apply(&mut self, d: &Domain, op: Op) -> Ret {
        let idx = &mut self.idx;
        let r = guarded(|| match op {
            Op::Ins(k, r) => idx.insert(d.keys[k as usize].clone(), r as usize).map(|_| Ret::Unit),
            Op::Del(k) => idx.delete(&d.keys[k as usize]).map(Ret::Bool),
            Op::DelSpec(k, r) => idx.delete_specific(&d.keys[k as usize], r as usize).map(Ret::Bool),
        });
        match r {
            Ok(Ok(x)) => x,
            Ok(Err(e)) => Ret::Err(format!("{}", e)),
            Err(p) => Ret::Panic(p),
        }
    }
}

// ------------------------------------------------------------------------------------------------
// query battery against the model

#[derive(Clone)]
pub struct Battery {
    /// key subsets for multi_lookup (distinct keys each)
    pub multi: Vec<Vec<usize>>,
    /// range bound pairs: indexes into domain keys; None = unbounded. Each pair is scanned with all
    /// four inclusivity combinations.
    pub ranges: Vec<(Option<usize>, Option<usize>)>,
}

impl Battery {
    /// every pair lo <= hi of domain keys and unbounded sides; of the inverted pairs (hi < lo, always
    /// empty) only the adjacent one and (lo, smallest key)
    fn pairs(bounds: &[usize]) -> Vec<(Option<usize>, Option<usize>)> {
        let mut r = vec![(None, None)];
        for (a, lo) in bounds.iter().enumerate() {
            r.push((Some(*lo), None));
            r.push((None, Some(*lo)));
            for hi in &bounds[a..] {
                r.push((Some(*lo), Some(*hi)));
            }
            if a > 0 {
                r.push((Some(*lo), Some(bounds[a - 1])));
                if a > 1 {
                    r.push((Some(*lo), Some(bounds[0])));
                }
            }
        }
        r
    }
    pub fn full(d: &Domain) -> Battery {
        let n = d.keys.len();
        let mut multi = vec![vec![], (0..n).collect::<Vec<_>>(), (0..n).rev().collect::<Vec<_>>()];
        for i in 0..n {
            for j in 0..n {
                if i != j && (i < j || (i + j) % 3 == 0) {
                    multi.push(vec![i, j]);
                }
            }
        }
        let all: Vec<usize> = (0..n).collect();
        Battery { multi, ranges: Self::pairs(&all) }
    }
    /// bounds restricted to a sub-list of keys (for large domains)
    pub fn sparse(_d: &Domain, keys: &[usize]) -> Battery {
        let mut multi = vec![vec![], keys.to_vec()];
        for w in keys.windows(2) {
            multi.push(vec![w[1], w[0]]);
        }
        Battery { multi, ranges: Self::pairs(keys) }
    }
    /// the battery for a re-loaded tree whose root, height and degree equal the live tree's (its pages
    /// are the same bytes): every lookup, one multi_lookup, scans from every lower bound and the full scan
    pub fn reduced(&self, d: &Domain) -> Battery {
        let n = d.keys.len();
        let mut ranges = vec![(None, None)];
        for i in 0..n {
            ranges.push((Some(i), None));
        }
        Battery { multi: vec![(0..n).collect()], ranges }
    }
    pub fn n_queries(&self, d: &Domain) -> u64 {
        (d.keys.len() + self.multi.len() + self.ranges.len() * 4) as u64
    }
}

fn sorted(mut v: Vec<RowId>) -> Vec<RowId> {
    v.sort_unstable();
    v
}

/// A failed clause: (clause id, human-readable detail)
pub type Fail = (String, String);

fn q<T>(what: &str, f: impl FnOnce() -> Result<T, vibesql_storage::StorageError>) -> Result<T, Fail> {
    match guarded(f) {
        Ok(Ok(x)) => Ok(x),
        Ok(Err(e)) => Err((format!("{}:err", what), format!("{} returned an error: {}", what, e))),
        Err(p) => Err((format!("{}:panic", what), format!("{} panicked: {}", what, p))),
    }
}

/// Every query of the battery on `t` against the model. Row ids of one key are compared as a
/// multiset; a range scan must deliver the key groups in key order.
pub fn check_queries(t: &BTreeIndex, d: &Domain, m: &Model, b: &Battery, who: &str) -> Result<(), Fail> {
    let ms: Vec<Vec<RowId>> = m.iter().map(|l| sorted(l.clone())).collect();
    for (i, k) in d.keys.iter().enumerate() {
        let got = q("lookup", || t.lookup(k))?;
        if sorted(got.clone()) != ms[i] {
            return Err((format!("{}lookup", who), format!("{}lookup({}) = {:?}, the ordered map has {:?}", who, fmt_key(k), got, m[i])));
        }
    }
    for ks in &b.multi {
        let keys: Vec<Key> = ks.iter().map(|i| d.keys[*i].clone()).collect();
        let got = q("multi_lookup", || t.multi_lookup(&keys))?;
        let mut want: Vec<RowId> = vec![];
        for i in ks {
            want.extend(m[*i].iter().copied());
        }
        if sorted(got.clone()) != sorted(want.clone()) {
            let names: Vec<String> = ks.iter().map(|i| d.key_str(*i)).collect();
            return Err((format!("{}multi_lookup", who), format!("{}multi_lookup([{}]) = {:?}, the ordered map has {:?}", who, names.join(","), got, want)));
        }
    }
    for (lo, hi) in &b.ranges {
        {
            for (il, ih) in [(true, true), (true, false), (false, true), (false, false)] {
                let got = q("range_scan", || t.range_scan(lo.map(|i| &d.keys[i]), hi.map(|i| &d.keys[i]), il, ih))?;
                // expected groups
                let mut groups: Vec<&Vec<RowId>> = vec![];
                for (i, l) in ms.iter().enumerate() {
                    if l.is_empty() {
                        continue;
                    }
                    let above = match lo {
                        None => true,
                        Some(x) => i > *x || (il && i == *x),
                    };
                    let below = match hi {
                        None => true,
                        Some(x) => i < *x || (ih && i == *x),
                    };
                    if above && below {
                        groups.push(l);
                    }
                }
                let total: usize = groups.iter().map(|g| g.len()).sum();
                let mut ok = got.len() == total;
                if ok {
                    let mut p = 0;
                    for g in &groups {
                        if sorted(got[p..p + g.len()].to_vec()) != **g {
                            ok = false;
                            break;
                        }
                        p += g.len();
                    }
                }
                if !ok {
                    let show = |x: &Option<usize>| x.map(|i| d.key_str(i)).unwrap_or_else(|| "None".into());
                    return Err((
                        format!("{}range_scan", who),
                        format!("{}range_scan({}, {}, incl_start={}, incl_end={}) = {:?}, the ordered map has the groups {:?}", who, show(lo), show(hi), il, ih, got, groups),
                    ));
                }
            }
        }
    }
    // range scans that bound only the first key column (what the executor uses for a predicate on
    // the leading column of a composite index): every pair of first-column values of the domain,
    // both unbounded sides, four inclusivity combinations
    let mut firsts: Vec<vibesql_types::SqlValue> = d.keys.iter().filter_map(|k| k.first().cloned()).collect();
    firsts.sort_by(|a, b| a.cmp(b));
    firsts.dedup_by(|a, b| (*a).cmp(b) == std::cmp::Ordering::Equal);
    let mut bounds: Vec<Option<&vibesql_types::SqlValue>> = vec![None];
    bounds.extend(firsts.iter().map(Some));
    for lo in &bounds {
        for hi in &bounds {
            if let (Some(a), Some(b)) = (lo, hi) {
                if (*a).cmp(*b) == std::cmp::Ordering::Greater {
                    continue;
                }
            }
            for (il, ih) in [(true, true), (true, false), (false, true), (false, false)] {
                let got = q("range_scan_first_column", || t.range_scan_first_column(*lo, *hi, il, ih))?;
                let mut groups: Vec<&Vec<RowId>> = vec![];
                for (i, l) in ms.iter().enumerate() {
                    if l.is_empty() {
                        continue;
                    }
                    let Some(first) = d.keys[i].first() else { continue };
                    let above = match lo {
                        None => true,
                        Some(x) => match first.cmp(x) {
                            std::cmp::Ordering::Greater => true,
                            std::cmp::Ordering::Equal => il,
                            std::cmp::Ordering::Less => false,
                        },
                    };
                    let below = match hi {
                        None => true,
                        Some(x) => match first.cmp(x) {
                            std::cmp::Ordering::Less => true,
                            std::cmp::Ordering::Equal => ih,
                            std::cmp::Ordering::Greater => false,
                        },
                    };
                    if above && below {
                        groups.push(l);
                    }
                }
                let total: usize = groups.iter().map(|g| g.len()).sum();
                let mut ok = got.len() == total;
                if ok {
                    let mut p = 0;
                    for g in &groups {
                        if sorted(got[p..p + g.len()].to_vec()) != **g {
                            ok = false;
                            break;
                        }
                        p += g.len();
                    }
                }
                if !ok {
                    return Err((
                        format!("{}range_scan_first_column", who),
                        format!("{}range_scan_first_column({:?}, {:?}, incl_start={}, incl_end={}) = {:?}, the ordered map has the groups {:?}", who, lo, hi, il, ih, got, groups),
                    ));
                }
            }
        }
    }
    Ok(())
}

// ------------------------------------------------------------------------------------------------
// persisted structure

#[derive(Clone, Debug, Default)]
pub struct Shape {
    pub height: usize,
    /// leaves in key order: (page, number of entries, next_leaf)
    pub leaves: Vec<(PageId, usize, PageId)>,
    /// internal nodes: page -> (level from root = 0, children)
    pub internals: BTreeMap<PageId, (usize, Vec<PageId>)>,
    /// separator keys of the internal nodes
    pub internal_keys: BTreeMap<PageId, Vec<Key>>,
    pub root: PageId,
    pub parent: HashMap<PageId, PageId>,
    /// persisted content in key order
    pub entries: Vec<(Key, Vec<RowId>)>,
    pub leaked_pages: usize,
}

struct Walk<'a> {
    pm: &'a Arc<PageManager>,
    height: usize,
    next: PageId,
    seen: HashSet<PageId>,
    shape: Shape,
}

impl<'a> Walk<'a> {
    fn node(&mut self, page: PageId, level: usize, lo: Option<&Key>, hi: Option<&Key>, parent: Option<PageId>) -> Result<(), Fail> {
        if page == 0 || page >= self.next {
            return Err(("structure:dangling-pointer".into(), format!("node pointer {} is outside the allocated pages 1..{}", page, self.next)));
        }
        if !self.seen.insert(page) {
            return Err(("structure:shared-page".into(), format!("page {} is reachable twice", page)));
        }
        if let Some(p) = parent {
            self.shape.parent.insert(page, p);
        }
        let tag = self.pm.read_page(page).map_err(|e| ("structure:read".to_string(), format!("read_page({}): {}", page, e)))?.data[0];
        // `Ord::cmp` throughout: the tree orders keys with it (PartialOrd of SqlValue is SQL three-valued and
        // undefined for NULL)
        let in_bounds = |k: &Key| lo.map(|l| k.cmp(l) != Ordering::Less).unwrap_or(true) && hi.map(|h| k.cmp(h) == Ordering::Less).unwrap_or(true);
        if level + 1 == self.height {
            if tag != bv::PAGE_TYPE_LEAF {
                return Err(("structure:leaf-depth".into(), format!("page {} at leaf depth {} has page type {}", page, level, tag)));
            }
            let leaf = match guarded(|| bv::read_leaf_node(self.pm, page)) {
                Ok(Ok(l)) => l,
                Ok(Err(e)) => return Err(("structure:decode".into(), format!("leaf page {} does not decode: {}", page, e))),
                Err(p) => return Err(("structure:decode".into(), format!("decoding leaf page {} panicked: {}", page, p))),
            };
            for w in leaf.entries.windows(2) {
                if w[0].0.cmp(&w[1].0) != Ordering::Less {
                    return Err(("structure:leaf-keys-unsorted".into(), format!("leaf {}: key {} is followed by {}", page, fmt_key(&w[0].0), fmt_key(&w[1].0))));
                }
            }
            for (k, _) in &leaf.entries {
                if !in_bounds(k) {
                    return Err((
                        "structure:separator-bound".into(),
                        format!("leaf {}: key {} is outside its separator interval [{}, {})", page, fmt_key(k), lo.map(fmt_key).unwrap_or("-inf".into()), hi.map(fmt_key).unwrap_or("+inf".into())),
                    ));
                }
            }
            self.shape.leaves.push((page, leaf.entries.len(), leaf.next_leaf));
            self.shape.entries.extend(leaf.entries);
            return Ok(());
        }
        if tag != bv::PAGE_TYPE_INTERNAL {
            return Err(("structure:leaf-depth".into(), format!("page {} at depth {} of a tree of height {} has page type {} (not an internal node)", page, level, self.height, tag)));
        }
        let n = match guarded(|| bv::read_internal_node(self.pm, page)) {
            Ok(Ok(n)) => n,
            Ok(Err(e)) => return Err(("structure:decode".into(), format!("internal page {} does not decode: {}", page, e))),
            Err(p) => return Err(("structure:decode".into(), format!("decoding internal page {} panicked: {}", page, p))),
        };
        if n.children.len() != n.keys.len() + 1 {
            return Err(("structure:arity".into(), format!("internal {}: {} keys, {} children", page, n.keys.len(), n.children.len())));
        }
        for w in n.keys.windows(2) {
            if w[0].cmp(&w[1]) != Ordering::Less {
                return Err(("structure:internal-keys-unsorted".into(), format!("internal {}: separator {} is followed by {}", page, fmt_key(&w[0]), fmt_key(&w[1]))));
            }
        }
        for k in &n.keys {
            if !in_bounds(k) {
                return Err(("structure:separator-bound".into(), format!("internal {}: separator {} is outside the interval of its own subtree", page, fmt_key(k))));
            }
        }
        self.shape.internals.insert(page, (level, n.children.clone()));
        self.shape.internal_keys.insert(page, n.keys.clone());
        for (i, c) in n.children.iter().enumerate() {
            let clo = if i == 0 { lo } else { Some(&n.keys[i - 1]) };
            let chi = if i == n.keys.len() { hi } else { Some(&n.keys[i]) };
            self.node(*c, level + 1, clo, chi, Some(page))?;
        }
        Ok(())
    }
}

/// Decode the persisted tree below (root, height) with the crate's own readers and check: sorted
/// keys, separator bounds, uniform leaf depth, complete leaf chain, no page reachable twice, no
/// reachable page on the free list.
pub fn check_structure(pm: &Arc<PageManager>, root: PageId, height: usize) -> Result<Shape, Fail> {
    let (next, free) = pm.verif_state();
    if height == 0 {
        return Err(("structure:height".into(), "persisted height is 0".into()));
    }
    let mut w = Walk { pm, height, next, seen: HashSet::new(), shape: Shape { height, root, ..Default::default() } };
    w.node(root, 0, None, None, None)?;
    let shape = &mut w.shape;
    // leaf chain
    for (i, (page, _, nxt)) in shape.leaves.iter().enumerate() {
        let want = shape.leaves.get(i + 1).map(|l| l.0).unwrap_or(0);
        if *nxt != want {
            return Err((
                "structure:leaf-chain".into(),
                format!("leaf {} (#{} of {} in key order) has next_leaf {}, the next leaf in key order is {}", page, i, shape.leaves.len(), nxt, if want == 0 { "none (0)".to_string() } else { want.to_string() }),
            ));
        }
    }
    // keys strictly increasing across the whole chain (follows from the bounds, checked directly too)
    for x in shape.entries.windows(2) {
        if x[0].0.cmp(&x[1].0) != Ordering::Less {
            return Err(("structure:chain-keys-unsorted".into(), format!("along the leaf chain key {} is followed by {}", fmt_key(&x[0].0), fmt_key(&x[1].0))));
        }
    }
    let mut fs = HashSet::new();
    for f in &free {
        if w.seen.contains(f) {
            return Err(("structure:free-and-reachable".into(), format!("page {} is on the allocator's free list and reachable from the root", f)));
        }
        if !fs.insert(*f) {
            return Err(("structure:double-free".into(), format!("page {} is on the allocator's free list twice", f)));
        }
    }
    shape.leaked_pages = (next as usize - 1).saturating_sub(w.seen.len() + fs.len());
    Ok(w.shape)
}

/// The logical structure with page numbers abstracted away: nodes in depth-first order with their
/// separator keys / entries (row ids in stored order). Two trees with equal text differ only by a
/// renaming of page ids (and by the content of unreachable pages).
pub fn canonical_text(s: &Shape) -> String {
    fn rec(s: &Shape, page: PageId, leaf_no: &mut usize, ent_pos: &mut usize, out: &mut String) {
        if let Some((_, children)) = s.internals.get(&page) {
            out.push_str("I[");
            for k in &s.internal_keys[&page] {
                out.push_str(&fmt_key(k));
                out.push('|');
            }
            out.push(']');
            out.push('(');
            for c in children {
                rec(s, *c, leaf_no, ent_pos, out);
            }
            out.push(')');
        } else {
            let n = s.leaves[*leaf_no].1;
            out.push_str("L{");
            for (k, r) in &s.entries[*ent_pos..*ent_pos + n] {
                out.push_str(&fmt_key(k));
                out.push_str(&format!("{:?}", r));
            }
            out.push('}');
            *leaf_no += 1;
            *ent_pos += n;
        }
    }
    let mut out = format!("h{}:", s.height);
    let (mut l, mut e) = (0, 0);
    rec(s, s.root, &mut l, &mut e, &mut out);
    out
}

/// persisted content equals the model (row ids per key as multisets; keys with an empty list are absent)
pub fn check_content(shape: &Shape, d: &Domain, m: &Model) -> Result<(), Fail> {
    let mut got: BTreeMap<usize, Vec<RowId>> = BTreeMap::new();
    for (k, r) in &shape.entries {
        match d.idx_of(k) {
            Some(i) => {
                if !r.is_empty() {
                    got.insert(i, sorted(r.clone()));
                }
            }
            None => return Err(("structure:foreign-key".into(), format!("persisted leaf entry with key {} that was never inserted", fmt_key(k)))),
        }
    }
    let want: BTreeMap<usize, Vec<RowId>> = m.iter().enumerate().filter(|(_, l)| !l.is_empty()).map(|(i, l)| (i, sorted(l.clone()))).collect();
    if got != want {
        return Err(("structure:content".into(), format!("persisted leaf entries (key index -> row ids) {:?} differ from the ordered map {:?}", got, want)));
    }
    Ok(())
}

/// Structural events between two shapes, for the evidence (never part of a verdict).
pub fn events(pre: &Shape, post: &Shape, ins: bool, key: &Key) -> Vec<&'static str> {
    let mut ev = vec![];
    if post.height > pre.height {
        ev.push("root_split");
    }
    if post.height < pre.height {
        ev.push("root_collapse");
    }
    let pre_l: HashMap<PageId, usize> = pre.leaves.iter().map(|l| (l.0, l.1)).collect();
    let post_l: HashMap<PageId, usize> = post.leaves.iter().map(|l| (l.0, l.1)).collect();
    if ins {
        if post.leaves.len() > pre.leaves.len() {
            ev.push("leaf_split");
        }
        let new_int = post.internals.keys().filter(|p| !pre.internals.contains_key(p)).count();
        let root_new = post.height > pre.height;
        if new_int > usize::from(root_new) {
            ev.push("internal_split");
        }
    } else {
        // the leaf that held the key before the operation
        let mut target: Option<PageId> = None;
        let mut p = 0;
        for (page, n, _) in &pre.leaves {
            if pre.entries[p..p + n].iter().any(|(k, _)| k == key) {
                target = Some(*page);
            }
            p += n;
        }
        let gone_leaf = pre_l.keys().any(|p| !post_l.contains_key(p));
        if gone_leaf {
            ev.push("leaf_merge");
        }
        let total_pre: usize = pre_l.values().sum();
        let total_post: usize = post_l.values().sum();
        if !gone_leaf && total_post < total_pre {
            // a borrow changes the size of a leaf that did not hold the deleted key
            let other_changed = pre_l.iter().any(|(p, n)| Some(*p) != target && post_l.get(p).map(|m| m != n).unwrap_or(false));
            if other_changed {
                ev.push("leaf_borrow");
            }
        }
        let gone_int = pre.internals.keys().filter(|p| !post.internals.contains_key(p)).count();
        let root_gone = post.height < pre.height;
        if gone_int > usize::from(root_gone) {
            ev.push("internal_merge");
        }
        // a child page whose parent changed while both the old and the new parent are still internal nodes
        let moved = post.parent.iter().any(|(c, p)| match pre.parent.get(c) {
            Some(op_) => op_ != p && post.internals.contains_key(op_) && pre.internals.contains_key(p),
            None => false,
        });
        if moved {
            ev.push("internal_borrow");
        }
    }
    ev
}
