//! The CLI's `executor` module, compiled from /repo's working tree (never copied).
//!
//! `include!` (instead of `#[path] mod`) lets this wrapper add two accessors next to the real
//! `SqlExecutor` — its `db` field is private to the module — without touching /repo. The `mod
//! copy_handler; pub mod display; pub mod validation;` declarations inside the included file are
//! resolved relative to the included file, i.e. they load /repo's current files too.
include!("/repo/crates/vibesql-cli/src/executor/mod.rs");

impl SqlExecutor {
    /// harness-only: read access to the database the CLI executor owns
    pub fn verif_db(&self) -> &Database {
        &self.db
    }
}

impl SqlExecutor {
    /// harness-only: used to fill a table with rows that INSERT cannot express (negative literals)
    pub fn verif_db_mut(&mut self) -> &mut Database {
        &mut self.db
    }
}
