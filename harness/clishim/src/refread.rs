//! Reference readers/writers written for the harness (independent of the `csv`/`serde_json`
//! crates and of the CLI code): RFC 4180 CSV and the JSON subset "array of flat objects".

/// One CSV field as the RFC 4180 grammar sees it.
#[derive(Debug, Clone, PartialEq, Eq)]
pub struct Field {
    pub text: String,
    pub quoted: bool,
}

/// RFC 4180 reader: records separated by CRLF (bare LF accepted), fields by `,`, a field is either
/// non-escaped (no `"`, `,`, CR, LF) or escaped (`"` … `"` with `""` for a quote; may contain
/// commas and line breaks). The final record may or may not be terminated.
pub fn read_csv(text: &str) -> Result<Vec<Vec<Field>>, String> {
    let b: Vec<char> = text.chars().collect();
    let mut recs: Vec<Vec<Field>> = vec![];
    let mut rec: Vec<Field> = vec![];
    let mut i = 0usize;
    if b.is_empty() {
        return Ok(recs);
    }
    loop {
        // parse one field starting at i
        let mut f = String::new();
        let mut quoted = false;
        if i < b.len() && b[i] == '"' {
            quoted = true;
            i += 1;
            loop {
                if i >= b.len() {
                    return Err("unterminated quoted field".into());
                }
                if b[i] == '"' {
                    if i + 1 < b.len() && b[i + 1] == '"' {
                        f.push('"');
                        i += 2;
                    } else {
                        i += 1;
                        break;
                    }
                } else {
                    f.push(b[i]);
                    i += 1;
                }
            }
            if i < b.len() && !(b[i] == ',' || b[i] == '\n' || b[i] == '\r') {
                return Err(format!("text after closing quote at char {}", i));
            }
        } else {
            while i < b.len() && b[i] != ',' && b[i] != '\n' && b[i] != '\r' {
                if b[i] == '"' {
                    return Err(format!("bare quote inside unquoted field at char {}", i));
                }
                f.push(b[i]);
                i += 1;
            }
        }
        rec.push(Field { text: f, quoted });
        if i >= b.len() {
            recs.push(std::mem::take(&mut rec));
            break;
        }
        match b[i] {
            ',' => {
                i += 1;
                if i >= b.len() {
                    // trailing comma at EOF: one more empty field
                    rec.push(Field { text: String::new(), quoted: false });
                    recs.push(std::mem::take(&mut rec));
                    break;
                }
            }
            '\r' | '\n' => {
                if b[i] == '\r' {
                    if i + 1 < b.len() && b[i + 1] == '\n' {
                        i += 2;
                    } else {
                        return Err("bare CR".into());
                    }
                } else {
                    i += 1;
                }
                recs.push(std::mem::take(&mut rec));
                if i >= b.len() {
                    break;
                }
            }
            _ => unreachable!(),
        }
    }
    Ok(recs)
}

/// RFC 4180 field writer. `always`: quote every field; otherwise only where the grammar needs it.
pub fn csv_field(s: &str, always: bool) -> String {
    if always || s.contains(',') || s.contains('"') || s.contains('\n') || s.contains('\r') {
        format!("\"{}\"", s.replace('"', "\"\""))
    } else {
        s.to_string()
    }
}

/// JSON scalar of the subset.
#[derive(Debug, Clone, PartialEq)]
pub enum JVal {
    Null,
    Bool(bool),
    /// raw number text
    Num(String),
    Str(String),
}

struct P<'a> {
    b: &'a [char],
    i: usize,
}

impl<'a> P<'a> {
    fn ws(&mut self) {
        while self.i < self.b.len() && matches!(self.b[self.i], ' ' | '\n' | '\r' | '\t') {
            self.i += 1;
        }
    }
    fn eat(&mut self, c: char) -> Result<(), String> {
        self.ws();
        if self.i < self.b.len() && self.b[self.i] == c {
            self.i += 1;
            Ok(())
        } else {
            Err(format!("expected '{}' at char {}", c, self.i))
        }
    }
    fn peek(&mut self) -> Option<char> {
        self.ws();
        self.b.get(self.i).copied()
    }
    fn string(&mut self) -> Result<String, String> {
        self.eat('"')?;
        let mut s = String::new();
        loop {
            let Some(&c) = self.b.get(self.i) else { return Err("unterminated string".into()) };
            self.i += 1;
            match c {
                '"' => return Ok(s),
                '\\' => {
                    let Some(&e) = self.b.get(self.i) else { return Err("bad escape".into()) };
                    self.i += 1;
                    match e {
                        '"' => s.push('"'),
                        '\\' => s.push('\\'),
                        '/' => s.push('/'),
                        'n' => s.push('\n'),
                        'r' => s.push('\r'),
                        't' => s.push('\t'),
                        'b' => s.push('\u{8}'),
                        'f' => s.push('\u{c}'),
                        'u' => {
                            if self.i + 4 > self.b.len() {
                                return Err("bad \\u".into());
                            }
                            let h: String = self.b[self.i..self.i + 4].iter().collect();
                            self.i += 4;
                            let n = u32::from_str_radix(&h, 16).map_err(|e| e.to_string())?;
                            s.push(char::from_u32(n).ok_or("surrogate in \\u (not in the subset)")?);
                        }
                        _ => return Err(format!("bad escape \\{}", e)),
                    }
                }
                c => s.push(c),
            }
        }
    }
    fn scalar(&mut self) -> Result<JVal, String> {
        match self.peek() {
            Some('"') => Ok(JVal::Str(self.string()?)),
            Some(c) if c == '-' || c.is_ascii_digit() => {
                let st = self.i;
                while self.i < self.b.len() && matches!(self.b[self.i], '-' | '+' | '.' | 'e' | 'E' | '0'..='9') {
                    self.i += 1;
                }
                Ok(JVal::Num(self.b[st..self.i].iter().collect()))
            }
            Some(_) => {
                for (w, v) in [("null", JVal::Null), ("true", JVal::Bool(true)), ("false", JVal::Bool(false))] {
                    let n = w.chars().count();
                    if self.i + n <= self.b.len() && self.b[self.i..self.i + n].iter().collect::<String>() == w {
                        self.i += n;
                        return Ok(v);
                    }
                }
                Err(format!("unexpected token at char {}", self.i))
            }
            None => Err("unexpected end".into()),
        }
    }
}

/// JSON reader for `[ {"k": scalar, …}, … ]`; object members are returned in file order.
pub fn read_json(text: &str) -> Result<Vec<Vec<(String, JVal)>>, String> {
    let b: Vec<char> = text.chars().collect();
    let mut p = P { b: &b, i: 0 };
    let mut out = vec![];
    p.eat('[')?;
    if p.peek() == Some(']') {
        p.eat(']')?;
    } else {
        loop {
            p.eat('{')?;
            let mut obj = vec![];
            if p.peek() == Some('}') {
                p.eat('}')?;
            } else {
                loop {
                    let k = p.string()?;
                    p.eat(':')?;
                    let v = p.scalar()?;
                    obj.push((k, v));
                    if p.peek() == Some(',') {
                        p.eat(',')?;
                    } else {
                        p.eat('}')?;
                        break;
                    }
                }
            }
            out.push(obj);
            if p.peek() == Some(',') {
                p.eat(',')?;
            } else {
                p.eat(']')?;
                break;
            }
        }
    }
    p.ws();
    if p.i != b.len() {
        return Err("trailing text".into());
    }
    Ok(out)
}

pub fn json_string(s: &str) -> String {
    let mut o = String::from("\"");
    for c in s.chars() {
        match c {
            '"' => o.push_str("\\\""),
            '\\' => o.push_str("\\\\"),
            '\n' => o.push_str("\\n"),
            '\r' => o.push_str("\\r"),
            '\t' => o.push_str("\\t"),
            c if (c as u32) < 0x20 => o.push_str(&format!("\\u{:04x}", c as u32)),
            c => o.push(c),
        }
    }
    o.push('"');
    o
}
