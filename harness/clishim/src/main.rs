//! `clicheck` — C31: the CLI's `\copy` code (compiled from /repo's working tree by path) driven
//! in-process. CLI: `clicheck check C31 <quick|thorough>` | `clicheck replay <path>`.

// The CLI is a binary crate: its current source files are included by absolute path, so an edit
// in /repo is compiled into this check. Nothing is copied.
#[path = "/repo/crates/vibesql-cli/src/commands.rs"]
mod commands;
#[path = "/repo/crates/vibesql-cli/src/data_io.rs"]
mod data_io;
#[path = "/repo/crates/vibesql-cli/src/formatter.rs"]
mod formatter;
// executor/mod.rs (+ copy_handler.rs, display.rs, validation.rs) through a thin wrapper
mod executor;

mod c31;
mod refread;

use std::io::Write;

/// The CLI code prints progress to stdout/stderr for every command; while cases run, both are
/// pointed at /dev/null (the verdict lines are printed after `stop`).
pub struct Silence {
    out: i32,
    err: i32,
}

impl Silence {
    pub fn start() -> Silence {
        let _ = std::io::stdout().flush();
        let _ = std::io::stderr().flush();
        unsafe {
            let out = libc::dup(1);
            let err = libc::dup(2);
            let null = libc::open(b"/dev/null\0".as_ptr() as *const libc::c_char, libc::O_WRONLY);
            if null >= 0 {
                libc::dup2(null, 1);
                libc::dup2(null, 2);
                libc::close(null);
            }
            Silence { out, err }
        }
    }
    pub fn stop(self) {
        let _ = std::io::stdout().flush();
        let _ = std::io::stderr().flush();
        unsafe {
            if self.out >= 0 {
                libc::dup2(self.out, 1);
                libc::close(self.out);
            }
            if self.err >= 0 {
                libc::dup2(self.err, 2);
                libc::close(self.err);
            }
        }
    }
}

fn usage() -> ! {
    eprintln!("usage: clicheck check C31 <quick|thorough> | clicheck replay <path>");
    std::process::exit(2)
}

fn main() {
    let args: Vec<String> = std::env::args().collect();
    if args.len() < 3 {
        usage();
    }
    // anyhow captures a backtrace per error when this is set; irrelevant for behaviour, slow
    std::env::set_var("RUST_BACKTRACE", "0");
    std::env::set_var("RUST_LIB_BACKTRACE", "0");
    if std::env::var("PARALLEL_THRESHOLD").is_err() {
        std::env::set_var("PARALLEL_THRESHOLD", "max");
    }
    vcore::exec::silence_panics();
    match args[1].as_str() {
        "check" => {
            if args.len() < 4 {
                usage();
            }
            if args[2] != "C31" {
                eprintln!("MACHINERY-ERROR clicheck only implements C31");
                std::process::exit(2);
            }
            let tier = args[3].clone();
            let silence = Silence::start();
            // the whole exploration runs silenced; Report::finish prints after `stop`
            let res = std::panic::catch_unwind(move || c31::explore(&tier));
            silence.stop();
            match res {
                Ok(rep) => std::process::exit(rep.finish()),
                Err(p) => {
                    c31::scratch_cleanup();
                    eprintln!("MACHINERY-ERROR property=C31 harness panicked: {}", vcore::exec::panic_msg(p));
                    std::process::exit(2);
                }
            }
        }
        "replay" => std::process::exit(c31::replay(&args[2])),
        _ => usage(),
    }
}
