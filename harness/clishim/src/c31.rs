//! C31 — CLI import/export transfers data faithfully and safely (DESIGN §5 C31, engine E8).
//!
//! Drives exactly what the REPL runs for `\copy`: `MetaCommand::parse(line)` and then
//! `SqlExecutor::handle_copy(table, path, direction, format)` — both compiled from /repo's
//! working tree — on a fresh `SqlExecutor` per case, with private scratch files.
//!
//! Space (exhaustive): two schemas `t(id INT, name VARCHAR(50))` and `t(k VARCHAR(50), name
//! VARCHAR(50))`; every table / file of ≤ 2 records over the value set below; for import files all
//! header/key variants × quoting style × line ending × (target empty | target holds one row).
//!
//! Oracles (only what the property states):
//!  * round trip: `\copy t TO f` then `\copy t2 FROM f` (t2 empty, same schema) ⇒ bag(t2) = bag(t);
//!  * import: the records are extracted from the *file bytes* by the harness' own RFC 4180 / JSON
//!    reader. If every record names the columns exactly and is type-correct, the target must end
//!    up as `before ⊎ records` ("must import"). Otherwise (header in other case / with spaces,
//!    unknown column, SQL text in a column name, empty field for an INT column) the importer may
//!    reject or import any sub-bag of the well-defined records — but nothing else may appear;
//!  * always: the catalog holds exactly the original tables, the bystander tables are unchanged,
//!    nothing panics. The value `handle_copy` returns is recorded but never judged.
//!
//! Reporting: all cases are executed; a failing case is *reported* only if it is minimal, i.e. no
//! one-step simplification of it (drop a record, replace one value by the plain value, exact
//! header, minimal quoting, LF, empty target) fails as well. Every failing case is counted. The
//! signature of a reported case is a feature vector of that minimal failing *input*.

use std::collections::{BTreeSet, HashSet};
use std::panic::{catch_unwind, AssertUnwindSafe};
use std::sync::atomic::{AtomicU64, Ordering};

use serde_json::{json, Value};
use vibesql_types::SqlValue;

use vcore::report::Report;
use vcore::util;
use vcore::val::{self, NV};

use crate::commands::MetaCommand;
use crate::executor::SqlExecutor;
use crate::refread::{self, JVal};

// ---------------------------------------------------------------------------------------------
// value set, schemas
// ---------------------------------------------------------------------------------------------

#[derive(Clone, Copy, Debug, PartialEq, Eq, Hash, PartialOrd, Ord)]
pub enum Val {
    Null,
    Int(i64),
    Str(&'static str),
}

#[derive(Clone, Copy, Debug, PartialEq, Eq)]
pub enum Kind {
    Int,
    Text,
}

pub struct Schema {
    pub name: &'static str,
    pub cols: [(&'static str, Kind); 2],
}

pub const SCHEMAS: [Schema; 2] = [
    Schema { name: "int_varchar", cols: [("id", Kind::Int), ("name", Kind::Text)] },
    Schema { name: "varchar_varchar", cols: [("k", Kind::Text), ("name", Kind::Text)] },
];

/// index 0 is the plain value of the kind (simplest first)
const INTS: [Val; 3] = [Val::Int(1), Val::Int(-1), Val::Null];
const TEXTS: [Val; 10] = [
    Val::Str("a"),
    Val::Str(""),
    Val::Null,
    Val::Str("NULL"),
    Val::Str("it's"),
    Val::Str("a,b"),
    Val::Str("say \"hi\""),
    Val::Str("line1\nline2"),
    Val::Str("x'); DROP TABLE t; --"),
    // extension of the DESIGN value set: RFC 4180 says spaces are part of a field
    Val::Str(" a "),
];

fn domain(k: Kind) -> &'static [Val] {
    match k {
        Kind::Int => &INTS,
        Kind::Text => &TEXTS,
    }
}

fn value_class(v: &Val) -> &'static str {
    match v {
        Val::Null => "null",
        Val::Int(i) if *i < 0 => "negative_int",
        Val::Int(_) => "plain",
        Val::Str(s) => {
            if s.is_empty() {
                "empty_string"
            } else if *s == "NULL" {
                "text_NULL"
            } else if s.contains('\n') {
                "contains_newline"
            } else if s.contains('"') {
                "contains_quote"
            } else if s.contains(',') {
                "contains_comma"
            } else if s.contains(';') {
                "sql_fragment"
            } else if s.starts_with(' ') || s.ends_with(' ') {
                "padded"
            } else if s.contains('\'') {
                "apostrophe"
            } else {
                "plain"
            }
        }
    }
}

fn ddl_type(k: Kind) -> &'static str {
    match k {
        Kind::Int => "INT",
        Kind::Text => "VARCHAR(50)",
    }
}

pub fn ddl(schema: usize) -> Vec<String> {
    let s = &SCHEMAS[schema];
    let cols = format!("{} {}, {} {}", s.cols[0].0, ddl_type(s.cols[0].1), s.cols[1].0, ddl_type(s.cols[1].1));
    vec![
        format!("CREATE TABLE t ({})", cols),
        format!("CREATE TABLE t2 ({})", cols),
        "CREATE TABLE u (id INT, name VARCHAR(50))".to_string(),
        "INSERT INTO u VALUES (7, 'keep')".to_string(),
    ]
}

fn pre_row_sql(schema: usize) -> &'static str {
    if schema == 0 {
        "INSERT INTO t VALUES (9, 'pre')"
    } else {
        "INSERT INTO t VALUES ('pre', 'pre')"
    }
}

fn pre_row_nv(schema: usize) -> Vec<NV> {
    if schema == 0 {
        vec![NV::Int(9), NV::Str("pre".into())]
    } else {
        vec![NV::Str("pre".into()), NV::Str("pre".into())]
    }
}

fn val_json(v: &Val) -> Value {
    match v {
        Val::Null => Value::Null,
        Val::Int(i) => json!(i),
        Val::Str(s) => json!(s),
    }
}

fn val_sql(v: &Val, k: Kind) -> SqlValue {
    match (v, k) {
        (Val::Null, _) => SqlValue::Null,
        (Val::Int(i), _) => SqlValue::Integer(*i),
        (Val::Str(s), _) => SqlValue::Varchar(s.to_string()),
    }
}

// ---------------------------------------------------------------------------------------------
// scratch files, running the CLI code
// ---------------------------------------------------------------------------------------------

static COUNTER: AtomicU64 = AtomicU64::new(0);

pub fn scratch_dir() -> &'static str {
    static DIR: std::sync::OnceLock<String> = std::sync::OnceLock::new();
    DIR.get_or_init(|| format!("/verif/.build/scratch/clicheck-{}", std::process::id()))
}

thread_local! {
    static WORKER: u64 = COUNTER.fetch_add(1, Ordering::Relaxed);
}

/// One private file per worker thread and format, overwritten from case to case (creating and
/// unlinking a file per case serialises all workers on the ext4 journal). Import cases rewrite
/// the file completely before use; round-trip cases remove it first.
fn scratch_path(ext: &str) -> String {
    format!("{}/w{}.{}", scratch_dir(), WORKER.with(|w| *w), ext)
}

pub fn scratch_setup() -> Result<(), String> {
    std::fs::create_dir_all(scratch_dir()).map_err(|e| format!("cannot create {}: {}", scratch_dir(), e))
}

pub fn scratch_cleanup() {
    let _ = std::fs::remove_dir_all(scratch_dir());
    // remove the parent if it became empty (other processes may be using it: ignore failure)
    let _ = std::fs::remove_dir("/verif/.build/scratch");
}

const ORIGINAL_TABLES: [&str; 3] = ["public.T", "public.T2", "public.U"];

#[derive(Debug, Clone, PartialEq)]
pub struct Obs {
    /// what the REPL would have seen: "ok" | "err: …" | "panic: …" | "not-a-copy-command"
    pub ret: Vec<String>,
    pub tables: Vec<String>,
    pub t: Vec<Vec<SqlValue>>,
    pub t2: Vec<Vec<SqlValue>>,
    pub u: Vec<Vec<SqlValue>>,
}

impl Obs {
    fn of(ex: &SqlExecutor, ret: Vec<String>) -> Obs {
        let db = ex.verif_db();
        Obs {
            ret,
            tables: vcore::obs::table_keys(db),
            t: vcore::obs::rows_of(db, "t"),
            t2: vcore::obs::rows_of(db, "t2"),
            u: vcore::obs::rows_of(db, "u"),
        }
    }
    /// comparison key for the determinism re-runs (messages contain scratch paths: class only)
    fn key(&self) -> String {
        let cls: Vec<&str> = self.ret.iter().map(|r| r.split(':').next().unwrap_or("")).collect();
        format!("{:?}|{:?}|{:?}|{:?}|{:?}", cls, self.tables, self.t, self.t2, self.u)
    }
}

/// The REPL's handling of one `\copy` line.
fn repl_copy(ex: &mut SqlExecutor, line: &str) -> String {
    let parsed = catch_unwind(|| MetaCommand::parse(line));
    match parsed {
        Err(p) => format!("panic: MetaCommand::parse: {}", vcore::exec::panic_msg(p)),
        Ok(Some(MetaCommand::Copy { table, file_path, direction, format })) => {
            match catch_unwind(AssertUnwindSafe(|| ex.handle_copy(&table, &file_path, direction, format))) {
                Ok(Ok(())) => "ok".to_string(),
                Ok(Err(e)) => format!("err: {}", util::trunc(&format!("{}", e), 200)),
                Err(p) => format!("panic: handle_copy: {}", vcore::exec::panic_msg(p)),
            }
        }
        Ok(_) => "not-a-copy-command".to_string(),
    }
}

fn fresh_executor(schema: usize) -> Result<SqlExecutor, String> {
    let mut ex = SqlExecutor::new(None).map_err(|e| format!("SqlExecutor::new: {}", e))?;
    for s in ddl(schema) {
        ex.execute(&s).map_err(|e| format!("harness prelude `{}` failed: {}", s, e))?;
    }
    Ok(ex)
}

fn fmt_name(fmt: u8) -> &'static str {
    if fmt == 0 {
        "csv"
    } else {
        "json"
    }
}

// ---------------------------------------------------------------------------------------------
// import
// ---------------------------------------------------------------------------------------------

/// Everything an import case consists of (what a replay file stores).
#[derive(Debug, Clone)]
pub struct ImportInput {
    pub schema: usize,
    pub fmt: u8,
    pub file: String,
    pub pre: bool,
}

pub fn run_import(inp: &ImportInput) -> Result<Obs, String> {
    let mut ex = fresh_executor(inp.schema)?;
    if inp.pre {
        ex.execute(pre_row_sql(inp.schema)).map_err(|e| format!("harness pre-row failed: {}", e))?;
    }
    let path = scratch_path(fmt_name(inp.fmt));
    std::fs::write(&path, inp.file.as_bytes()).map_err(|e| format!("cannot write {}: {}", path, e))?;
    let ret = repl_copy(&mut ex, &format!("\\copy t FROM '{}'", path));
    Ok(Obs::of(&ex, vec![ret]))
}

/// One record as the reference reader sees it, mapped onto the table's columns.
#[derive(Debug, Clone)]
pub struct ExpRec {
    /// per table column the acceptable stored values; None: the record is not well-defined for
    /// this table (unknown / duplicate column, wrong arity, not a number for an INT column)
    pub cells: Option<[Vec<NV>; 2]>,
    /// exact column names, complete, type-correct, no representation choice left to the importer
    pub must: bool,
}

fn resolve(schema: usize, key: &str) -> Option<usize> {
    let k = key.trim();
    SCHEMAS[schema].cols.iter().position(|(c, _)| c.eq_ignore_ascii_case(k))
}

/// Extract the records of the file with the reference readers and map them onto `t`.
pub fn expected(inp: &ImportInput) -> Result<Vec<ExpRec>, String> {
    let sch = &SCHEMAS[inp.schema];
    let mut out = vec![];
    // (key, raw text or None for null, kind-of-source) per record
    enum Src {
        Text(String),
        JNull,
        JNum(String),
        JStr(String),
        JBool(bool),
    }
    let mut recs: Vec<Option<Vec<(String, Src)>>> = vec![];
    if inp.fmt == 0 {
        let all = refread::read_csv(&inp.file)?;
        if all.is_empty() {
            return Ok(out);
        }
        let header: Vec<String> = all[0].iter().map(|f| f.text.clone()).collect();
        for r in &all[1..] {
            if r.len() != header.len() {
                recs.push(None);
            } else {
                recs.push(Some(header.iter().cloned().zip(r.iter().map(|f| Src::Text(f.text.clone()))).collect()));
            }
        }
    } else {
        for obj in refread::read_json(&inp.file)? {
            recs.push(Some(
                obj.into_iter()
                    .map(|(k, v)| {
                        let s = match v {
                            JVal::Null => Src::JNull,
                            JVal::Num(n) => Src::JNum(n),
                            JVal::Str(s) => Src::JStr(s),
                            JVal::Bool(b) => Src::JBool(b),
                        };
                        (k, s)
                    })
                    .collect(),
            ));
        }
    }
    for rec in recs {
        let Some(rec) = rec else {
            out.push(ExpRec { cells: None, must: false });
            continue;
        };
        let mut cells: [Option<Vec<NV>>; 2] = [None, None];
        let mut ok = true;
        let mut must = true;
        for (key, src) in &rec {
            let Some(c) = resolve(inp.schema, key) else {
                ok = false;
                break;
            };
            if cells[c].is_some() {
                ok = false; // duplicate column
                break;
            }
            if key != sch.cols[c].0 {
                must = false;
            }
            let acc: Vec<NV> = match (sch.cols[c].1, src) {
                (Kind::Int, Src::Text(t)) if t.is_empty() => {
                    must = false; // CSV has no NULL: an importer may refuse an empty INT field
                    vec![NV::Null]
                }
                (Kind::Int, Src::Text(t)) => match t.parse::<i64>() {
                    Ok(i) => vec![NV::Int(i as i128)],
                    Err(_) => {
                        ok = false;
                        break;
                    }
                },
                (Kind::Text, Src::Text(t)) if t.is_empty() => vec![NV::Null, NV::Str(String::new())],
                (Kind::Text, Src::Text(t)) => vec![NV::Str(t.clone())],
                (_, Src::JNull) => vec![NV::Null],
                (Kind::Int, Src::JNum(n)) => match n.parse::<i64>() {
                    Ok(i) => vec![NV::Int(i as i128)],
                    Err(_) => {
                        ok = false;
                        break;
                    }
                },
                (Kind::Int, Src::JStr(s)) => match s.parse::<i64>() {
                    Ok(i) => {
                        must = false;
                        vec![NV::Int(i as i128)]
                    }
                    Err(_) => {
                        ok = false;
                        break;
                    }
                },
                (Kind::Int, Src::JBool(_)) => {
                    ok = false;
                    break;
                }
                (Kind::Text, Src::JStr(s)) => vec![NV::Str(s.clone())],
                (Kind::Text, Src::JNum(n)) => {
                    must = false;
                    vec![NV::Str(n.clone())]
                }
                (Kind::Text, Src::JBool(b)) => {
                    must = false;
                    vec![NV::Str(b.to_string())]
                }
            };
            cells[c] = Some(acc);
        }
        if !ok {
            out.push(ExpRec { cells: None, must: false });
            continue;
        }
        let [a, b] = cells;
        if a.is_none() || b.is_none() {
            must = false; // a missing column defaults to NULL; the importer may also refuse
        }
        out.push(ExpRec { cells: Some([a.unwrap_or(vec![NV::Null]), b.unwrap_or(vec![NV::Null])]), must });
    }
    Ok(out)
}

fn row_matches(row: &[NV], cells: &[Vec<NV>; 2]) -> bool {
    row.len() == 2 && cells[0].contains(&row[0]) && cells[1].contains(&row[1])
}

/// Is there an injective assignment of every observed row to a distinct expected record?
fn injective(rows: &[Vec<NV>], exp: &[&[Vec<NV>; 2]], used: &mut Vec<bool>) -> bool {
    let Some((first, rest)) = rows.split_first() else { return true };
    for i in 0..exp.len() {
        if !used[i] && row_matches(first, exp[i]) {
            used[i] = true;
            if injective(rest, exp, used) {
                return true;
            }
            used[i] = false;
        }
    }
    false
}

fn fmt_exp(e: &ExpRec) -> String {
    match &e.cells {
        None => "<not importable>".into(),
        Some(c) => format!(
            "({})",
            c.iter().map(|alts| alts.iter().map(val::fmt_nv).collect::<Vec<_>>().join("|")).collect::<Vec<_>>().join(",")
        ),
    }
}

/// None: the property holds on this case. Some(reason): it does not.
pub fn judge_import(inp: &ImportInput, exp: &[ExpRec], obs: &Obs) -> Option<String> {
    let describe = || {
        format!(
            "file {:?}; records per reference reader: [{}]; handle_copy returned {:?}; t = {}",
            inp.file,
            exp.iter().map(fmt_exp).collect::<Vec<_>>().join(", "),
            obs.ret,
            val::fmt_rows(&obs.t)
        )
    };
    if let Some(p) = obs.ret.iter().find(|r| r.starts_with("panic")) {
        return Some(format!("import panicked ({}); {}", p, describe()));
    }
    if obs.tables != ORIGINAL_TABLES {
        return Some(format!("catalog changed by an import: tables now {:?}; {}", obs.tables, describe()));
    }
    if val::fmt_rows(&obs.u) != "[(7,'keep')]" || !obs.t2.is_empty() {
        return Some(format!("an import into t changed another table: u = {}, t2 = {}; {}", val::fmt_rows(&obs.u), val::fmt_rows(&obs.t2), describe()));
    }
    let mut rows: Vec<Vec<NV>> = val::seq(&obs.t);
    if inp.pre {
        let p = pre_row_nv(inp.schema);
        match rows.iter().position(|r| *r == p) {
            Some(i) => {
                rows.remove(i);
            }
            None => return Some(format!("the row already in t was changed or removed by the import; {}", describe())),
        }
    }
    let all_must = exp.iter().all(|e| e.must && e.cells.is_some());
    let valid: Vec<&[Vec<NV>; 2]> = exp.iter().filter_map(|e| e.cells.as_ref()).collect();
    let mut used = vec![false; valid.len()];
    let inj = injective(&rows, &valid, &mut used);
    if all_must {
        if rows.len() == exp.len() && inj {
            None
        } else {
            Some(format!("well-formed file with exact column names was not imported as its records; {}", describe()))
        }
    } else if inj {
        None
    } else {
        Some(format!("import inserted something that is not a record of the file; {}", describe()))
    }
}

/// Enumerated descriptor of an import case (compact; `file_text` builds the bytes).
#[derive(Clone, Copy, Debug, PartialEq, Eq, Hash, PartialOrd, Ord)]
pub struct ImportCase {
    pub schema: u8,
    /// 0 csv, 1 json
    pub fmt: u8,
    pub n: u8,
    /// value indexes into the column domains; unused records are [0,0]
    pub v: [[u8; 2]; 2],
    /// 0 exact, 1 other case, 2 extra spaces, 3 unknown column, 4 SQL text in a column name
    pub header: u8,
    /// json only: 0 = every object carries the variant keys, 1 = only objects after the first
    pub scope: u8,
    /// csv only: 0 minimal RFC 4180 quoting, 1 every field quoted
    pub quoting: u8,
    /// csv only: 0 LF, 1 CRLF
    pub eol: u8,
    pub pre: u8,
}

const HEADER_NAMES: [&str; 5] = ["exact", "other_case", "extra_spaces", "unknown_column", "sql_in_column_name"];

fn header_fields(schema: usize, kind: u8) -> [String; 2] {
    let c = &SCHEMAS[schema].cols;
    let (a, b) = (c[0].0, c[1].0);
    match kind {
        0 => [a.to_string(), b.to_string()],
        1 => [a.to_uppercase(), format!("{}{}", b[..1].to_uppercase(), &b[1..])],
        2 => [format!(" {}", a), format!("{} ", b)],
        3 => [a.to_string(), "nam".to_string()],
        // the column list is closed early and the rest of the statement commented out; the
        // smuggled VALUES list is type-correct for the column so that the statement would run
        _ => match c[0].1 {
            Kind::Int => [format!("{}) VALUES (1); --", a), b.to_string()],
            Kind::Text => [format!("{}) VALUES ('1'); --", a), b.to_string()],
        },
    }
}

impl ImportCase {
    pub fn vals(&self) -> Vec<[Val; 2]> {
        let s = &SCHEMAS[self.schema as usize];
        (0..self.n as usize)
            .map(|r| [domain(s.cols[0].1)[self.v[r][0] as usize], domain(s.cols[1].1)[self.v[r][1] as usize]])
            .collect()
    }

    pub fn file_text(&self) -> String {
        let schema = self.schema as usize;
        let recs = self.vals();
        if self.fmt == 0 {
            let eol = if self.eol == 1 { "\r\n" } else { "\n" };
            let always = self.quoting == 1;
            let h = header_fields(schema, self.header);
            let mut s = format!("{},{}{}", refread::csv_field(&h[0], always), refread::csv_field(&h[1], always), eol);
            for r in &recs {
                let f: Vec<String> = r
                    .iter()
                    .map(|v| match v {
                        Val::Null => String::new(), // CSV has no NULL: the empty unquoted field
                        Val::Int(i) => refread::csv_field(&i.to_string(), always),
                        Val::Str(t) => refread::csv_field(t, always),
                    })
                    .collect();
                s.push_str(&f.join(","));
                s.push_str(eol);
            }
            s
        } else {
            let objs: Vec<String> = recs
                .iter()
                .enumerate()
                .map(|(i, r)| {
                    let kind = if self.scope == 0 || i >= 1 { self.header } else { 0 };
                    let h = header_fields(schema, kind);
                    let m: Vec<String> = r
                        .iter()
                        .zip(h.iter())
                        .map(|(v, k)| {
                            let vs = match v {
                                Val::Null => "null".to_string(),
                                Val::Int(i) => i.to_string(),
                                Val::Str(t) => refread::json_string(t),
                            };
                            format!("{}: {}", refread::json_string(k), vs)
                        })
                        .collect();
                    format!("{{{}}}", m.join(", "))
                })
                .collect();
            format!("[{}]", objs.join(", "))
        }
    }

    pub fn input(&self) -> ImportInput {
        ImportInput { schema: self.schema as usize, fmt: self.fmt, file: self.file_text(), pre: self.pre == 1 }
    }

    fn canon(mut self) -> ImportCase {
        for r in self.n as usize..2 {
            self.v[r] = [0, 0];
        }
        if self.fmt == 0 {
            self.scope = 0;
        } else {
            self.quoting = 0;
            self.eol = 0;
            if self.n == 0 {
                self.header = 0; // "[]" has no keys
            }
            if self.header == 0 {
                self.scope = 0;
            } else if self.scope == 1 && self.n < 2 {
                // "objects after the first" of a file with < 2 objects: no object carries the variant
                self.header = 0;
                self.scope = 0;
            }
        }
        self
    }

    /// one-step simplifications (all inside the enumerated space)
    pub fn reductions(&self) -> Vec<ImportCase> {
        let mut out = vec![];
        for i in 0..self.n as usize {
            let mut c = *self;
            if i == 0 && self.n == 2 {
                c.v[0] = c.v[1];
            }
            c.n -= 1;
            out.push(c.canon());
        }
        for r in 0..self.n as usize {
            for col in 0..2 {
                if self.v[r][col] != 0 {
                    let mut c = *self;
                    c.v[r][col] = 0;
                    out.push(c.canon());
                }
            }
        }
        if self.header != 0 {
            let mut c = *self;
            c.header = 0;
            c.scope = 0;
            out.push(c.canon());
        }
        if self.quoting != 0 {
            let mut c = *self;
            c.quoting = 0;
            out.push(c.canon());
        }
        if self.eol != 0 {
            let mut c = *self;
            c.eol = 0;
            out.push(c.canon());
        }
        if self.pre != 0 {
            let mut c = *self;
            c.pre = 0;
            out.push(c.canon());
        }
        out.retain(|c| c != self);
        out
    }

    fn value_classes(&self) -> String {
        let set: BTreeSet<&str> = self.vals().iter().flat_map(|r| r.iter().map(value_class).collect::<Vec<_>>()).filter(|c| *c != "plain").collect();
        if set.is_empty() {
            "plain".into()
        } else {
            set.into_iter().collect::<Vec<_>>().join("+")
        }
    }

    pub fn signature(&self) -> Vec<(&'static str, String)> {
        let text = self.file_text();
        let quoted = if self.fmt == 0 {
            match refread::read_csv(&text) {
                Ok(r) => {
                    if r.iter().flatten().any(|f| f.quoted) {
                        "yes"
                    } else {
                        "no"
                    }
                }
                Err(_) => "?",
            }
        } else {
            "-"
        };
        vec![
            ("direction", "import".to_string()),
            ("format", fmt_name(self.fmt).to_string()),
            ("schema", SCHEMAS[self.schema as usize].name.to_string()),
            ("header", HEADER_NAMES[self.header as usize].to_string()),
            ("header_scope", if self.fmt == 1 && self.header != 0 { if self.scope == 1 { "later_objects_only" } else { "all_objects" }.to_string() } else { "-".to_string() }),
            ("records", self.n.to_string()),
            ("values", self.value_classes()),
            ("csv_quoting_style", if self.fmt == 0 { if self.quoting == 1 { "all_fields" } else { "minimal" }.to_string() } else { "-".to_string() }),
            ("csv_quoted_fields", quoted.to_string()),
            ("eol", if self.fmt == 0 { if self.eol == 1 { "crlf" } else { "lf" }.to_string() } else { "-".to_string() }),
            ("target", if self.pre == 1 { "one_row" } else { "empty" }.to_string()),
        ]
    }

    pub fn case_json(&self) -> Value {
        let inp = self.input();
        json!({
            "kind": "import",
            "schema": SCHEMAS[inp.schema].name,
            "format": fmt_name(inp.fmt),
            "file": inp.file,
            "target_has_row": inp.pre,
            "prelude": ddl(inp.schema),
            "command": format!("\\copy t FROM '<scratch>/file.{}'", fmt_name(inp.fmt)),
            "records": self.vals().iter().map(|r| r.iter().map(val_json).collect::<Vec<_>>()).collect::<Vec<_>>(),
            "header": header_fields(inp.schema, self.header).to_vec(),
        })
    }
}

/// Cross-check of the generator against the reference reader (a mismatch is a harness bug).
fn crosscheck(c: &ImportCase, inp: &ImportInput) -> Result<(), String> {
    let recs = c.vals();
    let texts: Vec<Vec<Option<String>>> = if inp.fmt == 0 {
        let all = refread::read_csv(&inp.file)?;
        if all.len() != recs.len() + 1 {
            return Err(format!("reference CSV reader found {} records, generator wrote {}", all.len(), recs.len() + 1));
        }
        let h = header_fields(inp.schema, c.header);
        if all[0].iter().map(|f| f.text.as_str()).collect::<Vec<_>>() != h.iter().map(|s| s.as_str()).collect::<Vec<_>>() {
            return Err("reference CSV reader disagrees with the generator on the header".into());
        }
        all[1..].iter().map(|r| r.iter().map(|f| Some(f.text.clone())).collect()).collect()
    } else {
        let all = refread::read_json(&inp.file)?;
        if all.len() != recs.len() {
            return Err("reference JSON reader disagrees with the generator on the number of objects".into());
        }
        all.iter()
            .map(|o| {
                o.iter()
                    .map(|(_, v)| match v {
                        JVal::Null => None,
                        JVal::Num(n) => Some(n.clone()),
                        JVal::Str(s) => Some(s.clone()),
                        JVal::Bool(b) => Some(b.to_string()),
                    })
                    .collect()
            })
            .collect()
    };
    for (r, t) in recs.iter().zip(texts.iter()) {
        let want: Vec<Option<String>> = r
            .iter()
            .map(|v| match v {
                Val::Null => {
                    if inp.fmt == 0 {
                        Some(String::new())
                    } else {
                        None
                    }
                }
                Val::Int(i) => Some(i.to_string()),
                Val::Str(s) => Some(s.to_string()),
            })
            .collect();
        if *t != want {
            return Err(format!("reference reader extracted {:?}, generator wrote {:?}", t, want));
        }
    }
    Ok(())
}

// ---------------------------------------------------------------------------------------------
// round trip
// ---------------------------------------------------------------------------------------------

#[derive(Debug, Clone)]
pub struct RtInput {
    pub schema: usize,
    pub fmt: u8,
    pub rows: Vec<[Val; 2]>,
}

pub struct RtObs {
    pub obs: Obs,
    pub exported: Option<String>,
}

pub fn run_roundtrip(inp: &RtInput) -> Result<RtObs, String> {
    let mut ex = fresh_executor(inp.schema)?;
    let sch = &SCHEMAS[inp.schema];
    for r in &inp.rows {
        let row = vibesql_storage::Row::new(vec![val_sql(&r[0], sch.cols[0].1), val_sql(&r[1], sch.cols[1].1)]);
        ex.verif_db_mut().insert_row("T", row).map_err(|e| format!("harness could not fill t: {}", e))?;
    }
    let filled = vcore::obs::rows_of(ex.verif_db(), "t");
    if filled.len() != inp.rows.len() {
        return Err("harness could not fill t (row count)".into());
    }
    let path = scratch_path(fmt_name(inp.fmt));
    let _ = std::fs::remove_file(&path);
    let r1 = repl_copy(&mut ex, &format!("\\copy t TO '{}'", path));
    let exported = std::fs::read(&path).ok().map(|b| String::from_utf8_lossy(&b).to_string());
    let r2 = repl_copy(&mut ex, &format!("\\copy t2 FROM '{}'", path));
    let _ = std::fs::remove_file(&path);
    Ok(RtObs { obs: Obs::of(&ex, vec![r1, r2]), exported })
}

pub fn judge_roundtrip(inp: &RtInput, o: &RtObs) -> Option<String> {
    let sch = &SCHEMAS[inp.schema];
    let src: Vec<Vec<SqlValue>> = inp.rows.iter().map(|r| vec![val_sql(&r[0], sch.cols[0].1), val_sql(&r[1], sch.cols[1].1)]).collect();
    let obs = &o.obs;
    let describe = || {
        format!(
            "t = {}; exported file = {:?}; export returned {:?}, import returned {:?}; t2 = {}",
            val::fmt_rows(&src),
            o.exported.as_deref().map(|s| util::trunc(s, 300)),
            obs.ret[0],
            obs.ret[1],
            val::fmt_rows(&obs.t2)
        )
    };
    if let Some(p) = obs.ret.iter().find(|r| r.starts_with("panic")) {
        return Some(format!("export/import panicked ({}); {}", p, describe()));
    }
    if obs.tables != ORIGINAL_TABLES {
        return Some(format!("catalog changed: tables now {:?}; {}", obs.tables, describe()));
    }
    if val::fmt_rows(&obs.u) != "[(7,'keep')]" || val::bag(&obs.t) != val::bag(&src) {
        return Some(format!("export/import changed a table other than the import target: t now {}, u = {}; {}", val::fmt_rows(&obs.t), val::fmt_rows(&obs.u), describe()));
    }
    if val::bag(&obs.t2) != val::bag(&src) {
        return Some(format!("export then import into an empty table of the same schema did not reproduce the rows; {}", describe()));
    }
    None
}

#[derive(Clone, Copy, Debug, PartialEq, Eq, Hash, PartialOrd, Ord)]
pub struct RtCase {
    pub schema: u8,
    pub fmt: u8,
    pub n: u8,
    pub v: [[u8; 2]; 2],
}

impl RtCase {
    fn canon(mut self) -> RtCase {
        for r in self.n as usize..2 {
            self.v[r] = [0, 0];
        }
        if self.n == 2 && self.v[0] > self.v[1] {
            self.v.swap(0, 1);
        }
        self
    }
    pub fn vals(&self) -> Vec<[Val; 2]> {
        let s = &SCHEMAS[self.schema as usize];
        (0..self.n as usize)
            .map(|r| [domain(s.cols[0].1)[self.v[r][0] as usize], domain(s.cols[1].1)[self.v[r][1] as usize]])
            .collect()
    }
    pub fn input(&self) -> RtInput {
        RtInput { schema: self.schema as usize, fmt: self.fmt, rows: self.vals() }
    }
    pub fn reductions(&self) -> Vec<RtCase> {
        let mut out = vec![];
        for i in 0..self.n as usize {
            let mut c = *self;
            if i == 0 && self.n == 2 {
                c.v[0] = c.v[1];
            }
            c.n -= 1;
            out.push(c.canon());
        }
        for r in 0..self.n as usize {
            for col in 0..2 {
                if self.v[r][col] != 0 {
                    let mut c = *self;
                    c.v[r][col] = 0;
                    out.push(c.canon());
                }
            }
        }
        out.retain(|c| c != self);
        out
    }
    pub fn signature(&self) -> Vec<(&'static str, String)> {
        let set: BTreeSet<&str> = self.vals().iter().flat_map(|r| r.iter().map(value_class).collect::<Vec<_>>()).filter(|c| *c != "plain").collect();
        let values = if set.is_empty() { "plain".to_string() } else { set.into_iter().collect::<Vec<_>>().join("+") };
        vec![
            ("direction", "export_then_import".to_string()),
            ("format", fmt_name(self.fmt).to_string()),
            ("schema", SCHEMAS[self.schema as usize].name.to_string()),
            ("rows", self.n.to_string()),
            ("values", values),
        ]
    }
    pub fn case_json(&self) -> Value {
        json!({
            "kind": "roundtrip",
            "schema": SCHEMAS[self.schema as usize].name,
            "format": fmt_name(self.fmt),
            "prelude": ddl(self.schema as usize),
            "rows": self.vals().iter().map(|r| r.iter().map(val_json).collect::<Vec<_>>()).collect::<Vec<_>>(),
            "commands": [format!("\\copy t TO '<scratch>/file.{}'", fmt_name(self.fmt)), format!("\\copy t2 FROM '<scratch>/file.{}'", fmt_name(self.fmt))],
        })
    }
}

// ---------------------------------------------------------------------------------------------
// enumeration
// ---------------------------------------------------------------------------------------------

#[derive(Clone, Copy)]
struct Base {
    schema: u8,
    fmt: u8,
    n: u8,
    v: [[u8; 2]; 2],
}

fn bases() -> Vec<Base> {
    let mut out = vec![];
    // simplest first: by number of records, then by value indexes
    for n in 0..=2u8 {
        for schema in 0..2u8 {
            let s = &SCHEMAS[schema as usize];
            let (d0, d1) = (domain(s.cols[0].1).len(), domain(s.cols[1].1).len());
            let nrow = d0 * d1;
            for seq in util::sequences(nrow, n as usize) {
                let mut v = [[0u8; 2]; 2];
                for (i, r) in seq.iter().enumerate() {
                    v[i] = [(r / d1) as u8, (r % d1) as u8];
                }
                for fmt in 0..2u8 {
                    out.push(Base { schema, fmt, n, v });
                }
            }
        }
    }
    out
}

/// thorough: the full product of the variant dimensions. quick: one dimension at a time away
/// from the default (exact header, minimal quoting, LF, empty target). Both sets are closed under
/// `reductions`, and both cover every record sequence.
fn import_variants(b: &Base, thorough: bool) -> Vec<ImportCase> {
    let mut out = vec![];
    let mk = |header, scope, quoting, eol, pre| ImportCase { schema: b.schema, fmt: b.fmt, n: b.n, v: b.v, header, scope, quoting, eol, pre };
    for pre in 0..2u8 {
        if b.fmt == 0 {
            for header in 0..5u8 {
                for quoting in 0..2u8 {
                    for eol in 0..2u8 {
                        let away = (header != 0) as u8 + quoting + eol + pre;
                        if thorough || away <= 1 {
                            out.push(mk(header, 0, quoting, eol, pre));
                        }
                    }
                }
            }
        } else {
            out.push(mk(0, 0, 0, 0, pre));
            for header in 1..5u8 {
                if b.n == 0 || (!thorough && pre == 1) {
                    break; // "[]" has no keys
                }
                out.push(mk(header, 0, 0, 0, pre));
                if b.n == 2 {
                    out.push(mk(header, 1, 0, 0, pre));
                }
            }
        }
    }
    out
}

#[derive(Default)]
struct Part {
    evals: u64,
    nontrivial: Vec<u128>,
    failing_import: Vec<ImportCase>,
    failing_rt: Vec<RtCase>,
    machinery: Vec<String>,
    ret_ok: u64,
    ret_err: u64,
    ret_other: u64,
    imported_all: u64,
    rejected_unchanged: u64,
}

fn count_ret(p: &mut Part, ret: &[String]) {
    for r in ret {
        if r == "ok" {
            p.ret_ok += 1;
        } else if r.starts_with("err") {
            p.ret_err += 1;
        } else {
            p.ret_other += 1;
        }
    }
}

fn do_base(b: &Base, thorough: bool) -> Part {
    let mut p = Part::default();
    for c in import_variants(b, thorough) {
        let inp = c.input();
        if let Err(e) = crosscheck(&c, &inp) {
            p.machinery.push(format!("{} (case {:?})", e, c));
            continue;
        }
        let exp = match expected(&inp) {
            Ok(e) => e,
            Err(e) => {
                p.machinery.push(format!("reference reader rejected a generated file: {} ({:?})", e, inp.file));
                continue;
            }
        };
        let obs = match run_import(&inp) {
            Ok(o) => o,
            Err(e) => {
                p.machinery.push(e);
                continue;
            }
        };
        p.evals += 1;
        count_ret(&mut p, &obs.ret);
        if c.n > 0 {
            p.nontrivial.push(util::hash128(format!("I|{}|{}|{}|{}", c.schema, c.fmt, c.pre, inp.file).as_bytes()));
            let got = obs.t.len().saturating_sub(c.pre as usize);
            if got == c.n as usize {
                p.imported_all += 1;
            } else if got == 0 {
                p.rejected_unchanged += 1;
            }
        }
        if judge_import(&inp, &exp, &obs).is_some() {
            p.failing_import.push(c);
        }
    }
    // round trip: bags, so only the sorted representative of a row sequence
    let rt = RtCase { schema: b.schema, fmt: b.fmt, n: b.n, v: b.v };
    if rt.canon() == rt {
        let inp = rt.input();
        match run_roundtrip(&inp) {
            Ok(o) => {
                p.evals += 1;
                count_ret(&mut p, &o.obs.ret);
                if rt.n > 0 {
                    p.nontrivial.push(util::hash128(format!("R|{}|{}|{:?}", rt.schema, rt.fmt, inp.rows).as_bytes()));
                }
                if judge_roundtrip(&inp, &o).is_some() {
                    p.failing_rt.push(rt);
                }
            }
            Err(e) => p.machinery.push(e),
        }
    }
    p
}

/// Runs the whole exploration (silenced by the caller) and returns the filled report.
pub fn explore(tier: &str) -> Report {
    let mut rep = Report::new("C31", tier, "exploration");
    if let Err(e) = scratch_setup() {
        rep.machinery_error(e);
        return rep;
    }
    let bs = bases();
    let thorough = tier == "thorough";
    let parts = util::par_map(&bs, |_, b| do_base(b, thorough));

    let mut evals = 0u64;
    let mut nontrivial: HashSet<u128> = HashSet::new();
    let mut fail_i: Vec<ImportCase> = vec![];
    let mut fail_r: Vec<RtCase> = vec![];
    let (mut ok, mut err, mut other, mut all, mut rej) = (0u64, 0u64, 0u64, 0u64, 0u64);
    for p in parts {
        evals += p.evals;
        nontrivial.extend(p.nontrivial);
        fail_i.extend(p.failing_import);
        fail_r.extend(p.failing_rt);
        for m in p.machinery.into_iter().take(3) {
            rep.machinery_error(m);
        }
        ok += p.ret_ok;
        err += p.ret_err;
        other += p.ret_other;
        all += p.imported_all;
        rej += p.rejected_unchanged;
    }

    // minimal failing cases (enumeration order is simplest-first, kept by par_map)
    let set_i: HashSet<ImportCase> = fail_i.iter().copied().collect();
    let set_r: HashSet<RtCase> = fail_r.iter().copied().collect();
    let mut minimal = 0u64;
    for c in &fail_i {
        if c.reductions().iter().any(|r| set_i.contains(r)) {
            continue;
        }
        minimal += 1;
        // R3: re-execute twice from scratch
        let inp = c.input();
        let exp = expected(&inp).unwrap_or_default();
        let a = run_import(&inp);
        let b = run_import(&inp);
        match (a, b) {
            (Ok(a), Ok(b)) if a.key() == b.key() => match judge_import(&inp, &exp, &a) {
                Some(what) => rep.violation(&c.signature(), what, c.case_json()),
                None => rep.machinery_error(format!("violating case did not fail on re-execution: {:?}", c)),
            },
            _ => rep.machinery_error(format!("re-execution of a violating case diverged: {:?}", c)),
        }
    }
    for c in &fail_r {
        if c.reductions().iter().any(|r| set_r.contains(r)) {
            continue;
        }
        minimal += 1;
        let inp = c.input();
        match (run_roundtrip(&inp), run_roundtrip(&inp)) {
            (Ok(a), Ok(b)) if a.obs.key() == b.obs.key() && a.exported == b.exported => match judge_roundtrip(&inp, &a) {
                Some(what) => rep.violation(&c.signature(), what, c.case_json()),
                None => rep.machinery_error(format!("violating case did not fail on re-execution: {:?}", c)),
            },
            _ => rep.machinery_error(format!("re-execution of a violating case diverged: {:?}", c)),
        }
    }
    scratch_cleanup();

    let sample_cases: Vec<Value> = {
        let pick = |schema: u8, fmt: u8, v: [[u8; 2]; 2], header: u8, scope: u8, quoting: u8| {
            let c = ImportCase { schema, fmt, n: 2, v, header, scope, quoting, eol: 1, pre: 0 }.canon();
            json!({"import": c.case_json()["file"], "format": fmt_name(fmt), "schema": SCHEMAS[schema as usize].name})
        };
        vec![
            pick(0, 0, [[1, 5], [2, 6]], 0, 0, 0),
            pick(1, 0, [[7, 8], [3, 9]], 2, 0, 1),
            pick(1, 1, [[4, 6], [3, 2]], 4, 1, 0),
            RtCase { schema: 0, fmt: 1, n: 2, v: [[1, 7], [2, 3]] }.case_json(),
        ]
    };
    rep.set("evaluations", json!(evals));
    rep.set("distinct_nontrivial", json!(nontrivial.len()));
    rep.set(
        "rule",
        json!("every case runs MetaCommand::parse + SqlExecutor::handle_copy (working-tree CLI sources) on a fresh executor; enumerated: 2 schemas x all record sequences of length <= 2 over the value set x {csv: 5 header variants x 2 quoting styles x 2 line endings; json: exact keys + 4 key variants x (all objects | later objects only)} x (target empty | one row) [thorough: full product of these variant dimensions; quick: one dimension at a time away from the default], plus export->import round trips of all row bags of size <= 2 in both formats; a case is non-trivial if the file/table holds >= 1 record; distinct by (direction, schema, format, target state, file bytes / row bag)"),
    );
    rep.set("samples", json!(sample_cases));
    rep.set("exhaustive", json!(true));
    rep.set("tier_bounds", json!({"records_max": 2, "columns": 2, "int_values": INTS.len(), "text_values": TEXTS.len(), "variant_dimensions": if thorough { "full product" } else { "one dimension at a time" }}));
    rep.set("bases", json!(bs.len()));
    rep.set("failing_cases_all", json!(fail_i.len() + fail_r.len()));
    rep.set("failing_cases_import", json!(fail_i.len()));
    rep.set("failing_cases_roundtrip", json!(fail_r.len()));
    rep.set("failing_cases_minimal", json!(minimal));
    rep.set("handle_copy_returned", json!({"ok": ok, "err": err, "other": other}));
    rep.set("reach", json!({"imports_that_inserted_every_record": all, "imports_that_inserted_nothing": rej}));
    let mut vac = vec![];
    if all == 0 {
        vac.push("imports_that_inserted_every_record");
    }
    rep.set("vacuous_mechanisms", json!(vac));
    rep.assume("the REPL does nothing for \\copy beyond MetaCommand::parse + SqlExecutor::handle_copy (repl.rs); rustyline is outside the check");
    rep.assume("a failing case is reported only if no one-step simplification of it fails (all failing cases are counted in failing_cases_all)");
    rep.assume("CSV has no NULL: an empty field may be stored as NULL or '' in a VARCHAR column, and an importer may refuse it for an INT column");
    rep
}

// ---------------------------------------------------------------------------------------------
// replay
// ---------------------------------------------------------------------------------------------

fn leak(s: &str) -> &'static str {
    Box::leak(s.to_string().into_boxed_str())
}

pub fn replay(path: &str) -> i32 {
    let text = match std::fs::read_to_string(path) {
        Ok(t) => t,
        Err(e) => {
            eprintln!("cannot read {}: {}", path, e);
            return 2;
        }
    };
    let v: Value = match serde_json::from_str(&text) {
        Ok(v) => v,
        Err(e) => {
            eprintln!("bad replay file: {}", e);
            return 2;
        }
    };
    let case = &v["case"];
    let Some(schema) = SCHEMAS.iter().position(|s| Some(s.name) == case["schema"].as_str()) else {
        eprintln!("bad replay file: unknown schema");
        return 2;
    };
    let fmt = if case["format"].as_str() == Some("json") { 1u8 } else { 0u8 };
    if let Err(e) = scratch_setup() {
        eprintln!("MACHINERY-ERROR {}", e);
        return 2;
    }
    let silence = crate::Silence::start();
    let verdict: Result<(Vec<String>, Option<String>), String> = match case["kind"].as_str() {
        Some("import") => {
            let inp = ImportInput { schema, fmt, file: case["file"].as_str().unwrap_or("").to_string(), pre: case["target_has_row"].as_bool().unwrap_or(false) };
            (|| {
                let exp = expected(&inp)?;
                let obs = run_import(&inp)?;
                let lines = vec![
                    format!("prelude: {:?}{}", ddl(schema), if inp.pre { format!(" + {}", pre_row_sql(schema)) } else { String::new() }),
                    format!("file ({}):\n{}", fmt_name(fmt), inp.file),
                    format!("command: \\copy t FROM '<file>'"),
                    format!("expected (reference reader): t = before + [{}]{}", exp.iter().map(fmt_exp).collect::<Vec<_>>().join(", "), if exp.iter().all(|e| e.must) { "  (must import)" } else { "  (may reject; nothing else may appear)" }),
                    format!("observed: handle_copy -> {:?}; tables = {:?}; t = {}; u = {}", obs.ret, obs.tables, val::fmt_rows(&obs.t), val::fmt_rows(&obs.u)),
                ];
                Ok((lines, judge_import(&inp, &exp, &obs)))
            })()
        }
        Some("roundtrip") => {
            let rows: Vec<[Val; 2]> = case["rows"]
                .as_array()
                .map(|a| {
                    a.iter()
                        .map(|r| {
                            let f = |x: &Value| match x {
                                Value::Null => Val::Null,
                                Value::Number(n) => Val::Int(n.as_i64().unwrap_or(0)),
                                Value::String(s) => Val::Str(leak(s)),
                                _ => Val::Null,
                            };
                            [f(&r[0]), f(&r[1])]
                        })
                        .collect()
                })
                .unwrap_or_default();
            let inp = RtInput { schema, fmt, rows };
            (|| {
                let o = run_roundtrip(&inp)?;
                let lines = vec![
                    format!("prelude: {:?}", ddl(schema)),
                    format!("t filled with: {:?}", inp.rows),
                    format!("commands: \\copy t TO '<file>' ; \\copy t2 FROM '<file>'"),
                    format!("exported file:\n{}", o.exported.clone().unwrap_or("<none>".into())),
                    format!("expected: t2 = t as bags"),
                    format!("observed: returns {:?}; tables = {:?}; t = {}; t2 = {}; u = {}", o.obs.ret, o.obs.tables, val::fmt_rows(&o.obs.t), val::fmt_rows(&o.obs.t2), val::fmt_rows(&o.obs.u)),
                ];
                Ok((lines, judge_roundtrip(&inp, &o)))
            })()
        }
        _ => Err("bad replay file: unknown case kind".into()),
    };
    silence.stop();
    scratch_cleanup();
    println!("property: {}", v["property"]);
    println!("recorded: {}", v["what"].as_str().unwrap_or(""));
    match verdict {
        Err(e) => {
            eprintln!("MACHINERY-ERROR {}", e);
            2
        }
        Ok((lines, verdict)) => {
            for l in lines {
                println!("{}", l);
            }
            match verdict {
                Some(w) => {
                    println!("verdict: VIOLATED — {}", w);
                    1
                }
                None => {
                    println!("verdict: holds on the current tree");
                    0
                }
            }
        }
    }
}
