//! Helpers shared by C33 and C34: registry views of a `Database`, SELECT with column names.

use std::panic::{catch_unwind, AssertUnwindSafe};

use vibesql_ast::Statement;
use vibesql_executor as ve;
use vibesql_parser::Parser;
use vibesql_storage::Database;
use vibesql_types::SqlValue;

use vcore::exec::{self, Out};

/// `SELECT` returning (column names, rows); Err(class-less message) on error; panics caught.
pub static SELECTS: std::sync::atomic::AtomicU64 = std::sync::atomic::AtomicU64::new(0);
pub static SELECT_NANOS: std::sync::atomic::AtomicU64 = std::sync::atomic::AtomicU64::new(0);

pub fn select_cols(db: &Database, sql: &str) -> Result<(Vec<String>, Vec<Vec<SqlValue>>), String> {
    // (every SELECT of the engine allocates a zeroed 10 MB arena: ~0.2 ms each, far more on a
    // loaded machine — the oracle issues as few as the property needs)
    let t = std::time::Instant::now();
    let r = select_cols_inner(db, sql);
    SELECTS.fetch_add(1, std::sync::atomic::Ordering::Relaxed);
    SELECT_NANOS.fetch_add(t.elapsed().as_nanos() as u64, std::sync::atomic::Ordering::Relaxed);
    r
}

fn select_cols_inner(db: &Database, sql: &str) -> Result<(Vec<String>, Vec<Vec<SqlValue>>), String> {
    let stmt = match catch_unwind(|| Parser::parse_sql(sql)) {
        Ok(Ok(Statement::Select(s))) => s,
        Ok(Ok(_)) => return Err("not a SELECT".into()),
        Ok(Err(e)) => return Err(format!("parse: {}", e)),
        Err(p) => return Err(format!("PANIC parser: {}", exec::panic_msg(p))),
    };
    match catch_unwind(AssertUnwindSafe(|| ve::SelectExecutor::new(db).execute_with_columns(&stmt))) {
        Ok(Ok(r)) => Ok((r.columns, r.rows.into_iter().map(|r| r.values).collect())),
        Ok(Err(e)) => Err(format!("{}", e)),
        Err(p) => Err(format!("PANIC: {}", exec::panic_msg(p))),
    }
}

/// Quote an identifier exactly as stored (delimited identifier keeps its case).
pub fn q(name: &str) -> String {
    format!("\"{}\"", name.replace('"', "\"\""))
}

/// One-line description of all registries (used by `sql` probe and replays).
pub fn describe(db: &Database) -> String {
    let mut s = String::new();
    let mut cat = db.catalog.list_tables();
    cat.sort();
    s.push_str("  catalog tables:");
    for t in &cat {
        let cols = db.catalog.get_table(t).map(|x| x.columns.iter().map(|c| c.name.clone()).collect::<Vec<_>>().join(","));
        s.push_str(&format!(" {}({})", t, cols.unwrap_or_else(|| "?".into())));
    }
    s.push_str("\n  storage tables:");
    for k in vcore::obs::table_keys(db) {
        let t = &db.tables[&k];
        let cols = t.schema.columns.iter().map(|c| c.name.clone()).collect::<Vec<_>>().join(",");
        s.push_str(&format!(" {}[{}]({}) rows={}", k, t.schema.name, cols, t.row_count()));
    }
    s.push_str("\n  storage indexes:");
    let mut idx = db.list_indexes();
    idx.sort();
    for i in idx {
        if let Some(m) = db.get_index(&i) {
            let cols = m.columns.iter().map(|c| c.column_name.clone()).collect::<Vec<_>>().join(",");
            let n = vcore::obs::index_map(db, &i).map(|m| m.values().map(|v| v.len()).sum::<usize>());
            s.push_str(&format!(" {}=>{} on {}({}) uniq={} entries={:?}", i, m.index_name, m.table_name, cols, m.unique, n));
        }
    }
    s.push_str("\n  catalog indexes:");
    let mut ci: Vec<String> = db
        .catalog
        .list_all_indexes()
        .iter()
        .map(|m| format!("{} on {}({})", m.name, m.table_name, m.columns.iter().map(|c| c.column_name.clone()).collect::<Vec<_>>().join(",")))
        .collect();
    ci.sort();
    for c in ci {
        s.push_str(&format!(" [{}]", c));
    }
    let mut tr = db.catalog.list_triggers();
    tr.sort();
    if !tr.is_empty() {
        s.push_str(&format!("\n  triggers: {:?}", tr));
    }
    s
}

/// `sql` subcommand: run statements (one per line; `#` comments) and print outcomes + registries.
pub fn probe(path: &str) -> i32 {
    let Ok(text) = std::fs::read_to_string(path) else {
        eprintln!("cannot read {}", path);
        return 2;
    };
    let mut db = Database::new();
    for line in text.lines() {
        let line = line.trim();
        if line.is_empty() || line.starts_with('#') {
            continue;
        }
        if line == "---" {
            db = Database::new();
            println!("--- fresh database");
            continue;
        }
        let verbose = !line.starts_with('@');
        let sql = line.trim_start_matches('@');
        let o: Out = apply_op(&mut db, sql);
        println!("{}\n   => {}", sql, o.brief());
        if verbose && !sql.to_uppercase().starts_with("SELECT") {
            println!("{}", describe(&db));
        }
    }
    0
}

/// Execute one op of an alphabet. Plain SQL goes through the real parser and executor. Two kinds
/// of ops are executed as ASTs because the SQL front end cannot express them:
/// * `CREATE TRIGGER … BEGIN <body> END`: the header (name, timing, event, table, granularity,
///   WHEN) is parsed by the real parser; the body is stored as `TriggerAction::RawSql(<body>)`
///   (the parser would store the `Debug` rendering of the body's tokens, which cannot execute);
/// * `INSERT INTO "x" …` / `DELETE FROM "x" …` / `UPDATE "x" …` with a delimited table name: the
///   parser rejects delimited names in DML, so the statement is parsed with a placeholder name
///   and the table name in the AST is replaced.
pub fn apply_op(db: &mut Database, op: &str) -> Out {
    let up = op.trim_start().to_uppercase();
    if up.starts_with("CREATE TRIGGER") {
        let (Some(b), Some(e)) = (op.find(" BEGIN "), op.rfind(" END")) else {
            return exec::exec(db, op);
        };
        let body = op[b + 7..e].trim().to_string();
        let header = format!("{} BEGIN SELECT 1 END", &op[..b]);
        return match exec::parse(&header) {
            Ok(Statement::CreateTrigger(mut st)) => {
                st.triggered_action = vibesql_ast::TriggerAction::RawSql(body);
                exec::exec_stmt(db, &Statement::CreateTrigger(st))
            }
            Ok(_) => Out::Err(exec::ErrClass::Other, "not a CREATE TRIGGER".into()),
            Err(e) => Out::Err(exec::ErrClass::Parse, e),
        };
    }
    for (kw, _n) in [("INSERT INTO \"", 0), ("DELETE FROM \"", 0), ("UPDATE \"", 0)] {
        if up.starts_with(kw) {
            let start = kw.len();
            let Some(endq) = op[start..].find('"') else { break };
            let name = op[start..start + endq].to_string();
            let text = format!("{}zz_placeholder{}", &op[..start - 1], &op[start + endq + 1..]);
            return match exec::parse(&text) {
                Ok(Statement::Insert(mut s)) => {
                    s.table_name = name;
                    exec::exec_stmt(db, &Statement::Insert(s))
                }
                Ok(Statement::Delete(mut s)) => {
                    s.table_name = name;
                    exec::exec_stmt(db, &Statement::Delete(s))
                }
                Ok(Statement::Update(mut s)) => {
                    s.table_name = name;
                    exec::exec_stmt(db, &Statement::Update(s))
                }
                Ok(_) => Out::Err(exec::ErrClass::Other, "unexpected statement".into()),
                Err(e) => Out::Err(exec::ErrClass::Parse, e),
            };
        }
    }
    exec::exec(db, op)
}

/// development aid: cost of the primitive steps of a transition
pub fn bench() -> i32 {
    use std::time::Instant;
    let db = exec::fresh(crate::c34::PRELUDE);
    let n = 2000;
    let t = Instant::now();
    for _ in 0..n {
        std::hint::black_box(Database::new());
    }
    println!("Database::new   {:?}", t.elapsed() / n);
    let t = Instant::now();
    for _ in 0..n {
        std::hint::black_box(db.clone());
    }
    println!("clone           {:?}", t.elapsed() / n);
    let t = Instant::now();
    for _ in 0..n {
        std::hint::black_box(vcore::fp::canon(&db));
    }
    println!("canon           {:?}", t.elapsed() / n);
    let t = Instant::now();
    for _ in 0..n {
        let mut c = db.clone();
        std::hint::black_box(apply_op(&mut c, "UPDATE t SET v = v + 1"));
    }
    println!("clone+update    {:?}", t.elapsed() / n);
    let t = Instant::now();
    for _ in 0..n {
        std::hint::black_box(select_cols(&db, "SELECT * FROM \"T\" WHERE V = 10").is_ok());
    }
    println!("select          {:?}", t.elapsed() / n);
    for q in ["SELECT * FROM \"T\"", "SELECT * FROM t WHERE v = 10", "SELECT id FROM t WHERE id = 1", "SELECT COUNT(*) FROM t"] {
        let t = Instant::now();
        for _ in 0..n {
            std::hint::black_box(select_cols(&db, q).is_ok());
        }
        println!("{:40} {:?}", q, t.elapsed() / n);
    }
    let stmt = exec::parse("SELECT * FROM t WHERE v = 10").unwrap();
    let t = Instant::now();
    for _ in 0..n {
        std::hint::black_box(exec::exec_stmt(&mut db.clone(), &stmt).is_ok());
    }
    println!("pre-parsed select + clone {:?}", t.elapsed() / n);
    let t = Instant::now();
    for _ in 0..n {
        std::hint::black_box(exec::parse("SELECT * FROM t WHERE v = 10").is_ok());
    }
    println!("parse only {:?}", t.elapsed() / n);
    0
}
