//! C34 — row triggers fire once per affected row with the right row images (DESIGN §5 C34).
//!
//! Explicit-state search (vcore::histmc) over histories `trigger definitions* ; DML+` on a fixed
//! small database. Triggers are created as `CreateTriggerStmt` ASTs whose header (timing, event,
//! granularity, WHEN) comes from the real parser and whose body is `TriggerAction::RawSql`
//! (see `common::apply_op`). Trigger bodies write their trigger id and the OLD/NEW images into an
//! audit table, or (the "failing" body) into a table whose CHECK rejects v = 20 and v = 80, so that
//! a trigger fails for one particular row in the middle of a multi-row statement.
//! A reference firing model computes, from the rows of the pre-state and the trigger set, the
//! multiset of audit rows the statement has to produce, or that the statement has to fail and
//! leave the table as it was.

use std::collections::{BTreeMap, HashMap};

use serde_json::json;
use vibesql_storage::Database;

use vcore::exec::Out;
use vcore::histmc::{self, Caps, Node, Spec};
use vcore::report::Report;
use vcore::val::{self, NV};

use crate::common::{apply_op, describe};

pub const PRELUDE: &[&str] = &[
    "CREATE TABLE t (id INT PRIMARY KEY, v INT, w INT)",
    "CREATE TABLE s (id INT PRIMARY KEY, v INT, w INT)",
    "CREATE TABLE aud (tg INT, oid INT, ov INT, ow INT, nid INT, nv INT, nw INT)",
    "CREATE TABLE g (tg INT, x INT CHECK (x <> 20 AND x <> 80))",
    "INSERT INTO t VALUES (1, 10, 100), (2, 20, 200), (3, NULL, 300)",
    "INSERT INTO s VALUES (4, 40, 400), (5, 80, 500)",
];

type V = Option<i64>;
type Row = [V; 3];

// ---------------------------------------------------------------------------------------------
// trigger definitions
// ---------------------------------------------------------------------------------------------

#[derive(Clone, Copy, Debug, PartialEq, Eq)]
enum Ev {
    Insert,
    Update,
    UpdateOfV,
    Delete,
}
#[derive(Clone, Copy, Debug, PartialEq, Eq)]
enum When {
    None,
    /// NEW.v > 15 (OLD.v > 15 for DELETE)
    Gt15,
    /// OLD.v IS NULL (NEW.v IS NULL for INSERT)
    IsNull,
}

#[derive(Clone, Debug)]
struct TDef {
    id: usize,
    before: bool,
    ev: Ev,
    row: bool,
    when: When,
    fail: bool,
    sql: String,
}

fn tdefs() -> Vec<TDef> {
    let mut v = vec![];
    let mut id = 0;
    for before in [true, false] {
        for ev in [Ev::Insert, Ev::Update, Ev::UpdateOfV, Ev::Delete] {
            for row in [true, false] {
                let whens: &[When] = if row { &[When::None, When::Gt15, When::IsNull] } else { &[When::None] };
                for &when in whens {
                    for fail in [false, true] {
                        id += 1;
                        let timing = if before { "BEFORE" } else { "AFTER" };
                        let event = match ev {
                            Ev::Insert => "INSERT",
                            Ev::Update => "UPDATE",
                            Ev::UpdateOfV => "UPDATE OF (v)",
                            Ev::Delete => "DELETE",
                        };
                        let gran = if row { "ROW" } else { "STATEMENT" };
                        let w = match (when, ev) {
                            (When::None, _) => String::new(),
                            (When::Gt15, Ev::Delete) => " WHEN (OLD.v > 15)".into(),
                            (When::Gt15, _) => " WHEN (NEW.v > 15)".into(),
                            (When::IsNull, Ev::Insert) => " WHEN (NEW.v IS NULL)".into(),
                            (When::IsNull, _) => " WHEN (OLD.v IS NULL)".into(),
                        };
                        let (o, n) = match ev {
                            Ev::Insert => ("NULL, NULL, NULL", "NEW.id, NEW.v, NEW.w"),
                            Ev::Delete => ("OLD.id, OLD.v, OLD.w", "NULL, NULL, NULL"),
                            _ => ("OLD.id, OLD.v, OLD.w", "NEW.id, NEW.v, NEW.w"),
                        };
                        let body = match (row, fail) {
                            (true, false) => format!("INSERT INTO aud VALUES ({}, {}, {})", id, o, n),
                            (true, true) => format!("INSERT INTO g VALUES ({}, {})", id, if ev == Ev::Insert { "NEW.v" } else { "OLD.v" }),
                            (false, false) => format!("INSERT INTO aud VALUES ({}, NULL, NULL, NULL, NULL, NULL, NULL)", id),
                            (false, true) => format!("INSERT INTO g VALUES ({}, 20)", id),
                        };
                        let sql = format!("CREATE TRIGGER tg{} {} {} ON t FOR EACH {}{} BEGIN {} END", id, timing, event, gran, w, body);
                        v.push(TDef { id, before, ev, row, when, fail, sql });
                    }
                }
            }
        }
    }
    v
}

// ---------------------------------------------------------------------------------------------
// DML menu with reference semantics
// ---------------------------------------------------------------------------------------------

#[derive(Clone, Copy, Debug, PartialEq, Eq)]
enum DKind {
    Insert,
    /// `v_in_set`: column v is a target of SET
    Update { v_in_set: bool },
    Delete,
}

#[derive(Clone)]
struct Dml {
    sql: &'static str,
    shape: &'static str,
    kind: DKind,
    /// reference semantics: (rows of t, rows of s) -> affected (old, new) pairs; None = the
    /// statement is invalid on this state (duplicate key) and is not a case
    f: fn(&[Row], &[Row]) -> Option<Vec<(Option<Row>, Option<Row>)>>,
}

fn ins(t: &[Row], new: &[Row]) -> Option<Vec<(Option<Row>, Option<Row>)>> {
    let mut ids: Vec<V> = t.iter().map(|r| r[0]).collect();
    for r in new {
        if ids.contains(&r[0]) {
            return None;
        }
        ids.push(r[0]);
    }
    Some(new.iter().map(|r| (None, Some(*r))).collect())
}

fn upd(t: &[Row], sel: fn(&Row) -> bool, set: fn(&Row) -> Row) -> Option<Vec<(Option<Row>, Option<Row>)>> {
    let out: Vec<(Option<Row>, Option<Row>)> = t.iter().filter(|r| sel(r)).map(|r| (Some(*r), Some(set(r)))).collect();
    // key collisions make the statement invalid
    let mut ids: Vec<V> = t.iter().filter(|r| !sel(r)).map(|r| r[0]).collect();
    for (_, n) in &out {
        let id = n.unwrap()[0];
        if ids.contains(&id) {
            return None;
        }
        ids.push(id);
    }
    Some(out)
}

fn del(t: &[Row], sel: fn(&Row) -> bool) -> Option<Vec<(Option<Row>, Option<Row>)>> {
    Some(t.iter().filter(|r| sel(r)).map(|r| (Some(*r), None)).collect())
}

fn dmls(thorough: bool) -> Vec<Dml> {
    let mut v = vec![
        Dml { sql: "INSERT INTO t VALUES (6, 60, 600)", shape: "insert_single", kind: DKind::Insert, f: |t, _| ins(t, &[[Some(6), Some(60), Some(600)]]) },
        Dml { sql: "INSERT INTO t VALUES (7, 7, 700), (8, 80, 800)", shape: "insert_multi", kind: DKind::Insert, f: |t, _| ins(t, &[[Some(7), Some(7), Some(700)], [Some(8), Some(80), Some(800)]]) },
        Dml { sql: "INSERT INTO t SELECT * FROM s", shape: "insert_select_star", kind: DKind::Insert, f: |t, s| ins(t, s) },
        Dml { sql: "INSERT INTO t (id, v, w) SELECT id, v, w FROM s", shape: "insert_select_columns", kind: DKind::Insert, f: |t, s| ins(t, s) },
        Dml { sql: "UPDATE t SET v = v + 1", shape: "update_all", kind: DKind::Update { v_in_set: true }, f: |t, _| upd(t, |_| true, |r| [r[0], r[1].map(|x| x + 1), r[2]]) },
        Dml { sql: "UPDATE t SET v = 99 WHERE id = 2", shape: "update_one_by_key", kind: DKind::Update { v_in_set: true }, f: |t, _| upd(t, |r| r[0] == Some(2), |r| [r[0], Some(99), r[2]]) },
        Dml { sql: "UPDATE t SET w = w + 1", shape: "update_other_column", kind: DKind::Update { v_in_set: false }, f: |t, _| upd(t, |_| true, |r| [r[0], r[1], r[2].map(|x| x + 1)]) },
        Dml { sql: "UPDATE t SET v = 0 WHERE id = 9", shape: "update_no_row", kind: DKind::Update { v_in_set: true }, f: |t, _| upd(t, |r| r[0] == Some(9), |r| [r[0], Some(0), r[2]]) },
        Dml { sql: "DELETE FROM t WHERE id = 1", shape: "delete_one_by_key", kind: DKind::Delete, f: |t, _| del(t, |r| r[0] == Some(1)) },
        Dml { sql: "DELETE FROM t WHERE v > 5", shape: "delete_some", kind: DKind::Delete, f: |t, _| del(t, |r| r[1].map(|x| x > 5).unwrap_or(false)) },
        Dml { sql: "DELETE FROM t", shape: "delete_all", kind: DKind::Delete, f: |t, _| del(t, |_| true) },
        Dml { sql: "DELETE FROM t WHERE id = 9", shape: "delete_no_row", kind: DKind::Delete, f: |t, _| del(t, |r| r[0] == Some(9)) },
    ];
    if thorough {
        v.extend([
            Dml { sql: "UPDATE t SET id = id + 10 WHERE id = 1", shape: "update_key", kind: DKind::Update { v_in_set: false }, f: |t, _| upd(t, |r| r[0] == Some(1), |r| [r[0].map(|x| x + 10), r[1], r[2]]) },
            Dml { sql: "UPDATE t SET v = v, w = 0", shape: "update_same_value", kind: DKind::Update { v_in_set: true }, f: |t, _| upd(t, |_| true, |r| [r[0], r[1], Some(0)]) },
            Dml { sql: "INSERT INTO t VALUES (9, NULL, 900)", shape: "insert_single_null", kind: DKind::Insert, f: |t, _| ins(t, &[[Some(9), None, Some(900)]]) },
            Dml { sql: "UPDATE t SET v = 30 WHERE v IS NULL", shape: "update_null_rows", kind: DKind::Update { v_in_set: true }, f: |t, _| upd(t, |r| r[1].is_none(), |r| [r[0], Some(30), r[2]]) },
        ]);
    }
    v
}

// ---------------------------------------------------------------------------------------------
// reference firing model
// ---------------------------------------------------------------------------------------------

/// What the statement must do.
#[derive(Debug, Clone, PartialEq)]
enum Expect {
    /// a fired trigger fails (culprit trigger id): statement fails, t unchanged
    Fail(usize),
    /// audit rows / g rows (trigger id first) that must appear, ones that may appear, new t
    Ok { must: Vec<Vec<V>>, may: Vec<Vec<V>>, t: Vec<Row> },
}

#[derive(PartialEq)]
enum Fire {
    Must,
    No,
    May,
}

fn when_holds(w: When, ev: Ev, o: &Option<Row>, n: &Option<Row>) -> bool {
    match (w, ev) {
        (When::None, _) => true,
        (When::Gt15, Ev::Delete) => o.unwrap()[1].map(|x| x > 15).unwrap_or(false),
        (When::Gt15, _) => n.unwrap()[1].map(|x| x > 15).unwrap_or(false),
        (When::IsNull, Ev::Insert) => n.unwrap()[1].is_none(),
        (When::IsNull, _) => o.unwrap()[1].is_none(),
    }
}

fn expect(trigs: &[&TDef], d: &Dml, t: &[Row], s: &[Row]) -> Option<Expect> {
    let affected = (d.f)(t, s)?;
    let mut must = vec![];
    let mut may = vec![];
    let mut fail: Option<usize> = None;
    for tr in trigs {
        // does the event match the statement?
        let ev_fire = match (tr.ev, d.kind) {
            (Ev::Insert, DKind::Insert) | (Ev::Delete, DKind::Delete) | (Ev::Update, DKind::Update { .. }) => true,
            (Ev::UpdateOfV, DKind::Update { v_in_set }) => v_in_set,
            _ => false,
        };
        if !ev_fire {
            continue;
        }
        if !tr.row {
            if tr.fail {
                fail = fail.or(Some(tr.id));
            } else {
                must.push(vec![Some(tr.id as i64), None, None, None, None, None, None]);
            }
            continue;
        }
        for (o, n) in &affected {
            let mut fire = Fire::Must;
            if tr.ev == Ev::UpdateOfV && o.unwrap()[1] == n.unwrap()[1] {
                // column named in SET but its value did not change: SQL fires, "changed value"
                // implementations do not; the property statement does not decide
                fire = Fire::May;
            }
            if !when_holds(tr.when, tr.ev, o, n) {
                fire = Fire::No;
            }
            if fire == Fire::No {
                continue;
            }
            let rowv: Vec<V> = if tr.fail {
                let x = if tr.ev == Ev::Insert { n.unwrap()[1] } else { o.unwrap()[1] };
                if x == Some(20) || x == Some(80) {
                    if fire == Fire::Must {
                        fail = fail.or(Some(tr.id));
                        continue;
                    } else {
                        return None; // may-fire and failing: outcome not determined, not a case
                    }
                }
                vec![Some(tr.id as i64), x]
            } else {
                let mut r = vec![Some(tr.id as i64)];
                r.extend(o.map(|x| x.to_vec()).unwrap_or(vec![None; 3]));
                r.extend(n.map(|x| x.to_vec()).unwrap_or(vec![None; 3]));
                r
            };
            if fire == Fire::Must {
                must.push(rowv);
            } else {
                may.push(rowv);
            }
        }
    }
    if let Some(id) = fail {
        return Some(Expect::Fail(id));
    }
    // new content of t
    let mut nt: Vec<Row> = vec![];
    match d.kind {
        DKind::Insert => {
            nt.extend_from_slice(t);
            nt.extend(affected.iter().map(|(_, n)| n.unwrap()));
        }
        DKind::Update { .. } => {
            for r in t {
                match affected.iter().find(|(o, _)| o.unwrap() == *r) {
                    Some((_, n)) => nt.push(n.unwrap()),
                    None => nt.push(*r),
                }
            }
        }
        DKind::Delete => {
            nt.extend(t.iter().filter(|r| !affected.iter().any(|(o, _)| o.unwrap() == **r)).cloned());
        }
    }
    nt.sort();
    must.sort();
    may.sort();
    Some(Expect::Ok { must, may, t: nt })
}

// ---------------------------------------------------------------------------------------------
// observation
// ---------------------------------------------------------------------------------------------

fn to_v(x: &vibesql_types::SqlValue) -> V {
    match val::norm(x) {
        NV::Int(i) => Some(i as i64),
        _ => None,
    }
}

fn rows_of(db: &Database, table: &str) -> Vec<Vec<V>> {
    let mut r: Vec<Vec<V>> = vcore::obs::rows_of(db, table).iter().map(|r| r.iter().map(to_v).collect()).collect();
    r.sort();
    r
}

fn t_rows(db: &Database, table: &str) -> Vec<Row> {
    rows_of(db, table).iter().map(|r| [r[0], r[1], r[2]]).collect()
}

/// multiset difference a − b; None if b is not contained in a
fn minus(a: &[Vec<V>], b: &[Vec<V>]) -> Option<Vec<Vec<V>>> {
    let mut a = a.to_vec();
    for x in b {
        let p = a.iter().position(|y| y == x)?;
        a.remove(p);
    }
    a.sort();
    Some(a)
}

fn fmt_rows(r: &[Vec<V>]) -> String {
    let rows: Vec<String> = r.iter().take(10).map(|x| format!("({})", x.iter().map(|v| v.map(|i| i.to_string()).unwrap_or("NULL".into())).collect::<Vec<_>>().join(","))).collect();
    format!("[{}{}]", rows.join(","), if r.len() > 10 { ",…" } else { "" })
}

/// Compare one transition with the reference. Returns (aspect, culprit trigger id, description).
fn judge(trigs: &[&TDef], d: &Dml, pre: &Database, post: &Database, out: &Out) -> Result<Option<(&'static str, usize, String)>, &'static str> {
    let t0 = t_rows(pre, "T");
    let s0 = t_rows(pre, "S");
    let Some(exp) = expect(trigs, d, &t0, &s0) else { return Err("not_a_case") };
    let t1 = t_rows(post, "T");
    match exp {
        Expect::Fail(culprit) => {
            if out.is_ok() {
                return Ok(Some(("failing_trigger_ignored", culprit, format!("trigger tg{} fails for a row of this statement, yet the statement reports {}", culprit, out.brief()))));
            }
            if out.is_panic() {
                return Ok(Some(("panic", culprit, out.brief())));
            }
            if t1 != t0 {
                return Ok(Some(("failed_statement_changed_table", culprit, format!("the statement failed ({}) but t went from {} to {}", out.brief(), fmt_rows(&t0.iter().map(|r| r.to_vec()).collect::<Vec<_>>()), fmt_rows(&t1.iter().map(|r| r.to_vec()).collect::<Vec<_>>())))));
            }
            Ok(None)
        }
        Expect::Ok { must, may, t } => {
            if out.is_panic() {
                return Ok(Some(("panic", trigs.first().map(|t| t.id).unwrap_or(0), out.brief())));
            }
            if !out.is_ok() {
                return Err("rejected_by_engine"); // a valid statement wrongly rejected is not C34's business
            }
            // audit rows written by this statement
            let mut got: Vec<Vec<V>> = vec![];
            for tb in ["AUD", "G"] {
                match minus(&rows_of(post, tb), &rows_of(pre, tb)) {
                    Some(d) => got.extend(d),
                    None => return Ok(Some(("audit_rows_vanished", 0, format!("rows of {} present before the statement are gone", tb)))),
                }
            }
            got.sort();
            // got must contain `must` and the rest must be within `may`
            let rest = minus(&got, &must);
            let okk = match &rest {
                Some(r) => minus(&may, r).is_some(),
                None => false,
            };
            if !okk {
                // culprit: first trigger whose rows differ
                for tr in trigs {
                    let sel = |rows: &[Vec<V>]| -> Vec<Vec<V>> { rows.iter().filter(|r| r[0] == Some(tr.id as i64)).cloned().collect() };
                    let (g, m, y) = (sel(&got), sel(&must), sel(&may));
                    let fine = match minus(&g, &m) {
                        Some(r) => minus(&y, &r).is_some(),
                        None => false,
                    };
                    if !fine {
                        let aspect = if g.len() < m.len() {
                            "missing_firing"
                        } else if g.len() > m.len() + y.len() {
                            "extra_firing"
                        } else {
                            "wrong_row_image"
                        };
                        return Ok(Some((aspect, tr.id, format!("trigger tg{} wrote {} but has to write {}{}", tr.id, fmt_rows(&g), fmt_rows(&m), if y.is_empty() { String::new() } else { format!(" (optionally also {})", fmt_rows(&y)) }))));
                    }
                }
                return Ok(Some(("unattributed_audit_rows", 0, format!("audit rows {} expected {}", fmt_rows(&got), fmt_rows(&must)))));
            }
            if t1 != t {
                return Err("dml_effect_differs"); // which rows a statement touches is C09's business
            }
            Ok(None)
        }
    }
}

// ---------------------------------------------------------------------------------------------
// the search
// ---------------------------------------------------------------------------------------------

struct C34Spec {
    defs: Vec<TDef>,
    dmls: Vec<Dml>,
    def_by_sql: HashMap<String, usize>,
    dml_by_sql: HashMap<String, usize>,
    /// core definitions (see `spec`)
    core: Vec<usize>,
    /// indexes into defs from which pairs of triggers are drawn
    pair_pool: Vec<usize>,
    max_trigs: usize,
    max_dml: usize,
    pairs_get_two_statements: bool,
    counters: Counters,
}

#[derive(Default)]
struct Counters {
    judged: std::sync::atomic::AtomicU64,
    not_a_case: std::sync::atomic::AtomicU64,
    rejected: std::sync::atomic::AtomicU64,
    dml_differs: std::sync::atomic::AtomicU64,
    expect_fail: std::sync::atomic::AtomicU64,
    firings: std::sync::atomic::AtomicU64,
    outcomes: std::sync::Mutex<BTreeMap<String, u64>>,
    by_dml: std::sync::Mutex<BTreeMap<String, u64>>,
}

#[derive(Clone, Default)]
pub struct M {
    trigs: Vec<usize>,
    n_dml: usize,
}

fn case_json(hist: &[String]) -> serde_json::Value {
    json!({"prelude": PRELUDE, "steps": hist, "probes": ["SELECT * FROM t", "SELECT * FROM aud", "SELECT * FROM g"]})
}

fn signature(aspect: &str, culprit: Option<&TDef>, d: &Dml, n_trigs: usize) -> Vec<(&'static str, String)> {
    let mut s = vec![("aspect", aspect.to_string()), ("dml", d.shape.to_string()), ("triggers_on_table", n_trigs.min(2).to_string())];
    if let Some(t) = culprit {
        s.push(("timing", if t.before { "before" } else { "after" }.into()));
        s.push(("event", format!("{:?}", t.ev)));
        s.push(("granularity", if t.row { "row" } else { "statement" }.into()));
        s.push(("when", format!("{:?}", t.when)));
        s.push(("body", if t.fail { "failing" } else { "audit" }.into()));
    }
    s
}

impl Spec for C34Spec {
    type M = M;
    fn init(&self) -> Vec<Node<M>> {
        vec![Node { db: vcore::exec::fresh(PRELUDE), model: M::default(), hist: vec![] }]
    }
    fn alphabet(&self, _db: &Database, m: &M, _h: &[String]) -> Vec<String> {
        let mut a = vec![];
        if m.n_dml == 0 && m.trigs.len() < self.max_trigs {
            // trigger sets are built in ascending order of definition (no permutations);
            // a second and later trigger comes from the core list
            let last = m.trigs.last().copied();
            // the second trigger of a set comes from `pair_pool`, a third one from the core list
            let pool: &Vec<usize> = if m.trigs.len() >= 2 { &self.core } else { &self.pair_pool };
            for (i, d) in self.defs.iter().enumerate() {
                if let Some(l) = last {
                    if i <= l || !pool.contains(&i) || m.trigs.iter().any(|t| !pool.contains(t)) {
                        continue;
                    }
                }
                a.push(d.sql.clone());
            }
        }
        // quick tier: a second statement only follows histories with at most one trigger
        // and only if that trigger is one of the core definitions
        let second_ok = m.trigs.len() < 3 && (self.pairs_get_two_statements || m.trigs.is_empty() || (m.trigs.len() == 1 && self.core.contains(&m.trigs[0])));
        if m.n_dml < self.max_dml && (m.n_dml == 0 || second_ok) {
            a.extend(self.dmls.iter().map(|d| d.sql.to_string()));
        }
        a
    }
    fn apply(&self, db: &mut Database, op: &str) -> Out {
        apply_op(db, op)
    }
    fn model_key(&self, m: &M) -> String {
        format!("{:?}/{}", m.trigs, m.n_dml)
    }
    fn step(&self, pre: &Database, m: &M, op: &str, post: &Database, out: &Out, hist: &[String], rep: &Report) -> Option<M> {
        use std::sync::atomic::Ordering::Relaxed;
        if let Some(&i) = self.def_by_sql.get(op) {
            if !out.is_ok() {
                // a well-formed definition the engine rejects is not a case
                self.counters.rejected.fetch_add(1, Relaxed);
                return None;
            }
            let mut m2 = m.clone();
            m2.trigs.push(i);
            return Some(m2);
        }
        let d = &self.dmls[self.dml_by_sql[op]];
        let trigs: Vec<&TDef> = m.trigs.iter().map(|i| &self.defs[*i]).collect();
        let verdict = judge(&trigs, d, pre, post, out);
        let mut m2 = m.clone();
        m2.n_dml += 1;
        match verdict {
            Err(why) => {
                match why {
                    "not_a_case" => self.counters.not_a_case.fetch_add(1, Relaxed),
                    "rejected_by_engine" => self.counters.rejected.fetch_add(1, Relaxed),
                    _ => self.counters.dml_differs.fetch_add(1, Relaxed),
                };
                if why == "not_a_case" { Some(m2) } else { None }
            }
            Ok(None) => {
                self.counters.judged.fetch_add(1, Relaxed);
                let t0 = t_rows(pre, "T");
                let s0 = t_rows(pre, "S");
                let key = match expect(&trigs, d, &t0, &s0) {
                    Some(Expect::Fail(_)) => {
                        self.counters.expect_fail.fetch_add(1, Relaxed);
                        "statement_fails_table_unchanged".to_string()
                    }
                    Some(Expect::Ok { must, .. }) => {
                        self.counters.firings.fetch_add(must.len() as u64, Relaxed);
                        format!("ok_with_{}_firings", must.len())
                    }
                    None => "-".into(),
                };
                *self.counters.outcomes.lock().unwrap().entry(key).or_default() += 1;
                *self.counters.by_dml.lock().unwrap().entry(d.shape.to_string()).or_default() += 1;
                Some(m2)
            }
            Ok(Some((aspect, culprit, what))) => {
                let case = case_json(hist);
                let again = [run_case(&case, false), run_case(&case, false)];
                if again.iter().all(|r| matches!(r, Ok(Some((a, _))) if a == aspect)) {
                    let c = self.defs.iter().find(|t| t.id == culprit);
                    rep.violation(&signature(aspect, c, d, trigs.len()), format!("after {:?}: {}", hist, what), case);
                } else {
                    rep.machinery_error(format!("case {:?} gave `{}` in the search but {:?} when re-executed", hist, aspect, again));
                }
                None
            }
        }
    }
}

fn spec(thorough: bool) -> C34Spec {
    let defs = tdefs();
    let dmls = dmls(thorough);
    // core: row-level audit/failing triggers without WHEN for every timing × event, plus the
    // statement-level audit triggers — the combinations in which two triggers interact
    let core: Vec<usize> = defs
        .iter()
        .enumerate()
        .filter(|(_, d)| (d.row && d.when == When::None) || (!d.row && !d.fail && !d.before))
        .map(|(i, _)| i)
        .collect();
    let pair_pool: Vec<usize> = if thorough { (0..defs.len()).collect() } else { core.clone() };
    C34Spec {
        def_by_sql: defs.iter().enumerate().map(|(i, d)| (d.sql.clone(), i)).collect(),
        dml_by_sql: dmls.iter().enumerate().map(|(i, d)| (d.sql.to_string(), i)).collect(),
        defs,
        dmls,
        core,
        pair_pool,
        max_trigs: if thorough { 3 } else { 2 },
        max_dml: 2,
        pairs_get_two_statements: thorough,
        counters: Counters::default(),
    }
}

pub fn run(tier: &str) -> i32 {
    let mut rep = Report::new("C34", tier, "model_checking");
    vibesql_types::verif::reset();
    let thorough = tier == "thorough";
    let sp = spec(thorough);
    let depth = sp.max_trigs + sp.max_dml;
    let caps = Caps { max_states: if thorough { 3_000_000 } else { 400_000 }, max_secs: if thorough { 600.0 } else { 20.0 } };
    // stateless guard: one trigger, one statement, no merging
    let guard = C34Spec { max_trigs: 1, max_dml: 1, counters: Counters::default(), ..spec(thorough) };
    let st2 = histmc::bfs(&guard, 2, false, &rep, &Caps { max_states: 5_000_000, max_secs: if thorough { 120.0 } else { 12.0 } });
    let st = histmc::bfs(&sp, depth, true, &rep, &caps);
    histmc::stats_into(&mut rep, "", &st);
    histmc::stats_into(&mut rep, "stateless_guard_", &st2);
    use std::sync::atomic::Ordering::Relaxed;
    let c = &sp.counters;
    rep.set("trigger_definitions", json!(sp.defs.len()));
    rep.set("trigger_definitions_in_pairs", json!(sp.pair_pool.len()));
    rep.set("trigger_definitions_in_triples", json!(if thorough { sp.core.len() } else { 0 }));
    rep.set("dml_statements", json!(sp.dmls.len()));
    rep.set("dml_transitions_judged", json!(c.judged.load(Relaxed)));
    rep.set("dml_transitions_not_a_case", json!(c.not_a_case.load(Relaxed)));
    rep.set("transitions_rejected_by_engine", json!(c.rejected.load(Relaxed)));
    rep.set("dml_effect_differs_from_reference", json!(c.dml_differs.load(Relaxed)));
    rep.set("cases_where_a_trigger_must_fail_the_statement", json!(c.expect_fail.load(Relaxed)));
    rep.set("expected_firings_checked", json!(c.firings.load(Relaxed)));
    rep.set("distinct_outcomes", json!(c.outcomes.lock().unwrap().clone()));
    rep.set("judged_by_dml_shape", json!(c.by_dml.lock().unwrap().clone()));
    rep.set("exhaustive", json!(!st.capped && !st2.capped));
    rep.set("samples", json!(st.samples));
    rep.set("rule", json!("BFS over all histories (trigger definitions in ascending order — quick: ≤2, thorough: ≤3, see trigger_definitions_in_pairs/_in_triples; then ≤2 DML statements, one after three triggers) on the real Database; states merged on the canonical Debug fingerprint plus the model (trigger set, number of statements); every DML transition is compared with a reference firing model computed from the pre-state rows: multiset of audit rows (trigger id, OLD image, NEW image) written by the statement, statement-level triggers once, WHEN evaluated under three-valued logic, a failing firing ⇒ the statement fails and t is unchanged; violating states are reported and not expanded"));
    let (reach, vac) = vcore::report::reach_json(&["bulk_transfer", "delete_truncate_fast_path", "delete_pk_fast_path"]);
    rep.set("reach", reach);
    rep.set("vacuous_mechanisms", vac);
    rep.assume("equal canonical Debug fingerprints imply equal futures");
    rep.assume("UPDATE OF (v) with v named in SET but unchanged in value: firing is accepted either way (the property statement does not decide between the SQL rule and the changed-value rule)");
    rep.finish()
}

fn run_case(case: &serde_json::Value, verbose: bool) -> Result<Option<(String, String)>, String> {
    let defs = tdefs();
    let dmls = dmls(true);
    let steps: Vec<String> = case["steps"].as_array().map(|a| a.iter().filter_map(|x| x.as_str().map(|s| s.to_string())).collect()).unwrap_or_default();
    let mut db = vcore::exec::fresh(PRELUDE);
    let mut trigs: Vec<&TDef> = vec![];
    for sql in &steps {
        let pre = db.clone();
        let out = apply_op(&mut db, sql);
        if verbose {
            println!("{}\n   => {}", sql, out.brief());
        }
        if let Some(t) = defs.iter().find(|t| t.sql == *sql) {
            if out.is_ok() {
                trigs.push(t);
            }
            continue;
        }
        let Some(d) = dmls.iter().find(|d| d.sql == sql) else { return Err(format!("unknown op {}", sql)) };
        if verbose {
            for tb in ["T", "AUD", "G"] {
                println!("   {} = {}", tb, fmt_rows(&rows_of(&db, tb)));
            }
            let e = expect(&trigs, d, &t_rows(&pre, "T"), &t_rows(&pre, "S"));
            println!("   reference: {:?}", e);
        }
        match judge(&trigs, d, &pre, &db, &out) {
            Ok(Some((a, _, what))) => return Ok(Some((a.to_string(), what))),
            Ok(None) | Err("not_a_case") => {}
            Err(_) => return Ok(None),
        }
    }
    if verbose {
        println!("{}", describe(&db));
    }
    Ok(None)
}

pub fn replay(case: &serde_json::Value) -> i32 {
    match run_case(case, true) {
        Ok(Some((a, what))) => {
            println!("VIOLATED {}: {}", a, what);
            1
        }
        Ok(None) => {
            println!("the reference firing model is satisfied on this tree");
            0
        }
        Err(e) => {
            eprintln!("MACHINERY-ERROR {}", e);
            2
        }
    }
}
