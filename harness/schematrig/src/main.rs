//! `schematrigcheck` — checks C33, C34.
//!   schematrigcheck check <ID> <quick|thorough>
//!   schematrigcheck replay <path>

mod c33;
mod c34;
mod common;

// Every SelectExecutor allocates a zeroed 10 MiB arena per query; pool those blocks (see vcore::bigalloc)
#[global_allocator]
static GLOBAL: vcore::bigalloc::ArenaCache = vcore::bigalloc::ArenaCache;

fn usage() -> ! {
    eprintln!("usage: schematrigcheck check <C33|C34> <quick|thorough> | schematrigcheck replay <path>");
    std::process::exit(2)
}

fn replay(path: &str) -> i32 {
    let text = match std::fs::read_to_string(path) {
        Ok(t) => t,
        Err(e) => {
            eprintln!("cannot read {}: {}", path, e);
            return 2;
        }
    };
    let v: serde_json::Value = match serde_json::from_str(&text) {
        Ok(v) => v,
        Err(e) => {
            eprintln!("bad replay file: {}", e);
            return 2;
        }
    };
    println!("property: {}", v["property"].as_str().unwrap_or("?"));
    println!("signature: {}", v["signature"]);
    println!("recorded: {}", v["what"].as_str().unwrap_or(""));
    println!("-- re-execution");
    match v["property"].as_str() {
        Some("C33") => c33::replay(&v["case"]),
        Some("C34") => c34::replay(&v["case"]),
        _ => {
            eprintln!("not a replay file of this package");
            2
        }
    }
}

fn main() {
    let args: Vec<String> = std::env::args().collect();
    if args.len() < 2 {
        usage();
    }
    if std::env::var("PARALLEL_THRESHOLD").is_err() {
        std::env::set_var("PARALLEL_THRESHOLD", "max");
    }
    vcore::exec::silence_panics();
    let code = match args[1].as_str() {
        "check" if args.len() >= 4 => match args[2].as_str() {
            "C33" => c33::run(&args[3]),
            "C34" => c34::run(&args[3]),
            other => {
                eprintln!("schematrigcheck does not implement {}", other);
                2
            }
        },
        "replay" if args.len() >= 3 => replay(&args[2]),
        "sql" if args.len() >= 3 => common::probe(&args[2]),
        "bench" => common::bench(),
        _ => usage(),
    };
    std::process::exit(code);
}
